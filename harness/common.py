"""Shared machinery of the check driver: Coq literal printers, build, shard evaluation,
evidence.  Everything here is property-independent."""
from __future__ import annotations

import fcntl
import hashlib
import json
import os
import re
import subprocess
import sys
import time
from pathlib import Path

VERIF = Path(__file__).resolve().parent.parent
REPO = Path(os.environ.get("VERIF_REPO", "/repo"))
COQ = VERIF / "coq"
BUILD = VERIF / "_build"
EVIDENCE = VERIF / "evidence"
PY = "/venv/bin/python"
GUARD = "ASYNC_UPNP_CLIENT_VERIF"

FORBIDDEN_RE = re.compile(
    r"\b(Admitted|admit|Axiom|Axioms|Parameter|Parameters|Conjecture|Abort All)\b|Unset Guard|"
    r"bypass_check|type-in-type|Admit Obligations|impredicative-set|Unset Universe Checking|"
    r"Unset Positivity"
)
# Axioms a Print Assumptions line may name without failing the check (DESIGN.md §6): none.
AXIOM_ALLOW: set[str] = set()


# ---------------------------------------------------------------------------------------
# Coq literal printers
def c_nat(n: int) -> str:
    assert 0 <= n < 5000, n
    return f"{n}%nat"


def c_N(n: int) -> str:
    assert n >= 0
    return f"{n}%N"


def c_Z(n: int) -> str:
    return f"({n})%Z"


def c_bool(b: bool) -> str:
    return "true" if b else "false"


def c_list(items, ty: str | None = None) -> str:
    items = list(items)
    if not items:
        return f"(@nil {ty})" if ty else "[]"
    return "[" + "; ".join(items) + "]"


def c_str(s: str) -> str:
    """Python str -> pystr (list N of Unicode scalar values)."""
    if not s:
        return "(@nil N)"
    return "[" + ";".join(str(ord(ch)) for ch in s) + "]%N"


def c_bytes(b: bytes) -> str:
    if not b:
        return "(@nil N)"
    return "[" + ";".join(str(x) for x in b) + "]%N"


def c_opt(x, f, ty: str | None = None) -> str:
    if x is None:
        return f"(@None {ty})" if ty else "None"
    return f"(Some {f(x)})"


def c_pair(a: str, b: str) -> str:
    return f"({a}, {b})"


# ---------------------------------------------------------------------------------------
def sh(cmd, timeout, cwd=None, env=None):
    try:
        p = subprocess.run(
            cmd, cwd=cwd, env=env, timeout=timeout, capture_output=True, text=True
        )
        return p.returncode, p.stdout, p.stderr
    except subprocess.TimeoutExpired as e:
        return 124, (e.stdout or b"").decode("utf8", "replace") if isinstance(
            e.stdout, bytes
        ) else (e.stdout or ""), "TIMEOUT"


class BuildResult:
    def __init__(self):
        self.ok = True
        self.failed_target = None
        self.log = ""
        self.assumptions: dict[str, str] = {}
        self.theorems: list[str] = []
        self.discharged: list[str] = []
        self.translator_error = None
        self.forbidden: list[str] = []
        self.pinned: dict[str, str] = {}        # generated table -> why the pinned copy was used
        self.gen_notes: list[str] = []


def all_v_files():
    return sorted(str(p.relative_to(COQ)) for p in (COQ / "theories").rglob("*.v"))


def write_coqproject():
    text = "-Q theories AUC\n" + "\n".join(all_v_files()) + "\n"
    p = COQ / "_CoqProject"
    if not p.exists() or p.read_text() != text:
        p.write_text(text)
        return True
    return False


class BuildLock:
    def __enter__(self):
        BUILD.mkdir(exist_ok=True)
        self.f = open(BUILD / ".lock", "w")
        fcntl.flock(self.f, fcntl.LOCK_EX)
        return self

    def __exit__(self, *a):
        fcntl.flock(self.f, fcntl.LOCK_UN)
        self.f.close()


def load_regression_corpus(pid: str):
    """Minimised inputs that once exposed a (seeded or real) defect: corpus/regress/<pid>/*.json, written by
    tools/mkregress.py from the replays of the seeded-change evaluations.  They run first on every check, whatever the
    seed, so that a defect once found by the random generators stays found."""
    d = VERIF / "corpus" / "regress" / pid
    out = []
    if d.is_dir():
        for f in sorted(d.glob("*.json")):
            try:
                out.append(json.loads(f.read_text()))
            except ValueError:
                continue
    return out


def regenerate(res: BuildResult, needed=None):
    """Run the fail-closed translator: /repo -> coq/theories/Gen/*.v.  `needed` = names of the Gen
    files the property depends on (None = all): a refusal on another table does not concern it."""
    env = dict(os.environ, PYTHONPATH=str(REPO), PYTHONHASHSEED="0")
    rc, out, err = sh([PY, str(VERIF / "tools" / "translate.py"), str(REPO), str(COQ / "theories" / "Gen")], 300, env=env)
    for name, why in re.findall(r"^translator:(\w+): pinned: (.*)$", out, flags=re.M):
        if needed is None or name in needed:
            res.pinned[name] = why
    res.gen_notes = [l for l in out.splitlines() if ": note: " in l and (needed is None or any(f"translator:{n}:" in l for n in needed))]
    if rc != 0:
        refused = set(re.findall(r"^translator:(\w+): refused", out, flags=re.M))
        if needed is None or not refused or (refused & set(needed)):
            res.ok = False
            res.translator_error = (out + err)[-3000:]
            res.failed_target = "translator:" + ",".join(sorted(refused & set(needed or refused)) or ["?"])
            return False
    return True


def make(targets, res: BuildResult, jobs=16, timeout=1500, clean=False):
    changed = write_coqproject()
    if changed or not (COQ / "Makefile").exists():
        rc, out, err = sh(["coq_makefile", "-f", "_CoqProject", "-o", "Makefile"], 60, cwd=COQ)
        if rc != 0:
            res.ok = False
            res.log += out + err
            res.failed_target = "coq_makefile"
            return False
    if clean:
        sh(["make", "clean"], 120, cwd=COQ)
    rc, out, err = sh(["make", f"-j{jobs}", "-k"] + list(targets), timeout, cwd=COQ)
    res.log += out[-4000:] + err[-6000:]
    if rc != 0:
        res.ok = False
        m = re.search(r'File "\./([^"]+)", line (\d+)', err)
        res.failed_target = f"{m.group(1)}:{m.group(2)}" if m else "make"
        return False
    return True


def scan_forbidden(res: BuildResult, dirs=None):
    """dirs: sub-directories of theories/ to scan (None = all).  Every check scans Prelude, Gen, its own
    directory and those of the properties it depends on; --setup scans everything."""
    for f in all_v_files():
        if dirs is not None and not f.startswith(tuple(f"theories/{d}/" for d in dirs)):
            continue
        text = (COQ / f).read_text()
        text = re.sub(r"\(\*.*?\*\)", "", text, flags=re.S)  # strip comments
        for m in FORBIDDEN_RE.finditer(text):
            res.forbidden.append(f"{f}: {m.group(0)}")
    if res.forbidden:
        res.ok = False
        res.failed_target = "forbidden:" + res.forbidden[0]


def check_properties_file(pid: str, res: BuildResult, timeout=600):
    """Compile Properties.v of a property by itself, capturing Print Assumptions."""
    rel = f"theories/{pid}/Properties.v"
    src = (COQ / rel).read_text()
    res.theorems = re.findall(r"^\s*(?:Theorem|Corollary)\s+(\w+)", src, flags=re.M)
    rc, out, err = sh(["coqc", "-Q", "theories", "AUC", rel], timeout, cwd=COQ)
    res.log += err[-3000:]
    # Print Assumptions output: "Closed under the global context" or "Axioms:\n ..."
    blocks = re.split(r"(?=Closed under the global context|Axioms:)", out)
    blocks = [b.strip() for b in blocks if b.strip().startswith(("Closed", "Axioms:"))]
    for name, b in zip(res.theorems, blocks):
        res.assumptions[name] = b
        if b.startswith("Closed"):
            res.discharged.append(name)
        else:
            axs = set(re.findall(r"^\s*([\w.]+)\s*:", b, flags=re.M))
            if axs <= AXIOM_ALLOW:
                res.discharged.append(name)
            else:
                res.ok = False
                res.failed_target = f"axioms:{name}:{sorted(axs - AXIOM_ALLOW)}"
    if rc != 0:
        res.ok = False
        m = re.search(r'File "\./([^"]+)", line (\d+)', err)
        line = int(m.group(2)) if m else 0
        # name the theorem that no longer checks
        broken = None
        for mm in re.finditer(r"^\s*(?:Theorem|Corollary)\s+(\w+)", src, flags=re.M):
            if src[: mm.start()].count("\n") + 1 <= line:
                broken = mm.group(1)
        res.failed_target = f"theorem:{broken or rel}"
    elif len(blocks) != len(res.theorems):
        res.ok = False
        res.failed_target = f"{rel}: {len(res.theorems)} theorems but {len(blocks)} Print Assumptions"
    return res.ok


# ---------------------------------------------------------------------------------------
REPORT_RE = re.compile(r"\(\s*(\d+)\s*,\s*(\d+)\s*,\s*(\d+)\s*\)")


def eval_shards(pid: str, run_module: str, terms: list[str], tag: str, shard=400, jobs=16,
                timeout=900, header: str = ""):
    """terms[i] is a Gallina term of type (input * obs).  Returns list of (index, kind, detail)
    triples produced by <run_module>.report, or raises RuntimeError if coqc fails."""
    d = BUILD / "cases" / pid
    d.mkdir(parents=True, exist_ok=True)
    for old in d.glob(f"{tag}_*.v"):
        old.unlink()
    for old in d.glob(f"{tag}_*.out"):
        old.unlink()
    files = []
    for si in range(0, len(terms), shard):
        chunk = terms[si:si + shard]
        name = f"{tag}_{si // shard:04d}"
        body = [
            "From Coq Require Import List NArith ZArith String.",
            f"From AUC Require Import {run_module}.",
            "Import ListNotations.",
            "Local Open Scope list_scope.",
            header,
            f"Definition cases := [",
            ";\n".join(chunk),
            "].",
            f"Eval vm_compute in (report {si}%N cases).",
        ]
        (d / f"{name}.v").write_text("\n".join(body) + "\n")
        files.append(name)
    if not files:
        return []
    script = (
        f"cd {d} && ls {tag}_*.v | sed 's/\\.v$//' | "
        f"xargs -P{jobs} -I@ sh -c 'ulimit -s unlimited 2>/dev/null; "
        f"timeout {timeout} coqc -Q {COQ}/theories AUC @.v > @.out 2> @.err || echo FAIL @ >> {tag}_FAILED'"
    )
    failed = d / f"{tag}_FAILED"
    if failed.exists():
        failed.unlink()
    sh(["sh", "-c", script], timeout * 2 + 60)
    if failed.exists():
        name = failed.read_text().split()[1]
        err = (d / f"{name}.err").read_text()[-3000:]
        raise RuntimeError(f"coqc failed on {d}/{name}.v:\n{err}")
    out = []
    for name in files:
        text = (d / f"{name}.out").read_text().replace("%N", "").replace("%nat", "")
        if not re.search(r"=\s*(\[|nil)", text) or "list (N * N * N)" not in re.sub(r"\s+", " ", text):
            raise RuntimeError(f"unparseable report output in {d}/{name}.out: {text[:300]}")
        body = text[text.index("="):text.rindex(":")]
        n_trip = body.count("(")
        found = REPORT_RE.findall(body)
        if n_trip != len(found):
            raise RuntimeError(f"report parse count mismatch in {d}/{name}.out")
        for m in REPORT_RE.finditer(body):
            out.append((int(m.group(1)), int(m.group(2)), int(m.group(3))))
    # tidy: compiled case files are not needed afterwards
    for ext in ("vo", "vok", "vos", "glob", "aux"):
        for p in d.glob(f"{tag}_*.{ext}"):
            p.unlink()
    for p in d.glob(f".{tag}_*.aux"):
        p.unlink()
    return out


def eval_term(run_module: str, term: str, timeout=300, header: str = "") -> str:
    d = BUILD / "cases" / "replay"
    d.mkdir(parents=True, exist_ok=True)
    f = d / f"r{os.getpid()}.v"
    f.write_text(
        "From Coq Require Import List NArith ZArith String.\n"
        f"From AUC Require Import {run_module}.\nImport ListNotations.\n{header}\n"
        f"Eval vm_compute in ({term}).\n"
    )
    rc, out, err = sh(["coqc", "-Q", str(COQ / "theories"), "AUC", f.name], timeout, cwd=d)
    for p in d.glob(f"r{os.getpid()}.*"):
        p.unlink()
    for p in d.glob(f".r{os.getpid()}.*"):
        p.unlink()
    return out if rc == 0 else "COQ ERROR\n" + err


# ---------------------------------------------------------------------------------------
def case_hash(case) -> str:
    return hashlib.sha1(json.dumps(case, sort_keys=True, default=str).encode()).hexdigest()[:12]


def write_replay(pid: str, payload: dict) -> Path:
    d = BUILD / "replay"
    d.mkdir(parents=True, exist_ok=True)
    p = d / f"{pid}-{case_hash(payload)}.json"
    p.write_text(json.dumps(payload, indent=1, default=str))
    return p


def load_known_findings(pid: str):
    p = VERIF / "known_findings.json"
    if not p.exists():
        return []
    data = json.loads(p.read_text())
    return [e for e in data.get("entries", []) if e.get("property") == pid]


def write_evidence(pid: str, ev: dict):
    """evidence/<id>.json describes a run against /repo itself; a run against a scratch tree ($VERIF_REPO, used for
    trying repairs and seeded changes) writes its record under _build/ instead"""
    d = EVIDENCE if not os.environ.get("VERIF_REPO") else BUILD / "evidence-scratch"
    d.mkdir(parents=True, exist_ok=True)
    (d / f"{pid}.json").write_text(json.dumps(ev, indent=1, default=str) + "\n")


def run_coqchk(pid: str, timeout: int = 1500) -> dict:
    """coqchk -o on the property's Properties module: the independent checker re-checks the compiled theorems and
    every library file they depend on, and lists axioms / unsafe features of the whole context."""
    import re
    import subprocess
    import time as _t
    t0 = _t.time()
    try:
        p = subprocess.run(["coqchk", "-o", "-silent", "-Q", "theories", "AUC", f"AUC.{pid}.Properties"],
                           cwd=str(COQ), capture_output=True, text=True, timeout=timeout)
        out = (p.stdout or "") + (p.stderr or "")
        rc = p.returncode
    except subprocess.TimeoutExpired:
        return {"ok": False, "tail": "coqchk timed out", "wall_s": round(_t.time() - t0, 1)}
    summ = out[out.find("CONTEXT SUMMARY"):] if "CONTEXT SUMMARY" in out else out[-1500:]

    def field(name):
        m = re.search(r"\* " + re.escape(name) + r":\s*(.*?)(?=\n\s*\n\* |\Z)", summ, re.S)
        return " ".join(m.group(1).split()) if m else "?"
    fields = {k: field(k) for k in ("Axioms", "Constants/Inductives relying on type-in-type",
                                    "Constants/Inductives relying on unsafe (co)fixpoints",
                                    "Inductives whose positivity is assumed")}
    ok = rc == 0 and all(v == "<none>" for v in fields.values())
    return {"ok": ok, "rc": rc, "cmd": f"coqchk -o -silent -Q theories AUC AUC.{pid}.Properties", **{k.split()[0].lower() if k == "Axioms" else k: v for k, v in fields.items()},
            "tail": summ[-1200:] if not ok else "", "wall_s": round(_t.time() - t0, 1)}
