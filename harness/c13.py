"""C13 — the SSDP side of the server: search responder, advertisement list, announcer.

The REAL SsdpSearchResponder and SsdpAdvertisementAnnouncer are started (their own async_start) on a
virtual-time event loop: an asyncio.SelectorEventLoop whose time() is a number the harness owns and whose
_run_once() the harness calls step by step; sockets and the datagram endpoint are fakes that record what is
sent, when (virtual ms) and to whom.  M-SEARCH datagrams are built with the library's build_ssdp_packet and
handed to the real SsdpProtocol.datagram_received, so the real decoder feeds _on_data; what _on_data received
(request line, MAN, ST, MX) is recorded and becomes the model's input.  random.randrange is scripted
(lo + pick mod (hi - lo), ValueError when hi <= lo, as the real one).

Every emitted datagram is then handed to a real SsdpListener (wired as in harness/ssdp_hist.py): its own
decoder yields the ST/NT, NTS, USN and LOCATION that are observed, and the tracker tells whether the device
named by the USN is now known at base_uri + device_url (for ssdp:byebye: a listener that knows the device
from the same advertisement sent as ssdp:alive forgets it)."""
from __future__ import annotations

import asyncio
import itertools
import json
import selectors
import threading
from asyncio import events as _aio_events
from pathlib import Path
from unittest.mock import patch

from harness import common as C

DISCOVER = '"ssdp:discover"'
MSEARCH = "M-SEARCH * HTTP/1.1"
SERVER_ADDR = ("192.168.1.5", 1900)


# ------------------------------------------------------------------------------------ virtual-time loop
class _NBSelector(selectors.DefaultSelector):
    def select(self, timeout=None):
        return super().select(0)


class VLoop(asyncio.SelectorEventLoop):
    """The real selector event loop, never blocking; time() is virtual (ms resolution owned by the harness);
    advance(ms) fires every timer that becomes due, each at its own due time, one _run_once() at a time."""

    def __init__(self):
        super().__init__(_NBSelector())
        self._vt = 0.0
        self.now_ms = 0
        self.cur_ms = 0
        self.errors = []
        self.set_exception_handler(lambda loop, ctx: self.errors.append(ctx))

    def time(self):
        return self._vt

    def iterate(self):
        _aio_events._set_running_loop(self)
        self._thread_id = threading.get_ident()
        try:
            self._run_once()
        finally:
            self._thread_id = None
            _aio_events._set_running_loop(None)

    def settle(self, tasks=(), limit=50):
        for _ in range(limit):
            self.iterate()
            if all(t.done() for t in tasks) and not self._ready:
                break

    def advance(self, ms):
        target = self.now_ms + ms
        for _ in range(100000):
            live = [h for h in self._scheduled if not h._cancelled]
            if not live:
                break
            h = min(live, key=lambda x: x._when)
            w_ms = round(h._when * 1000)
            if w_ms > target:
                break
            self._vt = max(self._vt, h._when)
            self.cur_ms = w_ms
            self.iterate()
        self.now_ms = target
        self.cur_ms = target
        self._vt = target / 1000.0
        self.iterate()


class FakeSock:
    def __init__(self, wire, loop):
        self.wire, self.loop = wire, loop

    def bind(self, *_a):
        pass

    def getsockname(self):
        return SERVER_ADDR

    def sendto(self, data, addr):
        self.wire.append((self.loop.cur_ms, bytes(data), addr))

    def close(self):
        pass


class FakeTransport:
    def __init__(self, proto, sock, wire, loop):
        self.proto, self.sock, self.wire, self.loop = proto, sock, wire, loop

    def get_extra_info(self, key):
        return self.sock if key == "socket" else None

    def get_protocol(self):
        return self.proto

    def sendto(self, data, addr=None):
        self.wire.append((self.loop.cur_ms, bytes(data), addr))

    def close(self):
        pass


# ------------------------------------------------------------------------------------ the server under test
def _mk_device_class(tree):
    from async_upnp_client import server as S
    from async_upnp_client.const import DeviceInfo, ServiceInfo
    udn, dtype, svcs, emb = tree
    svc_classes = []
    for i, st in enumerate(svcs):
        svc_classes.append(type(f"Svc{i}", (S.UpnpServerService,), {
            "SERVICE_DEFINITION": ServiceInfo(service_id=f"urn:upnp-org:serviceId:s{i}", service_type=st,
                                              control_url=f"/c{i}", event_sub_url=f"/e{i}", scpd_url=f"/s{i}.xml",
                                              xml=None),
            "STATE_VARIABLE_DEFINITIONS": {}}))
    return type("Dev", (S.UpnpServerDevice,), {
        "DEVICE_DEFINITION": DeviceInfo(device_type=dtype, friendly_name="f", manufacturer="m", manufacturer_url=None,
                                        model_name="mn", model_url=None, udn=udn, upc=None, model_description=None,
                                        model_number=None, serial_number=None, presentation_url=None,
                                        url="/emb.xml", icons=[], xml=None),
        "EMBEDDED_DEVICES": [_mk_device_class(e) for e in emb], "SERVICES": svc_classes})


_LISTENER = None


def _listener():
    global _LISTENER
    if _LISTENER is None:
        from harness import ssdp_hist
        listener, adv, srch, log, loop = ssdp_hist.make_listener(False)
        _LISTENER = (listener, adv, srch)
    return _LISTENER


def _read_and_judge(data: bytes, loc0: str):
    """Hand one emitted datagram to the real listener -> (kind, type, nts, usn, location, accepted)."""
    listener, adv, srch = _listener()
    tracker = listener._device_tracker  # noqa: SLF001

    def reset():
        tracker.devices.clear()
        tracker.next_valid_to = None

    def feed(proto, d):
        got = []
        orig = proto.on_data

        def spy(request_line, hdrs, _orig=orig):
            got.append(hdrs)
            return _orig(request_line, hdrs)

        proto.on_data = spy
        try:
            proto.datagram_received(d, SERVER_ADDR)
        finally:
            proto.on_data = orig
        return got[0] if got else None

    def known(udn):
        d = tracker.devices.get(udn)
        return d is not None and loc0 in d.locations

    if data.startswith(b"HTTP/1.1 200 OK"):
        kind, proto, tkey = 0, srch, "st"
    elif data.startswith(b"NOTIFY * HTTP/1.1"):
        kind, proto, tkey = 1, adv, "nt"
    else:
        return [2, "", "", "", "", False]
    reset()
    h = feed(proto, data)
    if h is None:
        return [kind, "", "", "", "", False]

    def g(k):
        v = h.get_lower(k)
        return v if isinstance(v, str) else ""

    typ, nts, usn, loc = g(tkey), g("nts"), g("usn"), g("location")
    udn = usn.partition("::")[0]
    if kind == 1 and nts == "ssdp:byebye":
        reset()
        feed(proto, data.replace(b"ssdp:byebye", b"ssdp:alive"))
        k1 = known(udn)
        feed(proto, data)
        acc = k1 and udn not in tracker.devices
    else:
        acc = known(udn)
    reset()
    return [kind, typ, nts, usn, loc, bool(acc)]


def run_server(case):
    from async_upnp_client import server as S
    from async_upnp_client.ssdp import build_ssdp_packet

    wire = []
    loop = VLoop()
    pick_box = [0]

    def fake_randrange(lo, hi=None):
        if hi is None:
            lo, hi = 0, lo
        if hi <= lo:
            raise ValueError(f"empty range for randrange() ({lo}, {hi}, {hi - lo})")
        return lo + pick_box[0] % (hi - lo)

    async def fake_cde(factory, sock=None, **_kw):
        p = factory()
        t = FakeTransport(p, sock, wire, loop)
        p.connection_made(t)
        return t, p

    loop.create_datagram_endpoint = fake_cde

    def fake_sock(source, target):
        return FakeSock(wire, loop), source, target

    target = tuple(case["target"])
    source = ("192.168.1.5", 0) if len(target) == 2 else ("fe80::5", 0, 0, target[3])
    dests = {target: 0}
    steps, mops = [], []
    loc0 = case["base"] + case["url"]
    try:
        with patch("async_upnp_client.server.get_ssdp_socket", fake_sock), \
                patch("async_upnp_client.server.randrange", fake_randrange):
            cls = _mk_device_class(case["tree"])
            cls.DEVICE_DEFINITION = cls.DEVICE_DEFINITION._replace(url=case["url"])
            _aio_events._set_running_loop(loop)
            try:
                dev = cls(S.NopRequester(), case["base"], boot_id=case["boot"], config_id=case["cfgid"])
                opts = {S.SSDP_SEARCH_RESPONDER_OPTION_ALWAYS_REPLY_WITH_ROOT_DEVICE: True} if case.get("always_root") else None
                resp = S.SsdpSearchResponder(dev, source=source, target=target, options=opts)
                ann = S.SsdpAdvertisementAnnouncer(dev, source=source, target=target, loop=loop)
            finally:
                _aio_events._set_running_loop(None)
            protos = []
            orig_cde = loop.create_datagram_endpoint

            async def cde2(factory, sock=None, **kw):
                t, p = await orig_cde(factory, sock=sock, **kw)
                protos.append(p)
                return t, p

            loop.create_datagram_endpoint = cde2

            def flush(raised):
                out = wire[:]
                del wire[:]
                if loop.errors:
                    raised = True
                    del loop.errors[:]
                steps.append({"sent": out, "raised": raised})

            t1 = loop.create_task(resp.async_start())
            loop.settle([t1])
            t2 = loop.create_task(ann.async_start())
            loop.settle([t2])
            t1.result(), t2.result()
            resp_proto = protos[0]
            flush(False)
            for op in case["ops"]:
                raised = False
                if op[0] == "search":
                    _, line, headers, addr_id, pick = op
                    addr = (f"10.0.{addr_id // 250}.{addr_id % 250 + 1}", 40000 + addr_id)
                    dests[addr] = addr_id
                    pick_box[0] = pick
                    data = build_ssdp_packet(line, dict(headers))
                    got = []
                    orig = resp_proto.on_data

                    def spy(request_line, hdrs, _orig=orig):
                        def s(k):
                            v = hdrs.get_lower(k)
                            return v if (v is None or isinstance(v, str)) else repr(v)
                        got.append([request_line, s("man"), s("st"), s("mx")])
                        return _orig(request_line, hdrs)

                    resp_proto.on_data = spy
                    _aio_events._set_running_loop(loop)
                    try:
                        resp_proto.datagram_received(data, addr)
                    except Exception:  # noqa: BLE001 - an escaping exception is an observation
                        raised = True
                    finally:
                        _aio_events._set_running_loop(None)
                        resp_proto.on_data = orig
                    mops.append(["search"] + got[0] + [addr_id, pick] if got else ["noop"])
                elif op[0] == "advance":
                    loop.advance(op[1])
                    mops.append(["advance", op[1]])
                elif op[0] == "stop":
                    ta = loop.create_task(ann.async_stop())
                    loop.settle([ta])
                    tb = loop.create_task(resp.async_stop())
                    loop.settle([tb])
                    for t in (ta, tb):
                        if t.exception() is not None:
                            raised = True
                    mops.append(["stop"])
                else:
                    raise AssertionError(op)
                flush(raised)
    finally:
        loop.close()
    out_steps = []
    for stp in steps:
        sent = []
        for (t, data, addr) in stp["sent"]:
            kind, typ, nts, usn, loc, acc = _read_and_judge(data, loc0)
            sent.append({"t": t, "kind": kind, "type": typ, "nts": nts, "usn": usn, "loc": loc,
                         "dest": dests.get(tuple(addr) if isinstance(addr, (list, tuple)) else addr, 999), "acc": acc})
        out_steps.append({"sent": sent, "raised": stp["raised"]})
    return {"ops": mops, "steps": out_steps}


# ------------------------------------------------------------------------------------ generators
UDNS = ["uuid:r00t-1", "uuid:emb-a", "uuid:emb-b", "UUID:Emb-C", "uuid:9f0c1a2e-7b3d-4e5f-8a6b-0c1d2e3f4a5b"]
DNAMES = ["Root", "Emb", "MediaRenderer", "X", "Light"]
SNAMES = ["AVTransport", "S1", "S2", "Dimming", "RenderingControl", "ES"]
DOMS = ["a", "schemas-upnp-org", "x-org"]
BAD_TYPES = ["urn:a:device:NoVer", "nocolon", "urn:a:device:R:01", "urn:a:device:R:-1", "", "urn:a:device:R: 2",
             "urn:a:device:R:1_0", "urn:a:dévice:R:1"]
MXS = [None, None, "0", "1", "2", "3", "4", "5", "6", "7", "10", "-1", "-7", "abc", "", "1.5", " 3", "+2", "1_0", "007",
       "9" * 30]
PICKS = [0, 1, 649, 650, 1649, 2649, 3649, 4649, 4650, 99999, 123456789]
GAPS = [0, 0, 1, 50, 99, 100, 101, 749, 750, 1000, 1750, 2500, 4749, 4750, 5000, 10000, 29999, 30000, 30001, 60000,
        90000, 123457]
BASES = ["http://192.168.1.5:8000", "http://10.0.0.7", "https://host.example:8443", "http://[2001:db8::5]:80"]
BAD_BASES = ["http://127.0.0.1:8000", "http://169.254.3.4", "ftp://192.168.1.5"]
TARGETS = [["239.255.255.250", 1900], ["239.255.255.250", 1900], ["ff02::c", 1900, 0, 3]]


def dtype(dom, name, ver):
    return f"urn:{dom}:device:{name}:{ver}"


def stype(dom, name, ver):
    return f"urn:{dom}:service:{name}:{ver}"


def tree_devices(tree):
    out = [tree]
    for e in tree[3]:
        out += tree_devices(e)
    return out


def gen_tree(rng, n_emb=None, domain=True):
    """n_emb embedded devices in total (nested), 0..3 services each, versions 1..4"""
    n_emb = rng.randint(0, 3) if n_emb is None else n_emb
    dom = rng.choice(DOMS)
    udns = rng.sample(UDNS, n_emb + 1)
    dnames = rng.sample(DNAMES, min(len(DNAMES), n_emb + 1))
    while len(dnames) < n_emb + 1:
        dnames.append(rng.choice(DNAMES))

    def svcs():
        k = rng.randint(0, 3)
        names = rng.sample(SNAMES, k)
        return [stype(dom, n, rng.randint(1, 4)) for n in names]

    nodes = [[udns[i], dtype(dom, dnames[i], rng.randint(1, 4)), svcs(), []] for i in range(n_emb + 1)]
    for i in range(1, n_emb + 1):
        parent = rng.randrange(0, i)
        nodes[parent][3].append(nodes[i])
    root = nodes[0]
    if not domain:
        flaw = rng.choice(["dup_svc", "dup_emb", "bad_type", "bad_udn", "svc_as_dev", "udn_case_dup"])
        devs = tree_devices(root)
        d = rng.choice(devs)
        if flaw == "dup_svc" and d[2]:
            d[2].append(d[2][0])
        elif flaw == "dup_emb" and d[3]:
            d[3].append([rng.choice(UDNS), d[3][0][1], [], []])
        elif flaw == "bad_type":
            if d[2] and rng.random() < 0.5:
                d[2][0] = rng.choice(BAD_TYPES)
            else:
                d[1] = rng.choice(BAD_TYPES)
        elif flaw == "bad_udn":
            d[0] = rng.choice(["notuuid:x", "uuid:a::b", "uuid:trail:", "", "uuid:"])
        elif flaw == "svc_as_dev":
            d[2].append(devs[0][1].rsplit(":", 1)[0] + ":9")
        else:
            d[0] = devs[0][0].upper() if d is not devs[0] else d[0]
    return root


def recase(rng, s):
    return rng.choice([s, s, s.lower(), s.upper(), s.title(), s.swapcase()])


def targets_for(tree, rng=None, full=True):
    """every search target the quantifier names, for this tree"""
    devs = tree_devices(tree)
    out = ["ssdp:all", "SSDP:ALL", "Ssdp:All", "upnp:rootdevice", "UPnP:RootDevice", "UPNP:ROOTDEVICE"]
    for d in devs:
        out += [d[0], d[0].upper(), d[0].lower()]
    types = [d[1] for d in devs] + [s for d in devs for s in d[2]]
    for t in dict.fromkeys(types):
        if ":" not in t:
            out.append(t)
            continue
        base, _ver = t.rsplit(":", 1)
        for v in range(0, 6):
            out.append(f"{base}:{v}")
        out += [f"{base.lower()}:1", f"{base.upper()}:1", t.swapcase(), f"{base}:01", f"{base}:", f"{base}:x", f"{base}: 1",
                f"{base}:-1", f"{base}:1_0", base]
    out += ["urn:a:device:Nope:1", "urn:nowhere:service:Z:1", "uuid:nobody", "uuid:", "", "ssdp:al", "ssdp:alll", ":1",
            "upnp:rootdevice ", "x", "urn:a:device:Root", "ssdp:all:1", "upnp:rootdevice:1"]
    out = list(dict.fromkeys(out))
    if not full and rng is not None:
        k = min(len(out), 14)
        out = rng.sample(out, k)
    return out


def search_op(rng, st, mx, addr_id, pick=None, plain=False):
    line = MSEARCH
    man = DISCOVER
    spell = (lambda s: s)
    if not plain:
        r = rng.random()
        if r < 0.04:
            line = rng.choice(["NOTIFY * HTTP/1.1", "HTTP/1.1 200 OK"])
        r = rng.random()
        if r < 0.04:
            man = rng.choice(["ssdp:discover", '"ssdp:DISCOVER"', None, ""])
        if rng.random() < 0.3:
            spell = rng.choice([str.lower, str.title, str.upper])
    headers = [[spell("HOST"), "239.255.255.250:1900"]]
    if man is not None:
        headers.append([spell("MAN"), man])
    if mx is not None:
        headers.append([spell("MX"), mx])
    if st is not None:
        headers.append([spell("ST"), st])
    if not plain and rng.random() < 0.2:
        headers.append(["USER-AGENT", "x/1.0 UPnP/2.0 y/1"])
    if not plain:
        rng.shuffle(headers)
    if pick is None:
        pick = rng.choice(PICKS) if rng.random() < 0.4 else rng.randrange(10 ** 6)
    return ["search", line, headers, addr_id, pick]


def base_case(rng, tree, domain=True):
    base = rng.choice(BASES if domain or rng.random() < 0.6 else BAD_BASES)
    return {"tree": tree, "base": base, "url": rng.choice(["/device.xml", "/d", "/upnp/desc.xml"]),
            "boot": rng.choice([1, 1, 2, 17]), "cfgid": rng.choice([1, 1, 7]),
            "always_root": (not domain) and rng.random() < 0.3, "target": rng.choice(TARGETS), "ops": []}


def n_adverts(tree):
    devs = tree_devices(tree)
    return 1 + 2 * len(devs) + sum(len(d[2]) for d in devs)


def gen_history(rng, domain=True, long_run=False):
    tree = gen_tree(rng, domain=domain)
    case = base_case(rng, tree, domain)
    tg = targets_for(tree)
    ops = []
    n = rng.randint(3, 10)
    aid = 1
    stopped = False
    for i in range(n):
        r = rng.random()
        if r < 0.5:
            st = rng.choice(tg) if rng.random() < 0.85 else recase(rng, rng.choice(tg))
            if rng.random() < 0.03:
                st = None
            if not domain and rng.random() < 0.1:
                st = rng.choice(["urn:a:device:É:1", "Ж", "SSDP:ÄLL", "uuid:émb"])
            a = aid
            aid += 1
            if not domain and rng.random() < 0.15 and aid > 2:
                a = rng.randint(1, aid - 2)
            ops.append(search_op(rng, st, rng.choice(MXS), a))
        elif r < 0.93 or stopped:
            ops.append(["advance", rng.choice(GAPS)])
        else:
            ops.append(["stop"])
            stopped = True
    if long_run:
        cyc = n_adverts(tree) * 30000
        ops.insert(rng.randint(0, len(ops)), ["advance", cyc * rng.choice([1, 2, 3]) + rng.choice([0, 1, 29999, 15000])])
    if rng.random() < 0.7:
        ops.append(["advance", rng.choice([5000, 6000, 10000, 30000])])
    if not stopped and rng.random() < 0.6:
        ops.append(["stop"])
        if rng.random() < 0.5:
            ops.append(["advance", rng.choice([1000, 5000, 40000])])
    case["ops"] = ops
    return case


def gen_sweep(rng, tree, mx, full=True, cycles=0):
    """one tree, every search target once (each from its own requester), then the announcer is run and stopped"""
    case = base_case(rng, tree, True)
    ops = []
    for i, st in enumerate(targets_for(tree, rng, full)):
        ops.append(search_op(rng, st, mx, i + 1, plain=True))
    ops.append(["advance", 5000])
    if cycles:
        ops.append(["advance", n_adverts(tree) * 30000 * cycles])
    ops.append(["stop"])
    ops.append(["advance", 6000])
    case["ops"] = ops
    return case


def all_shapes(max_emb=3):
    """every ordered tree shape with up to max_emb embedded devices: parent index vectors"""
    out = []
    for n in range(0, max_emb + 1):
        for parents in itertools.product(*[range(i) for i in range(1, n + 1)]):
            out.append(list(parents))
    return out


def tree_of_shape(parents, rng, svc_counts=None):
    n = len(parents) + 1
    dom = "a"
    nodes = []
    for i in range(n):
        k = rng.randint(0, 3) if svc_counts is None else svc_counts[i]
        names = rng.sample(SNAMES, k)
        nodes.append([UDNS[i], dtype(dom, DNAMES[i], rng.randint(1, 4)), [stype(dom, s, rng.randint(1, 4)) for s in names], []])
    for i, p in enumerate(parents):
        nodes[p][3].append(nodes[i + 1])
    return nodes[0]


# ------------------------------------------------------------------------------------ Coq printers
class Tok:
    def __init__(self):
        self.strs = {}

    def s(self, text: str) -> str:
        if text == "":
            return "(@nil N)"
        if text not in self.strs:
            self.strs[text] = f"s{len(self.strs)}"
        return self.strs[text]

    def lets(self) -> str:
        return "".join(f"let {name} : pystr := {C.c_str(text)} in " for text, name in self.strs.items())


def c_tree(tree, tok):
    udn, dt, svcs, emb = tree
    return (f"(Dev {tok.s(udn)} {tok.s(dt)} {C.c_list((tok.s(x) for x in svcs), 'pystr')} "
            f"{C.c_list((c_tree(e, tok) for e in emb), 'dev')})")


class Plugin:
    ID = "C13"
    RUN_MODULE = "C13.Run"
    GEN = ["Server", "Ssdp", "Types", "DateMatchers"]
    DEPENDS = ["C03", "C08", "C16", "C01"]
    CLAUSES = {1: "response_table", 2: "once_within_mx", 3: "adverts_match", 4: "usn_owner", 5: "self_accepted",
               6: "no_raise"}
    SHARD = 40
    SEARCH_CASES = 600
    RULE = ("histories (M-SEARCH datagrams / clock advances / stop) against a generated device tree, run on the real "
            "responder and announcer in virtual time; per tree a sweep of every search target of the quantifier; "
            "non-trivial = at least one search answered and one advertisement sent; distinct = distinct (case, datagrams)")
    TRUSTED = [
        "Coq 8.16.1 kernel + vm_compute (no native_compute)",
        "tools/gen/server.py (constants, header templates of server.py) and tools/translate.py",
        "harness/c13.py: VLoop (asyncio.SelectorEventLoop, non-blocking selector, virtual time(), _run_once() called "
        "explicitly, every timer fired at its due time), fake sockets/transports, scripted randrange, Gallina printers",
        "random.randrange(lo, hi) returns a value in [lo, hi) and raises ValueError when hi <= lo (modelled as lo + pick mod (hi-lo))",
        "asyncio call_at/call_later: a timer's callback runs once, when the loop clock reaches its due time; "
        "TimerHandle.cancel() prevents it",
        "the real SsdpListener (fed by harness/ssdp_hist.make_listener) as the judge of acceptance on the implementation side; "
        "in Coq the C03 tracker model, with the wire decoding (C01) an explicit premise of C13_self_accepted",
        "Python int(str) for ASCII input as modelled in C08.Model.int_of_str; str.lower exact on ASCII",
    ]
    ASSUMPTIONS = [
        "device trees: 0..3 embedded devices (nested), 0..3 services each, versions 1..4 (generators); the theorems hold for every tree in cfg_ok",
        "every search comes from its own requester address; ASCII strings; description URL accepted by the listener's reading",
    ]
    last_exhaustive = False

    # ------------------------------------------------------------------ corpus
    def corpus(self):
        out = []
        d = Path(C.VERIF / "corpus" / "C13")
        if d.is_dir():
            for p in sorted(d.glob("*.json")):
                data = json.loads(p.read_text())
                out.append(data["case"] if "case" in data else data)
        return out

    # ------------------------------------------------------------------ generation
    def generate(self, rng, tier):
        cases = []
        shapes = all_shapes(3)
        if tier == "thorough":
            self.last_exhaustive = True
            # every tree shape x every search target x MX classes, plus full announcer cycles
            for parents in shapes:
                for mx in (None, "1", "3", "5", "10", "-1", "abc"):
                    cases.append(gen_sweep(rng, tree_of_shape(parents, rng), mx, full=True, cycles=3 if mx is None else 0))
                for k in range(4):
                    for mx in (None, rng.choice(MXS[2:])):
                        cases.append(gen_sweep(rng, tree_of_shape(parents, rng, [k] * (len(parents) + 1)), mx,
                                               full=True, cycles=1))
            n_rand, n_bad, n_long = 5000, 1200, 400
        else:
            for parents in rng.sample(shapes, 4):
                cases.append(gen_sweep(rng, tree_of_shape(parents, rng), rng.choice([None, "1", "2", "5", "7"]), full=True,
                                       cycles=rng.choice([0, 3])))
            for parents in shapes:
                cases.append(gen_sweep(rng, tree_of_shape(parents, rng), rng.choice(MXS), full=False, cycles=0))
            n_rand, n_bad, n_long = 260, 60, 25
        for _ in range(n_rand):
            cases.append(gen_history(rng, True))
        for _ in range(n_long):
            cases.append(gen_history(rng, True, long_run=True))
        for _ in range(n_bad):
            cases.append(gen_history(rng, False))
        return cases

    def mutate_case(self, case, rng):
        out = []
        for mx in (None, "1", "5"):
            out.append(gen_sweep(rng, case["tree"], mx, full=True, cycles=1))
        return out

    # ------------------------------------------------------------------ implementation
    def run_impl(self, case):
        return run_server(case)

    # ------------------------------------------------------------------ printers
    def to_coq(self, case, obs):
        tok = Tok()
        o = C.c_opt
        tgt = case["target"]
        cfg = ("{| c_root := %s; c_base := %s; c_url := %s; c_boot := %s; c_cfgid := %s; c_always_root := %s; "
               "c_target_ip := %s; c_target_port := %s; c_target_v6 := %s; c_date := %s |}" % (
                   c_tree(case["tree"], tok), tok.s(case["base"]), tok.s(case["url"]), C.c_Z(case["boot"]),
                   C.c_Z(case["cfgid"]), C.c_bool(bool(case.get("always_root"))), tok.s(tgt[0]), C.c_Z(tgt[1]),
                   C.c_bool(len(tgt) == 4), tok.s("d")))
        ops = []
        for op in obs["ops"]:
            if op[0] == "search":
                _, line, man, st, mx, dest, pick = op
                ops.append(f"(OSearch {tok.s(line)} {o(man, tok.s, 'pystr')} {o(st, tok.s, 'pystr')} "
                           f"{o(mx, tok.s, 'pystr')} {C.c_N(dest)} {C.c_Z(pick)})")
            elif op[0] == "advance":
                ops.append(f"(OAdvance {C.c_Z(op[1])})")
            elif op[0] == "stop":
                ops.append("OStop")
            else:
                ops.append("ONoop")
        steps = []
        for stp in obs["steps"]:
            sent = C.c_list((
                "{| g_time := %s; g_kind := %s; g_type := %s; g_nts := %s; g_usn := %s; g_loc := %s; g_dest := %s; g_acc := %s |}"
                % (C.c_Z(g["t"]), C.c_N(g["kind"]), tok.s(g["type"]), tok.s(g["nts"]), tok.s(g["usn"]), tok.s(g["loc"]),
                   C.c_N(g["dest"]), C.c_bool(g["acc"])) for g in stp["sent"]), "dgram")
            steps.append(f"{{| o_sent := {sent}; o_raised := {C.c_bool(stp['raised'])} |}}")
        return (f"({tok.lets()}(({cfg}, {C.c_list(ops, 'sop')}) : input, {C.c_list(steps, 'step_obs')} : observation))")

    # ------------------------------------------------------------------ evidence helpers
    def nontrivial(self, case, obs):
        sent = [g for s in obs["steps"] for g in s["sent"]]
        if not any(g["kind"] == 0 for g in sent) or not any(g["kind"] == 1 for g in sent):
            return None
        return C.case_hash([case, [[g["t"], g["type"], g["usn"], g["dest"]] for g in sent]])

    def describe(self, case, obs):
        return {"tree": case["tree"], "ops": case["ops"][:6],
                "datagrams_per_step": [len(s["sent"]) for s in obs["steps"]],
                "first_datagrams": [g for s in obs["steps"] for g in s["sent"]][:4]}

    def summarize(self, cases, obss):
        kinds, sizes, nd, targets, mxs = {}, {}, 0, 0, {}
        for c, o in zip(cases, obss):
            if not isinstance(o, dict) or "steps" not in o:
                continue
            devs = tree_devices(c["tree"])
            key = f"{len(devs) - 1}emb/{sum(len(d[2]) for d in devs)}svc"
            sizes[key] = sizes.get(key, 0) + 1
            for op in c["ops"]:
                kinds[op[0]] = kinds.get(op[0], 0) + 1
                if op[0] == "search":
                    targets += 1
                    mx = dict((k.lower(), v) for k, v in op[2]).get("mx")
                    mxs[str(mx)] = mxs.get(str(mx), 0) + 1
            nd += sum(len(s["sent"]) for s in o["steps"])
        return {"ops_by_kind": kinds, "trees": sizes, "searches": targets, "mx_values": mxs, "datagrams_observed": nd}

    def shrink(self, case):
        ops = case["ops"]
        # one search alone (followed by enough time for its answers), then one search with the stop
        for i, op in enumerate(ops):
            if op[0] == "search" and len(ops) > 2:
                c = dict(case)
                c["ops"] = [op, ["advance", 6000]]
                yield c
        if len(ops) > 3 and any(op[0] == "stop" for op in ops):
            c = dict(case)
            c["ops"] = [["advance", 1], ["stop"]]
            yield c
        for i in range(len(ops)):
            if len(ops) > 1:
                c = dict(case)
                c["ops"] = ops[:i] + ops[i + 1:]
                yield c
        # prune the tree
        udn, dt, svcs, emb = case["tree"]
        for i in range(len(emb)):
            c = dict(case)
            c["tree"] = [udn, dt, svcs, emb[:i] + emb[i + 1:]]
            yield c
        for i in range(len(svcs)):
            c = dict(case)
            c["tree"] = [udn, dt, svcs[:i] + svcs[i + 1:], emb]
            yield c
