"""C16 — CaseInsensitiveDict behaves as a map: harness (generator, implementation runner,
Coq printers).  Mirrors coq/theories/C16/Model.v op alphabet 1:1."""
from __future__ import annotations

import itertools

from harness import common as C

KEYS = ["a", "A", "b", "B", "ab", "Ab", "aB", "AB", "ß", "É", "é", "Ж", "ж",
        "content-type", "Content-Type", "CONTENT-TYPE", "location", "LOCATION", "_udn", "x-1"]
SMALL_KEYS = ["a", "A", "b"]
NVARS = 4


def lower_keys(keys):
    return sorted({k.lower() for k in keys})


class Plugin:
    ID = "C16"
    RUN_MODULE = "C16.Run"
    GEN = []
    CLAUSES = {1: "refines"}
    SHARD = 300
    RULE = ("operation sequences over header-map variables (random, plus every 2-operation "
            "continuation of a fixed two-map prefix over a small alphabet followed by a full "
            "observation suffix); non-trivial = at least one mutation and one observation that "
            "is not KeyError/unbound; distinct = distinct (ops, observations)")
    TRUSTED = [
        "Coq 8.16.1 kernel + vm_compute (no native_compute)",
        "harness/c16.py: executes the operation list on real CaseInsensitiveDict objects and prints Gallina literals",
        "Python dict/str semantics as modelled in Prelude/PyDict.v and Prelude/PyStr.v (str.lower exact on ASCII, table lower_ext for the generator's non-ASCII code points)",
        "premise of the theorem: lowerstr keys are already lower case; constructor arguments are dicts (distinct keys)",
    ]
    ASSUMPTIONS = ["values are small integers; keys drawn from a fixed alphabet with case variants"]
    last_exhaustive = False

    # ------------------------------------------------------------------ generation
    def corpus(self):
        # D13 (fixed): construction / combination from keys differing only in case
        return [
            [["new", 0, [["Key", 1], ["KEY", 2]], "plain"], ["len", 0], ["iter", 0], ["get", 0, "key"], ["aslower", 0]],
            [["new", 0, [["Key", 1]], "plain"], ["new", 1, [["KEY", 2]], "plain"], ["combine", 2, 0, 1],
             ["len", 2], ["iter", 2], ["set", 2, "kEy", 5], ["len", 2], ["iter", 2]],
            [["new", 0, [["Key", 1]], "plain"], ["combinelower", 1, 0, [["key", 5]]], ["len", 1], ["iter", 1], ["get", 1, "KEY"]],
            [["new", 0, [["b", 0]], "plain"], ["replaceplain", 0, [["X", 1], ["x", 2]]], ["len", 0], ["iter", 0], ["del", 0, "X"], ["len", 0]],
            # aliasing by replace, independence of copy
            [["new", 0, [["a", 1]], "plain"], ["new", 1, [["b", 2]], "plain"], ["replace", 0, 1], ["set", 0, "C", 3],
             ["iter", 1], ["copy", 2, 1], ["set", 2, "D", 4], ["iter", 1], ["iter", 2], ["eq", 0, 1], ["eq", 1, 2]],
        ]

    def _rand_items(self, rng, keys, lower_only=False, maxn=4):
        ks = [k for k in keys if (not lower_only or k == k.lower())]
        n = rng.randint(0, maxn)
        chosen = rng.sample(ks, min(n, len(ks)))
        return [[k, rng.randint(0, 9)] for k in chosen]

    def _rand_op(self, rng, keys, bound):
        v = rng.choice(bound) if bound else 0
        w = rng.choice(bound) if bound else 0
        nv = rng.randrange(NVARS)
        k = rng.choice(keys)
        kind = rng.choice(["new", "new", "newfrom", "copy", "combine", "combine", "combinelower", "combinelower",
                           "replace", "replaceplain", "set", "set", "set", "set", "del", "del", "dellower", "pop",
                           "get", "get", "getlower", "contains", "len", "iter", "aslower", "eq", "eqplain"])
        if kind == "new":
            return ["new", nv, self._rand_items(rng, keys), rng.choice(["plain", "kwargs", "lowerstr", "multidict", "split"])]
        if kind == "newfrom":
            return ["newfrom", nv, w]
        if kind == "copy":
            return ["copy", nv, w]
        if kind == "combine":
            return ["combine", nv, v, w]
        if kind == "combinelower":
            return ["combinelower", nv, v, self._rand_items(rng, keys, lower_only=True)]
        if kind == "replace":
            return ["replace", v, w]
        if kind == "replaceplain":
            return ["replaceplain", v, self._rand_items(rng, keys)]
        if kind == "set":
            return ["set", v, k, rng.randint(0, 9)]
        if kind in ("del", "pop", "get", "contains"):
            return [kind, v, k]
        if kind in ("dellower", "getlower"):
            return [kind, v, rng.choice([k.lower(), k])]
        if kind in ("len", "iter", "aslower"):
            return [kind, v]
        if kind == "eq":
            return ["eq", v, w]
        return ["eqplain", v, self._rand_items(rng, keys)]

    @staticmethod
    def _near_plain(rng, items):
        """plain mappings close to the content a header map built from `items` has: the same content spelled
        differently, with a name given twice in two spellings (the later one wins), or with one name missing and
        another one doubled (same length, different content)"""
        cur = {}
        for k, v in items:
            cur[k.lower()] = v
        base = [[k, v] for k, v in cur.items()]
        if not base:
            return [[]]

        def respell(k):
            c = [x for x in (k.upper(), k.lower(), k.title(), k.swapcase()) if x.lower() == k.lower()]
            return rng.choice(c)
        out = [[[respell(k), v] for k, v in base]]
        i = rng.randrange(len(base))
        k, v = base[i]
        alt = [x for x in (k.upper(), k.title(), k.swapcase()) if x != k and x.lower() == k.lower()]
        if alt:
            a = rng.choice(alt)
            out.append(base[:i] + [[k, v], [a, v]] + base[i + 1:])                 # doubled, same value
            out.append(base[:i] + [[k, v + 1], [a, v]] + base[i + 1:])             # doubled, the later value is right
            out.append(base[:i] + [[a, v], [k, v + 1]] + base[i + 1:])             # doubled, the later value is wrong
            if len(base) > 1:
                j = (i + 1) % len(base)
                rest = [e for n, e in enumerate(base) if n not in (i, j)]
                out.append(rest + [[k, v], [a, v]])                                # one name missing, another doubled
        return out

    def _random_case(self, rng, depth):
        keys = rng.choice([SMALL_KEYS, KEYS[:8], KEYS])
        ops = [["new", 0, self._rand_items(rng, keys), "plain"]]
        bound = [0]
        if rng.random() < 0.5:
            ops += [["eqplain", 0, it] for it in self._near_plain(rng, ops[0][2])]
        for _ in range(depth):
            op = self._rand_op(rng, keys, bound)
            ops.append(op)
            if op[0] == "new" and rng.random() < 0.4:
                ops += [["eqplain", op[1], it] for it in rng.sample(self._near_plain(rng, op[2]), 1)]
            if op[0] in ("new", "newfrom", "copy", "combine", "combinelower") and op[1] not in bound:
                bound.append(op[1])
        for v in bound:
            ops += [["len", v], ["iter", v], ["aslower", v]]
        return ops

    def _small_ops(self):
        out = []
        V = [0, 1]
        items_new = [[], [["a", 1]], [["A", 2], ["a", 3]], [["a", 1], ["b", 2]], [["a", 1], ["A", 1]], [["A", 3], ["a", 2]]]
        items_low = [[["a", 5]], [["b", 6]]]
        for v in V:
            out += [["new", v, it, "plain"] for it in items_new]
            out += [["replaceplain", v, it] for it in items_new[2:]]
            out += [["eqplain", v, it] for it in items_new[1:3] + items_new[4:]]
            out += [["len", v], ["iter", v], ["aslower", v]]
            for k in SMALL_KEYS:
                out += [["set", v, k, 7], ["del", v, k], ["pop", v, k], ["get", v, k], ["contains", v, k]]
            for lk in ["a", "b"]:
                out += [["dellower", v, lk], ["getlower", v, lk]]
            for w in V:
                out += [["newfrom", v, w], ["copy", v, w], ["replace", v, w], ["eq", v, w]]
                out += [["combinelower", v, w, it] for it in items_low]
                for u in V:
                    out.append(["combine", v, w, u])
        return out

    def _exhaustive(self):
        prefix = [["new", 0, [["a", 1]], "plain"], ["new", 1, [["A", 2], ["b", 3]], "plain"]]
        suffix = []
        for v in (0, 1):
            suffix += [["len", v], ["iter", v], ["aslower", v], ["get", v, "a"], ["get", v, "B"]]
        suffix.append(["eq", 0, 1])
        small = self._small_ops()
        for a, b in itertools.product(small, small):
            yield prefix + [a, b] + suffix

    def generate(self, rng, tier):
        cases = []
        ex = list(self._exhaustive())
        if tier == "thorough":
            cases += ex
            self.last_exhaustive = True
            n_rand, depth = 4000, 40
        else:
            cases += rng.sample(ex, 600)
            n_rand, depth = 400, 25
        for i in range(n_rand):
            cases.append(self._random_case(rng, rng.randint(3, depth)))
        return cases

    # ------------------------------------------------------------------ implementation
    def run_impl(self, case):
        from multidict import MultiDict
        from async_upnp_client.utils import CaseInsensitiveDict, lowerstr

        env = {}
        obs = []

        def construct(items, form):
            d = {k: v for k, v in items}
            if form == "kwargs":
                return CaseInsensitiveDict(**d)
            if form == "lowerstr" and all(k == k.lower() for k in d):
                return CaseInsensitiveDict({lowerstr(k): v for k, v in d.items()})
            if form == "multidict":
                return CaseInsensitiveDict(MultiDict(list(d.items())))
            if form == "split" and len(d) >= 2:
                its = list(d.items())
                h = len(its) // 2
                return CaseInsensitiveDict(dict(its[:h]), **dict(its[h:]))
            return CaseInsensitiveDict(d)

        # The Mapping interface of one object: the views keys() / items() / values() speak about the same map as the
        # object itself, whenever they were taken.  Each observation below is accepted only if the views taken when the
        # variable was bound (held) and fresh ones agree with it; otherwise the step reads as ["unbound"], which no run
        # of the specification produces.
        held = {}

        def views_agree(name, d, kind, arg, ans):
            try:
                vs = [(d.keys(), d.items(), d.values())] + ([held[name]] if name in held and held[name][3] is d else [])
                for ks, its, vals in [v[:3] for v in vs]:
                    if kind == "contains":
                        if (arg in ks) != ans:
                            return False
                        if ans and ((arg, d[arg]) in its) is not True:
                            return False
                    elif kind == "get":
                        if (arg in ks) is not True or ((arg, ans) in its) is not True or ans not in list(vals):
                            return False
                    elif kind == "len":
                        if not (len(ks) == len(its) == len(vals) == ans):
                            return False
                    elif kind == "iter":
                        if list(ks) != ans or [k for k, _ in its] != ans or list(vals) != [d[k] for k in ans]:
                            return False
                return True
            except Exception:  # noqa: BLE001
                return False

        def bind(name, d):
            env[name] = d
            held[name] = (d.keys(), d.items(), d.values(), d)

        for op in case:
            kind = op[0]
            try:
                if kind == "new":
                    bind(op[1], construct(op[2], op[3]))
                    obs.append(["done"])
                elif kind == "newfrom":
                    if op[2] not in env:
                        obs.append(["unbound"]); continue
                    bind(op[1], CaseInsensitiveDict(env[op[2]]))
                    obs.append(["done"])
                elif kind == "copy":
                    if op[2] not in env:
                        obs.append(["unbound"]); continue
                    bind(op[1], env[op[2]].copy())
                    obs.append(["done"])
                elif kind == "combine":
                    if op[2] not in env or op[3] not in env:
                        obs.append(["unbound"]); continue
                    bind(op[1], env[op[2]].combine(env[op[3]]))
                    obs.append(["done"])
                elif kind == "combinelower":
                    if op[2] not in env:
                        obs.append(["unbound"]); continue
                    bind(op[1], env[op[2]].combine_lower_dict({lowerstr(k): v for k, v in op[3]}))
                    obs.append(["done"])
                elif kind == "replace":
                    if op[1] not in env or op[2] not in env:
                        obs.append(["unbound"]); continue
                    env[op[1]].replace(env[op[2]])
                    obs.append(["done"])
                else:
                    if op[1] not in env:
                        obs.append(["unbound"]); continue
                    d = env[op[1]]
                    if kind == "replaceplain":
                        d.replace({k: v for k, v in op[2]})
                        obs.append(["done"])
                    elif kind == "set":
                        d[op[2]] = op[3]
                        obs.append(["done"])
                    elif kind == "del":
                        del d[op[2]]
                        obs.append(["done"])
                    elif kind == "dellower":
                        d.del_lower(op[2])
                        obs.append(["done"])
                    elif kind == "pop":
                        obs.append(["val", d.pop(op[2])])
                    elif kind == "get":
                        x = d[op[2]]
                        obs.append(["val", x] if views_agree(op[1], d, "get", op[2], x) else ["unbound"])
                    elif kind == "getlower":
                        x = d.get_lower(op[2], "DEFAULT")
                        obs.append(["default"] if x == "DEFAULT" else ["val", x])
                    elif kind == "contains":
                        x = op[2] in d
                        obs.append(["bool", x] if views_agree(op[1], d, "contains", op[2], x) else ["unbound"])
                    elif kind == "len":
                        x = len(d)
                        obs.append(["nat", x] if views_agree(op[1], d, "len", None, x) else ["unbound"])
                    elif kind == "iter":
                        x = list(d)
                        obs.append(["keys", x] if views_agree(op[1], d, "iter", None, x) else ["unbound"])
                    elif kind == "aslower":
                        obs.append(["items", [[k, v] for k, v in d.as_lower_dict().items()]])
                    elif kind == "eq":
                        if op[2] not in env:
                            obs.append(["unbound"]); continue
                        obs.append(["bool", bool(d == env[op[2]])])
                    elif kind == "eqplain":
                        obs.append(["bool", bool(d == {k: v for k, v in op[2]})])
                    else:
                        raise AssertionError(kind)
            except KeyError:
                obs.append(["keyerror"])
        return obs

    # ------------------------------------------------------------------ printers
    @staticmethod
    def _items(items):
        return C.c_list((f"({C.c_str(k)}, {C.c_N(v)})" for k, v in items), "(K * V)")

    def _op(self, op):
        k = op[0]
        n = C.c_nat
        if k == "new":
            return f"ONew {n(op[1])} {self._items(op[2])}"
        if k == "newfrom":
            return f"ONewFrom {n(op[1])} {n(op[2])}"
        if k == "copy":
            return f"OCopy {n(op[1])} {n(op[2])}"
        if k == "combine":
            return f"OCombine {n(op[1])} {n(op[2])} {n(op[3])}"
        if k == "combinelower":
            return f"OCombineLower {n(op[1])} {n(op[2])} {self._items(op[3])}"
        if k == "replace":
            return f"OReplace {n(op[1])} {n(op[2])}"
        if k == "replaceplain":
            return f"OReplacePlain {n(op[1])} {self._items(op[2])}"
        if k == "set":
            return f"OSet {n(op[1])} {C.c_str(op[2])} {C.c_N(op[3])}"
        if k == "eq":
            return f"OEq {n(op[1])} {n(op[2])}"
        if k == "eqplain":
            return f"OEqPlain {n(op[1])} {self._items(op[2])}"
        if k in ("len", "iter", "aslower"):
            return {"len": "OLen", "iter": "OIter", "aslower": "OAsLower"}[k] + " " + n(op[1])
        name = {"del": "ODel", "dellower": "ODelLower", "pop": "OPop", "get": "OGet",
                "getlower": "OGetLower", "contains": "OContains"}[k]
        return f"{name} {n(op[1])} {C.c_str(op[2])}"

    def _obs(self, o):
        k = o[0]
        if k == "done":
            return "ObDone"
        if k == "keyerror":
            return "ObKeyError"
        if k == "default":
            return "ObDefault"
        if k == "unbound":
            return "ObUnbound"
        if k == "val":
            return f"ObVal {C.c_N(o[1])}"
        if k == "bool":
            return f"ObBool {C.c_bool(o[1])}"
        if k == "nat":
            return f"ObNat {C.c_nat(o[1])}"
        if k == "keys":
            return f"ObKeys {C.c_list((C.c_str(x) for x in o[1]), 'K')}"
        if k == "items":
            return f"ObItems {self._items(o[1])}"
        raise AssertionError(o)

    def to_coq(self, case, obs):
        ops = C.c_list((f"({self._op(op)})" for op in case), "(op K V)")
        ob = C.c_list((f"({self._obs(o)})" for o in obs), "(obs K V)")
        return f"({ops} : input, {ob} : observation)"

    # ------------------------------------------------------------------ evidence helpers
    MUT = {"new", "newfrom", "copy", "combine", "combinelower", "replace", "replaceplain", "set", "del", "dellower", "pop"}

    def nontrivial(self, case, obs):
        if not any(op[0] in self.MUT for op in case[1:]):
            return None
        if not any(o[0] in ("val", "keys", "items", "nat", "bool") for o in obs):
            return None
        return C.case_hash([case, obs])

    def describe(self, case, obs):
        return {"ops": case, "impl_observations": obs}

    def summarize(self, cases, obss):
        kinds, okinds = {}, {}
        lens = []
        for c, o in zip(cases, obss):
            lens.append(len(c))
            for op in c:
                kinds[op[0]] = kinds.get(op[0], 0) + 1
            if isinstance(o, list):
                for x in o:
                    okinds[x[0]] = okinds.get(x[0], 0) + 1
        return {"ops_by_kind": kinds, "observations_by_kind": okinds,
                "sequence_length_min_max": [min(lens), max(lens)] if lens else []}

    def shrink(self, case):
        # drop one operation at a time (keep at least one)
        for i in range(len(case)):
            if len(case) > 1:
                yield case[:i] + case[i + 1:]
