"""./check <ID> --tier quick|thorough [--seed N] [--replay FILE]   |   ./check --setup

One driver for all properties (DESIGN.md §1.1): regenerate Gen/ from /repo, build the Coq
development (theorems = obligations), run corpus + generated cases through the implementation
and through model/spec inside Coq, decide, write evidence."""
from __future__ import annotations

import argparse
import importlib
import json
import os
import random
import sys
import time
import traceback
from pathlib import Path

HERE = Path(__file__).resolve().parent
sys.path.insert(0, str(HERE.parent))

if os.environ.get("PYTHONHASHSEED") != "0" or os.environ.get("ASYNC_UPNP_CLIENT_VERIF") != "1":
    os.environ["PYTHONHASHSEED"] = "0"
    os.environ["ASYNC_UPNP_CLIENT_VERIF"] = "1"
    os.execv(sys.executable, [sys.executable] + sys.argv)

from harness import common as C  # noqa: E402

sys.path.insert(0, str(C.REPO))
sys.dont_write_bytecode = True

ALL_IDS = [f"C{n:02d}" for n in range(1, 21)]


def load_plugin(pid: str):
    return importlib.import_module(f"harness.{pid.lower()}").Plugin()


def build(pid: str | None, clean=False, depends=(), gen=None):
    res = C.BuildResult()
    with C.BuildLock():
        C.regenerate(res, gen)
        C.scan_forbidden(res, None if pid is None else ["Prelude", "Gen", pid, *depends])
        if pid is None:
            # setup: build the directories of the properties MANIFEST.json claims (plus what they import)
            man = json.loads((C.VERIF / "MANIFEST.json").read_text())
            claimed = sorted({c["property_id"] for c in man.get("checks", [])})
            targets = []
            for d in claimed:
                targets += [str(p.relative_to(C.COQ))[:-2] + ".vo" for p in sorted((C.COQ / "theories" / d).glob("*.v"))]
            C.make(targets, res, clean=clean)
            return res, True
        run_target = f"theories/{pid}/Run.vo"
        proofs_targets = [str(p.relative_to(C.COQ))[:-2] + ".vo" for p in sorted((C.COQ / "theories" / pid).glob("*.v"))
                          if p.name not in ("Properties.v", "Run.v")]
        if clean:
            # thorough tier: rebuild this property (and the generated tables) from scratch
            for d in (pid,):
                for ext in ("vo", "vok", "vos", "glob", "aux"):
                    for f in (C.COQ / "theories" / d).glob(f"*.{ext}"):
                        f.unlink()
                    for f in (C.COQ / "theories" / d).glob(f".*.{ext}"):
                        f.unlink()
        r2 = C.BuildResult()
        run_ok = C.make([run_target], r2)
        if not run_ok:
            res.ok = False
            res.failed_target = res.failed_target or r2.failed_target
            res.log += r2.log
        r3 = C.BuildResult()
        if C.make(proofs_targets, r3):
            C.check_properties_file(pid, res)
        else:
            res.ok = False
            res.failed_target = res.failed_target or r3.failed_target
            res.log += r3.log
            src = (C.COQ / f"theories/{pid}/Properties.v").read_text()
            import re
            res.theorems = re.findall(r"^\s*(?:Theorem|Corollary)\s+(\w+)", src, flags=re.M)
    return res, run_ok


def run_cases(plugin, cases, tag):
    """-> (obss, triples).  run_impl never raises: an escaping exception is an observation."""
    obss = []
    for case in cases:
        try:
            obss.append(plugin.run_impl(case))
        except BaseException as e:  # noqa: BLE001 - fail closed: becomes a mismatch
            if isinstance(e, KeyboardInterrupt):
                raise
            obss.append({"harness_error": type(e).__name__, "msg": str(e)[:200],
                         "tb": traceback.format_exc()[-600:]})
    terms = []
    bad = []
    for i, (case, obs) in enumerate(zip(cases, obss)):
        if isinstance(obs, dict) and "harness_error" in obs:
            bad.append(i)
            terms.append(None)
        else:
            terms.append(plugin.to_coq(case, obs))
    idx = [i for i, t in enumerate(terms) if t is not None]
    triples = []
    if idx:
        raw = C.eval_shards(plugin.ID, plugin.RUN_MODULE, [terms[i] for i in idx], tag,
                            shard=getattr(plugin, "SHARD", 400), header=getattr(plugin, "HEADER", ""))
        triples = [(idx[i], k, d) for (i, k, d) in raw]
    triples += [(i, 0, 0) for i in bad]
    return obss, triples


def classify(triples):
    mism, spec, guards = {}, {}, {}
    for i, k, d in triples:
        if k == 0:
            mism[i] = d
        elif k < 100:
            spec.setdefault(i, []).append((k, d))
        else:
            guards.setdefault(i, set()).add(k - 100)
    return mism, spec, guards


def shrink(plugin, case, pred, rounds=8):
    """Greedy shrinking: pred(list of candidate cases) -> index of first still-failing or None."""
    if not hasattr(plugin, "shrink"):
        return case
    for _ in range(rounds):
        cands = list(plugin.shrink(case))[:60]
        if not cands:
            break
        j = pred(cands)
        if j is None:
            break
        case = cands[j]
    return case


def main():
    ap = argparse.ArgumentParser()
    ap.add_argument("pid", nargs="?")
    ap.add_argument("--tier", default=os.environ.get("VERIF_TIER", "quick"))
    ap.add_argument("--seed", type=int, default=int(os.environ.get("VERIF_SEED", "0")))
    ap.add_argument("--replay")
    ap.add_argument("--setup", action="store_true")
    ap.add_argument("--clean", action="store_true")
    args = ap.parse_args()
    t0 = time.time()

    if args.setup:
        res, _ = build(None, clean=args.clean)
        if not res.ok:
            print(res.log[-3000:])
            print("setup: build FAILED at", res.failed_target)
            return 2
        print("setup: build ok")
        return 0

    pid = args.pid
    if pid not in ALL_IDS:
        print("usage: ./check Cxx --tier quick|thorough", file=sys.stderr)
        return 2
    plugin = load_plugin(pid)
    tier = args.tier if args.tier in ("quick", "thorough") else "quick"

    if args.replay:
        payload = json.loads(Path(args.replay).read_text())
        case = payload["case"] if "case" in payload else payload
        res, run_ok = build(pid, depends=getattr(plugin, "DEPENDS", ()), gen=getattr(plugin, "GEN", None))
        obs = plugin.run_impl(case)
        print("case:", json.dumps(case)[:2000])
        print("implementation observation:", json.dumps(obs, default=str)[:3000])
        if run_ok:
            print(C.eval_term(plugin.RUN_MODULE, f"replay {plugin.to_coq(case, obs)}",
                              header=getattr(plugin, "HEADER", "")))
        return 0

    rng = random.Random(args.seed)
    res, run_ok = build(pid, depends=getattr(plugin, "DEPENDS", ()), gen=getattr(plugin, "GEN", None), clean=(tier == "thorough" and os.environ.get("VERIF_NO_CLEAN") != "1"))
    if res.ok and (not res.theorems or len(res.discharged) != len(res.theorems)):
        res.ok = False
        res.failed_target = "no-theorems" if not res.theorems else "undischarged-theorems"
    # thorough tier: re-check the compiled theorems and everything they depend on with the independent checker
    coqchk = None
    if tier == "thorough" and res.ok and os.environ.get("VERIF_NO_COQCHK") != "1":
        coqchk = C.run_coqchk(pid)
        if not coqchk["ok"]:
            res.ok = False
            res.failed_target = "coqchk"
            res.log += "\n[coqchk] " + coqchk["tail"]
    findings = C.load_known_findings(pid)
    fixed_w = [e["witness"] for e in findings if e.get("kind") == "fixed" and "witness" in e]
    kf = [e for e in findings if e.get("kind") == "finding"]
    kf_w = [e["witness"] for e in kf if "witness" in e]

    corpus = list(plugin.corpus()) + fixed_w + kf_w + C.load_regression_corpus(pid)
    generated = list(plugin.generate(rng, tier))
    if res.pinned:
        # a generated table could not be re-read from the source and the pinned copy is in use: for this run the tie
        # between model and code is the correspondence alone, so it runs on an enlarged case set
        extra0 = list(plugin.generate(random.Random(args.seed + 104729), "thorough"))
        generated += extra0[: getattr(plugin, "SEARCH_CASES", 4000)]
    cases = corpus + generated
    violations = []   # (clause name, case, obs, note)
    known_hit = {}
    mism_cases = []
    obss, triples = [], []
    coq_error = None
    if run_ok:
        try:
            obss, triples = run_cases(plugin, cases, "main")
        except RuntimeError as e:
            coq_error = str(e)
            res.ok = False
            res.failed_target = res.failed_target or "case-evaluation"
            res.log += coq_error
    mism, spec, guards = classify(triples)

    def is_known(i_guards, clause_id):
        for n, e in enumerate(kf):
            if e.get("guard_index", n) in i_guards and plugin.CLAUSES.get(clause_id) == e.get("clause"):
                return e
        return None

    for i, fails in sorted(spec.items()):
        for (k, d) in fails:
            e = is_known(guards.get(i, set()), k)
            if e is not None:
                known_hit.setdefault(e["id"], (e, cases[i]))
            else:
                violations.append((plugin.CLAUSES.get(k, str(k)), cases[i], obss[i], f"detail={d}"))
    for i in sorted(mism):
        if i not in spec:
            mism_cases.append((cases[i], obss[i], mism[i]))

    # implementation-only volume search for directly observable clauses (never a proof)
    impl_search_n = 0
    if hasattr(plugin, "impl_search"):
        found, impl_search_n = plugin.impl_search(rng, tier)
        for (clause, case, obs, note) in found:
            violations.append((clause, case, obs, note))

    search_note = None
    if not violations and (not res.ok or mism_cases):
        # the property is no longer *shown*: search harder for a concrete failing input
        if run_ok and coq_error is None:
            extra = list(plugin.generate(random.Random(args.seed + 7919), "thorough"))
            extra = extra[: getattr(plugin, "SEARCH_CASES", 4000)]
            for (c0, _, _) in mism_cases[:20]:
                extra = list(getattr(plugin, "mutate_case", lambda c, r: [])(c0, rng)) + extra
            try:
                obss2, triples2 = run_cases(plugin, extra, "search")
                m2, s2, g2 = classify(triples2)
                for i, fails in sorted(s2.items()):
                    for (k, d) in fails:
                        if is_known(g2.get(i, set()), k) is None:
                            violations.append((plugin.CLAUSES.get(k, str(k)), extra[i], obss2[i], f"detail={d}"))
                cases_n_extra = len(extra)
            except RuntimeError as e:
                coq_error = str(e)
        search_note = "search-mode"

    out_lines = []
    rc = 0
    for name, why in sorted(res.pinned.items()):
        out_lines.append(f"NOTE: table Gen/{name}.v: source shape not recognised, pinned copy used; tie by correspondence on "
                         f"{len(cases)} cases ({why[:160]})")
    for e, c in known_hit.values():
        out_lines.append(f"KNOWN-FINDING: property={pid} {e['id']}: {e['what']}")
    if violations:
        clause, case, obs, note = violations[0]

        def pred(cands):
            try:
                ob, tr = run_cases(plugin, cands, "shrink")
            except RuntimeError:
                return None
            _, s, g = classify(tr)
            for j in range(len(cands)):
                if any(plugin.CLAUSES.get(k) == clause and is_known(g.get(j, set()), k) is None
                       for (k, _) in s.get(j, [])):
                    return j
            return None

        small = case
        if run_ok and coq_error is None and not note.startswith("impl-search"):
            small = shrink(plugin, case, pred)
        sobs = plugin.run_impl(small) if small is not case else obs
        path = C.write_replay(pid, {"property": pid, "kind": "spec-violation", "clause": clause,
                                    "case": small, "impl_obs": sobs, "note": note,
                                    "unshrunk_case": case if small is not case else None})
        out_lines.append(f"VIOLATION property={pid} replay={path}")
        rc = 1
    elif not res.ok or mism_cases:
        what = res.failed_target if not res.ok else f"correspondence:{pid}"
        path = C.write_replay(pid, {"property": pid, "kind": "broken-obligation" if not res.ok else "model-mismatch",
                                    "obligation": what, "log": res.log[-2500:],
                                    "translator_error": res.translator_error,
                                    "disagreeing_inputs": [{"case": c, "impl_obs": o, "detail": d} for (c, o, d) in mism_cases[:5]]})
        out_lines.append(f"VIOLATION property={pid} replay={path} ({what}) no-failing-input-found")
        rc = 1

    # ------------------------------------------------------------------ evidence
    keys = set()
    for c, o in zip(cases, obss):
        try:
            k = plugin.nontrivial(c, o)
        except Exception:  # noqa: BLE001
            k = None
        if k is not None:
            keys.add(k)
    n_ob = max(1, len(res.theorems))
    herr = [o for o in obss if isinstance(o, dict) and "harness_error" in o]
    ok_pairs = [(c, o) for c, o in zip(cases, obss) if not (isinstance(o, dict) and "harness_error" in o)]

    def safe(f, default):
        try:
            return f()
        except Exception as e:  # noqa: BLE001 - evidence must be written whatever the implementation did
            return {"unavailable": f"{type(e).__name__}: {e}"[:200]} if isinstance(default, dict) else default
    ev = {
        "property_id": pid, "tier": tier, "seed": args.seed, "level": "proof",
        "coverage": {
            "obligations": n_ob,
            "discharged": len(res.discharged),
            "theorems": res.theorems,
            "print_assumptions": res.assumptions,
            "checker_cmd": f"coqc -Q theories AUC theories/{pid}/Properties.v (after make theories/{pid}/Proofs.vo theories/{pid}/Run.vo; Coq 8.16.1)",
            "trusted_base": plugin.TRUSTED if hasattr(plugin, "TRUSTED") else [],
            "evaluations": len(cases) + impl_search_n,
            "coq_evaluated_cases": len(obss),
            "impl_only_search_cases": impl_search_n,
            "distinct_nontrivial": len(keys),
            "rule": getattr(plugin, "RULE", ""),
            "traces_validated_against_impl": len(obss) - len(mism),
            "model_impl_mismatches": len(mism),
            "spec_failures_on_impl": len(spec),
            "known_findings_hit": sorted(known_hit),
            "corpus_cases": len(corpus),
            "samples": safe(lambda: [plugin.describe(c, o) for c, o in (ok_pairs[len(corpus):len(corpus) + 3] or ok_pairs[:3])], [])
            or ["(no case evaluated)"],
            "distribution": safe(lambda: plugin.summarize([c for c, _ in ok_pairs], [o for _, o in ok_pairs]), {})
            if hasattr(plugin, "summarize") and ok_pairs else {},
            "harness_errors": {"count": len(herr), "first": herr[0] if herr else None},
            "exhaustive": bool(getattr(plugin, "last_exhaustive", False)),
            "build_ok": res.ok, "failed": res.failed_target, "search": search_note,
            "generated_tables": {"pinned_copy_used": res.pinned, "notes": res.gen_notes} if (res.pinned or res.gen_notes)
            else "all tables regenerated from the current source",
            "coqchk": coqchk if coqchk is not None else "not run in the quick tier (thorough tier runs coqchk -o on the Properties module)",
        },
        "assumptions": getattr(plugin, "ASSUMPTIONS", []),
        "wall_s": round(time.time() - t0, 2),
        "violations": len(violations) + (1 if rc and not violations else 0),
    }
    C.write_evidence(pid, ev)
    for line in out_lines:
        print(line)
    if os.environ.get("VERIF_DEBUG"):
        for (c0, o0, d0) in mism_cases[:8]:
            print("MISMATCH", json.dumps(c0)[:500], "\n   IMPL", json.dumps(o0, default=str)[:500])
    print(f"{pid} {tier}: theorems {len(res.discharged)}/{n_ob} cases {len(obss)} mismatches {len(mism)} "
          f"spec-failures {len(spec)} known {len(known_hit)} -> exit {rc} ({ev['wall_s']}s)")
    return rc


def _guarded_main():
    """A crash of the harness itself (typically: the code under test changed an interface the fakes or oracles
    rely on) must not read as a pass, nor exit non-zero without a VIOLATION line."""
    try:
        return main()
    except SystemExit:
        raise
    except BaseException:  # noqa: BLE001
        import traceback
        tb = traceback.format_exc()
        pid = next((a for a in sys.argv[1:] if a.startswith("C") and a[1:].isdigit()), "C00")
        try:
            rp = C.write_replay(pid, {"property": pid, "kind": "harness-error",
                                      "note": "the correspondence harness could not run against this tree; "
                                              "the property is no longer shown to hold", "traceback": tb})
        except Exception:  # noqa: BLE001
            rp = "-"
        sys.stderr.write(tb)
        try:
            C.write_evidence(pid, {"property_id": pid, "tier": os.environ.get("VERIF_TIER", "quick"), "seed": 0,
                                   "level": "other", "coverage": {"harness_error": tb[-2000:]}, "assumptions": [],
                                   "wall_s": 0, "violations": 1})
        except Exception:  # noqa: BLE001
            pass
        print(f"VIOLATION property={pid} replay={rp} no-failing-input-found")
        return 1


if __name__ == "__main__":
    sys.exit(_guarded_main())
