"""C08 — UPnP data types: lossless round trip and exact validation.  Harness."""
from __future__ import annotations

import calendar
import datetime as dt
import math
import re

from harness import common as C

INT_TYPES = ["ui1", "ui2", "ui4", "ui8", "i1", "i2", "i4", "i8", "int"]
FLOAT_TYPES = ["r4", "r8", "number", "fixed.14.4", "float"]
STR_TYPES = ["char", "string", "bin.base64", "bin.hex", "uri", "uuid"]
DATE_TYPES = ["date", "dateTime", "dateTime.tz", "time", "time.tz"]
ALL_TYPES = INT_TYPES + FLOAT_TYPES + STR_TYPES + ["boolean"] + DATE_TYPES
PYTYPE = {**{t: "int" for t in INT_TYPES}, **{t: "float" for t in FLOAT_TYPES}, **{t: "str" for t in STR_TYPES},
          "boolean": "bool", "date": "date", "dateTime": "datetime", "dateTime.tz": "datetime", "time": "time", "time.tz": "time"}


# ---------------------------------------------------------------------- value <-> JSON
def enc(v):
    if v is None:
        return {"t": "none"}
    if isinstance(v, bool):
        return {"t": "bool", "v": v}
    if isinstance(v, int):
        return {"t": "int", "v": str(v)}
    if isinstance(v, float):
        return {"t": "float", "v": v.hex() if math.isfinite(v) else ("nan" if v != v else ("inf" if v > 0 else "-inf"))}
    if isinstance(v, str):
        return {"t": "str", "v": v}
    if isinstance(v, dt.datetime):
        return {"t": "datetime", "v": [v.year, v.month, v.day, v.hour, v.minute, v.second, tzmin(v.utcoffset())], "us": v.microsecond}
    if isinstance(v, dt.date):
        return {"t": "date", "v": [v.year, v.month, v.day]}
    if isinstance(v, dt.time):
        return {"t": "time", "v": [v.hour, v.minute, v.second, tzmin(v.utcoffset())], "us": v.microsecond}
    return {"t": "other", "v": repr(v)[:80]}


def tzmin(off):
    if off is None:
        return None
    secs = off.total_seconds()
    if secs != int(secs) or int(secs) % 60:
        return "frac"
    return int(secs) // 60


def dec(j):
    t = j["t"]
    if t == "none":
        return None
    if t == "bool":
        return j["v"]
    if t == "int":
        return int(j["v"])
    if t == "float":
        return float.fromhex(j["v"]) if j["v"] not in ("nan", "inf", "-inf") else float(j["v"])
    if t == "str":
        return j["v"]
    mk = lambda m: None if m is None else dt.timezone(dt.timedelta(minutes=m))  # noqa: E731
    if t == "date":
        return dt.date(*j["v"])
    if t == "time":
        h, mi, s, tz = j["v"]
        return dt.time(h, mi, s, tzinfo=mk(tz))
    if t == "datetime":
        y, mo, d, h, mi, s, tz = j["v"]
        return dt.datetime(y, mo, d, h, mi, s, tzinfo=mk(tz))
    raise AssertionError(j)


def fl_coq(x: float) -> str:
    if x != x:
        return "FNan"
    if math.isinf(x):
        return f"(FInf {C.c_bool(x < 0)})"
    m, d = x.as_integer_ratio()
    e = -(d.bit_length() - 1)
    if m == 0:
        return "(FFin 0%Z 0%Z)"
    while m % 2 == 0:
        m //= 2
        e += 1
    return f"(FFin {C.c_Z(m)} {C.c_Z(e)})"


def val_coq(j) -> str:
    t = j["t"]
    if t == "none":
        return "VNone"
    if t == "bool":
        return f"(VBool {C.c_bool(j['v'])})"
    if t == "int":
        return f"(VInt {C.c_Z(int(j['v']))})"
    if t == "float":
        return f"(VFloat {fl_coq(dec(j))})"
    if t == "str":
        return f"(VStr {C.c_str(j['v'])})"
    tz = lambda m: "None" if m is None else f"(Some {C.c_Z(m)})"  # noqa: E731
    if t == "date":
        y, mo, d = j["v"]
        return f"(VDate {{| dy := {y}%N; dm := {mo}%N; dd := {d}%N |}})"
    if t == "time":
        h, mi, s, z = j["v"]
        return f"(VTime {{| th := {h}%N; tmi := {mi}%N; ts := {s}%N; ttz := {tz(z)} |}})"
    if t == "datetime":
        y, mo, d, h, mi, s, z = j["v"]
        return (f"(VDateTime {{| dy := {y}%N; dm := {mo}%N; dd := {d}%N |}} "
                f"{{| th := {h}%N; tmi := {mi}%N; ts := {s}%N; ttz := {tz(z)} |}})")
    raise ValueError(f"unprintable value {j}")


EXN = ["ValueError", "TypeError", "AttributeError", "UpnpValueError", "IndexError"]


def exn_name(e: BaseException) -> str:
    from async_upnp_client.exceptions import UpnpValueError
    if isinstance(e, UpnpValueError):
        return "UpnpValueError"
    for n, cls in (("IndexError", IndexError), ("ValueError", ValueError), ("TypeError", TypeError),
                   ("AttributeError", AttributeError)):
        if isinstance(e, cls):
            return n
    return "OtherError:" + type(e).__name__


def res_coq(r, f) -> str:
    if r[0] == "ok":
        return f"(Ok {f(r[1])})"
    n = r[1] if r[1] in EXN else "OtherError"
    return f"(Raise {n})"


# a data type of the same Python type whose validation differs (time zone demanded or not, other width)
SIBLING_TYPE = {"dateTime": "dateTime.tz", "dateTime.tz": "dateTime", "time": "time.tz", "time.tz": "time",
                "ui1": "i4", "ui2": "ui4", "ui4": "i2", "ui8": "i8", "i1": "ui4", "i2": "ui2", "i4": "ui1", "i8": "ui8", "int": "ui2",
                "r4": "fixed.14.4", "r8": "float", "number": "r4", "fixed.14.4": "r8", "float": "number",
                "string": "uri", "uri": "string", "char": "string", "uuid": "string", "bin.hex": "bin.base64", "bin.base64": "bin.hex"}


# ---------------------------------------------------------------------- clause 5: which from-wire cases it judges
# Evidence only: a Python reading of the grammar of C08/Spec.v:spec_iso_in, used to COUNT the cases the clause judged
# (distribution.iso_clause).  The judgement itself is made in Coq; the flag is shipped with each case and Run.report
# emits a kind-0 triple (detail 5) if it differs from `spec_iso_in ... = Some _`, so the count cannot drift.
_ISO_DATE = r"([0-9]{4})-([0-9]{2})-([0-9]{2})"
_ISO_CLOCK = r"([0-9]{2}):([0-9]{2}):([0-9]{2})"
_ISO_OFF = r"([+-])([0-9]{2}):?([0-9]{2})"
_ISO_RE = {
    "d": [re.compile(_ISO_DATE)],
    "t": [re.compile(_ISO_CLOCK + "(?:" + _ISO_OFF + ")?")],
    "dt": [re.compile(_ISO_DATE + "T" + _ISO_CLOCK + "(?:(?P<zulu>[Zz])|" + _ISO_OFF + ")?"), re.compile(_ISO_DATE + " " + _ISO_CLOCK)],
}
_ISO_KIND = {"date": "d", "time": "t", "time.tz": "t", "dateTime": "dt", "dateTime.tz": "dt"}


def iso_judged(type_name: str, text: str):
    """None, or the zone notation ('none', 'Z', '+hh:mm', '+hhmm') of a text in the grammar of spec_iso_in."""
    kind = _ISO_KIND.get(type_name)
    if kind is None or not isinstance(text, str):
        return None
    for rx in _ISO_RE[kind]:
        m = rx.fullmatch(text)
        if not m:
            continue
        g = [x for x in m.groups()]
        nums = [x for x in g if x is not None and x.isdigit() and x.isascii()]
        if kind in ("d", "dt"):
            y, mo, d = int(nums[0]), int(nums[1]), int(nums[2])
            nums = nums[3:]
            if not (1 <= y <= 9999 and 1 <= mo <= 12 and 1 <= d <= calendar.monthrange(y, mo)[1]):
                return None
        if kind in ("t", "dt"):
            h, mi, sec = int(nums[0]), int(nums[1]), int(nums[2])
            nums = nums[3:]
            if h > 23 or mi > 59 or sec > 59:
                return None
        if "zulu" in m.groupdict() and m.group("zulu"):
            return "Z"
        sign = next((x for x in g if x in ("+", "-")), None)
        if sign is None:
            return "none"
        zh, zm = int(nums[0]), int(nums[1])
        if zh > 23 or zm > 59 or (sign == "-" and zh == 0 and zm == 0):
            return None
        return "+hh:mm" if text[-3] == ":" else "+hhmm"
    return None


class Plugin:
    ID = "C08"
    RUN_MODULE = "C08.Run"
    GEN = ["Types", "DateMatchers"]
    CLAUSES = {1: "roundtrip", 2: "accepts_iff", 3: "rejected_not_stored", 4: "wire_setter", 5: "iso_spellings"}
    SHARD = 300
    RULE = ("codec cases (to-wire, from-wire, round trip) over all 26 type names x boundary/random values and "
            "valid/malformed spellings, and state-variable histories (declaration with allowed list / range / "
            "strictness, then value and upnp_value assignments); non-trivial = not a lookup failure; distinct = "
            "distinct (input, observation)")
    TRUSTED = [
        "Coq 8.16.1 kernel + vm_compute",
        "tools/gen/types.py, tools/gen/datematchers.py (source -> Gen/Types.v, Gen/DateMatchers.v)",
        "harness/c08.py (builds real UpnpStateVariable objects through UpnpFactory._create_state_variable, value encoders)",
        "float repr/parse are oracles recorded from CPython per case (round trip of floats rests on the stated premise)",
        "CPython datetime.strptime/isoformat, int(), voluptuous All/In/Range as modelled in C08/Model.v",
    ]
    ASSUMPTIONS = [
        "inputs contain no non-ASCII decimal digits (Python's \\d and int() accept them; the model is ASCII)",
        "integers below 4300 digits (CPython int/str conversion limit)",
        "allowed lists / ranges on aware date-times are outside the modelled ordering and are not generated",
    ]
    last_exhaustive = False

    # ------------------------------------------------------------------ generators
    def corpus(self):
        return [
            # D15 (fixed): time.tz out-coercer
            {"kind": "round", "type": "time.tz", "value": {"t": "time", "v": [1, 2, 3, 120]}},
            # D16 (fixed): short date text
            {"kind": "in", "type": "dateTime", "text": ""},
            {"kind": "in", "type": "date", "text": "12:30"},
            {"kind": "var", "type": "dateTime", "strict": True, "allowed": [], "range": None,
             "ops": [["setwire", "2020-01-02T03:04:05"], ["setwire", "abc"], ["setwire", "2020-01-02T03:04:05"]]},
            {"kind": "round", "type": "dateTime.tz", "value": {"t": "datetime", "v": [2020, 2, 29, 23, 59, 59, -330]}},
            {"kind": "var", "type": "ui1", "strict": True, "allowed": [], "range": ["0", "100"],
             "ops": [["set", {"t": "int", "v": "50"}], ["set", {"t": "int", "v": "101"}], ["set", {"t": "str", "v": "5"}],
                     ["setwire", "abc"], ["setwire", "7"], ["setwire", "200"]]},
        ]

    def _rand_value(self, rng, pyt):
        if pyt == "int":
            return rng.choice([0, 1, -1, 255, 256, 65535, 2**31 - 1, 2**31, -2**31, 2**32, 2**63, -2**63, 2**64, 10**30,
                               rng.randint(-10**6, 10**6), rng.randint(-2**70, 2**70)])
        if pyt == "float":
            return rng.choice([0.0, -0.0, 1.5, -2.25, 1e300, 5e-324, 0.1, 1 / 3, float("inf"), float("-inf"), float("nan"),
                               rng.uniform(-1e6, 1e6), rng.random() * 10 ** rng.randint(-30, 30)])
        if pyt == "str":
            alphabet = "ab Z<>&\"'\t\n\rÉß漢🎵%_0-9;"
            return "".join(rng.choice(alphabet) for _ in range(rng.randint(0, 12)))
        if pyt == "bool":
            return rng.random() < 0.5
        tz = lambda: rng.choice([None, None, 0, 60, -300, 330, 1439, -1439, rng.randint(-1439, 1439)])  # noqa: E731

        def rdate():
            y = rng.choice([1, 999, 1000, 1900, 2000, 2020, 2024, 9999, rng.randint(1, 9999)])
            m = rng.randint(1, 12)
            dim = [31, 29 if (y % 4 == 0 and y % 100 != 0) or y % 400 == 0 else 28, 31, 30, 31, 30, 31, 31, 30, 31, 30, 31][m - 1]
            return y, m, rng.choice([1, dim, rng.randint(1, dim)])
        mk = lambda m: None if m is None else dt.timezone(dt.timedelta(minutes=m))  # noqa: E731
        if pyt == "date":
            return dt.date(*rdate())
        hms = (rng.choice([0, 23, rng.randint(0, 23)]), rng.choice([0, 59, rng.randint(0, 59)]), rng.choice([0, 59, rng.randint(0, 59)]))
        if pyt == "time":
            return dt.time(*hms, tzinfo=mk(tz()))
        return dt.datetime(*rdate(), *hms, tzinfo=mk(tz()))

    def _wrong_value(self, rng, pyt):
        others = [p for p in ["int", "float", "str", "bool", "date", "time", "datetime"] if p != pyt]
        if rng.random() < 0.15:
            return None
        return self._rand_value(rng, rng.choice(others))

    def _rand_text(self, rng, type_name):
        pyt = PYTYPE[type_name]
        r = rng.random()
        if pyt == "int":
            return rng.choice(["0", "-0", "+5", " 12 ", "1_000", "1__0", "_1", "1_", "0x10", "", " ", "12a", "1.0", "-", "+",
                               "007", "\t9\n", "9" * 30, str(rng.randint(-10**12, 10**12))])
        if pyt == "float":
            return rng.choice(["1.5", "1e3", "nan", "inf", "-inf", " 2.5 ", "abc", "1_0.5", "", ".5", "5.", "1e", "0x1p3",
                               "Infinity", repr(rng.uniform(-1e9, 1e9))])
        if pyt == "bool":
            return rng.choice(["1", "0", "true", "TRUE", "True", "yes", "Yes", "YES", "no", "false", "", " 1", "1 ", "y", "on", "2"])
        if pyt == "str":
            return self._rand_value(rng, "str")
        # date/time spellings
        d = "%04d-%02d-%02d" % (rng.choice([1, 2020, 9999, 0, rng.randint(0, 9999)]), rng.choice([1, 12, 0, 13, 2, rng.randint(0, 14)]),
                                rng.choice([1, 28, 29, 30, 31, 0, 32, rng.randint(0, 33)]))
        t = "%02d:%02d:%02d" % (rng.choice([0, 23, 24, rng.randint(0, 25)]), rng.choice([0, 59, 60, rng.randint(0, 61)]),
                                rng.choice([0, 59, 60, 61, rng.randint(0, 62)]))
        z = rng.choice(["", "", "Z", "z", "+0000", "-0000", "+00:00", "+0530", "-05:30", " +0100", " -01:00", "+2359", "+2400", "-2400",
                        "+0060", "+9959", "+1", "+01", "+010", "+01000", "+01:0", "Zz", "+01:00:00"])
        sep = rng.choice(["T", "T", " ", "t", "_", ""])
        base = rng.choice([d, t, d + sep + t, d + sep + t, t + z, d + sep + t + z, d + sep + t + z, d + z])
        if r < 0.25:
            # mutate: drop / duplicate / replace a character, or truncate to a short length
            k = rng.randint(0, 3)
            if k == 0 and base:
                i = rng.randrange(len(base)); base = base[:i] + base[i + 1:]
            elif k == 1 and base:
                i = rng.randrange(len(base)); base = base[:i] + rng.choice("0:-+TZ x\n") + base[i + 1:]
            elif k == 2:
                base = base[:rng.randint(0, 12)]
            else:
                base = base + rng.choice(["\n", " ", "Z", "0"])
        return base

    def _decl(self, rng, type_name):
        pyt = PYTYPE[type_name]
        strict = rng.random() < 0.8
        allowed, rng_ = [], None
        r = rng.random()
        if pyt == "int":
            if r < 0.35:
                allowed = rng.choice([["1", "2", "3"], ["0"], ["10", "-5", "7"], ["1", "abc"], [" 4 "]])
            elif r < 0.8:
                rng_ = rng.choice([["0", "100"], ["-5", "5"], ["0", None], [None, "10"], ["", "10"], ["3", "3"], ["x", "5"], [None, None],
                                   [None, "0"], ["0", "0"], ["-10", "0"]])
        elif pyt == "float":
            if r < 0.3:
                allowed = rng.choice([["1.5", "2.5"], ["0"], ["1e3"]])
            elif r < 0.7:
                rng_ = rng.choice([["0", "10.5"], ["-1.5", None], [None, "1e300"], ["0.0", "0.0"], ["0", None], [None, "0.0"]])
        elif pyt == "str":
            if r < 0.5:
                allowed = rng.choice([["a", "b"], ["PLAYING", "STOPPED", "PAUSED_PLAYBACK"], [""], ["x", "X"]])
            elif r < 0.65:
                rng_ = ["a", "m"]
        elif pyt == "bool":
            if r < 0.3:
                allowed = rng.choice([["1"], ["0"], ["1", "0"], ["true"]])
        else:
            naive = type_name in ("date", "dateTime", "time")
            if naive and r < 0.3:
                allowed = {"date": ["2020-01-02", "2021-03-04"], "dateTime": ["2020-01-02T03:04:05"], "time": ["03:04:05", "23:59:59"]}[type_name]
            elif naive and r < 0.5:
                rng_ = {"date": ["2000-01-01", "2030-12-31"], "dateTime": ["2000-01-01T00:00:00", None], "time": ["08:00:00", "17:00:00"]}[type_name]
        return strict, allowed, rng_

    def _var_case(self, rng, type_name):
        pyt = PYTYPE[type_name]
        strict, allowed, rng_ = self._decl(rng, type_name)
        ops = []
        for _ in range(rng.randint(1, 6)):
            r = rng.random()
            if r < 0.45:
                v = self._rand_value(rng, pyt)
                if allowed and rng.random() < 0.5:
                    try:
                        from async_upnp_client.const import STATE_VARIABLE_TYPE_MAPPING as M
                        v = M[type_name]["in"](rng.choice(allowed))
                    except Exception:  # noqa: BLE001
                        pass
                elif rng_ and pyt == "int":
                    v = rng.randint(-10, 110)
                elif rng_ and pyt == "float":
                    v = rng.choice([rng.uniform(-5, 15), 0.0, 10.5, float("nan")])
                elif rng_ and pyt == "str":
                    v = rng.choice(["a", "m", "b", "z", "", "A", "ma"])
                ops.append(["set", enc(v)])
            elif r < 0.6:
                ops.append(["set", enc(self._wrong_value(rng, pyt))])
            else:
                txt = self._rand_text(rng, type_name)
                if allowed and rng.random() < 0.4:
                    txt = rng.choice(allowed)
                ops.append(["setwire", txt])
        # aware values against naive allowed/range (and vice versa) are outside the modelled ordering
        if (allowed or rng_) and pyt in ("time", "datetime"):
            ops = [op for op in ops if not (op[0] == "set" and op[1]["t"] in ("time", "datetime") and op[1]["v"][-1] is not None)]
            ops = [op for op in ops if not (op[0] == "setwire" and any(c in op[1][8:] for c in "+-Zz"))]
        return {"kind": "var", "type": type_name, "strict": strict, "allowed": allowed, "range": rng_, "ops": ops}

    def generate(self, rng, tier):
        n = 12000 if tier == "thorough" else 1200
        cases = []
        for i in range(n):
            tn = ALL_TYPES[i % len(ALL_TYPES)] if i < 4 * len(ALL_TYPES) else rng.choice(ALL_TYPES + DATE_TYPES * 3)
            pyt = PYTYPE[tn]
            r = rng.random()
            if r < 0.3:
                cases.append({"kind": "round", "type": tn, "value": enc(self._rand_value(rng, pyt))})
            elif r < 0.38:
                cases.append({"kind": "out", "type": tn, "value": enc(self._wrong_value(rng, pyt))})
            elif r < 0.65:
                cases.append({"kind": "in", "type": tn, "text": self._rand_text(rng, tn)})
            else:
                cases.append(self._var_case(rng, tn))
        # the first and the last representable day in every accepted notation of a zone (an aware value cannot be moved
        # across either end)
        for tn in ("dateTime", "dateTime.tz"):
            for day in ("0001-01-01", "9999-12-31", "0001-01-02", "9999-12-30"):
                for clock in ("T00:00:00", "T03:04:05", "T23:59:59", " 12:00:00"):
                    for z in ("", "Z", "z", "+00:00", "+0000", "-00:00", "+01:00", "-0100", "+14:00", "-12:00"):
                        cases.append({"kind": "in", "type": tn, "text": day + clock + z})
        # clause 5 (iso_spellings): the boundaries of the grammar of C08/Spec.v:spec_iso_in for every date/time type --
        # first/last day, leap days and their neighbours, first/last second, every zone notation up to the largest
        # offsets, and the nearest texts outside the grammar
        for day in ("0001-01-01", "9999-12-31", "2000-02-29", "1900-02-28", "1900-02-29", "2024-02-29", "2023-02-28", "2023-02-29",
                    "2023-04-30", "2023-04-31", "2023-12-31", "0000-01-01", "2023-00-10", "2023-13-01", "2023-01-00", "2023-01-32"):
            cases.append({"kind": "in", "type": "date", "text": day})
        zones = ("", "Z", "z", "+00:00", "+0000", "-00:00", "-0000", "+01:00", "-0100", "+05:30", "-0930", "+23:59", "-23:59",
                 "+2359", "-2359", "+24:00", "-2400", "+00:60", " +0100")
        for tn in ("time", "time.tz"):
            for clock in ("00:00:00", "23:59:59", "12:34:56", "24:00:00", "23:60:00", "23:59:60"):
                for z in zones:
                    cases.append({"kind": "in", "type": tn, "text": clock + z})
        for tn in ("dateTime", "dateTime.tz"):
            for day in ("2000-02-29", "1900-02-29", "2024-02-29", "2023-02-29"):
                for z in zones:
                    cases.append({"kind": "in", "type": tn, "text": day + "T23:59:59" + z})
            for z in ("+23:59", "-23:59", "+2359", "-2359"):
                cases.append({"kind": "in", "type": tn, "text": "0001-01-01T00:00:00" + z})
                cases.append({"kind": "in", "type": tn, "text": "9999-12-31T23:59:59" + z})
        return [c for c in cases if self._printable(c)]

    def _printable(self, case):
        def ok(j):
            if j["t"] in ("time", "datetime") and j["v"][-1] == "frac":
                return False
            return j["t"] != "other"
        if case["kind"] in ("round", "out"):
            return ok(case["value"])
        if case["kind"] == "var":
            return all(op[0] != "set" or ok(op[1]) for op in case["ops"])
        return True

    # ------------------------------------------------------------------ implementation
    def _make_sv(self, case):
        import xml.etree.ElementTree as ET
        from async_upnp_client.client_factory import UpnpFactory
        ns = "urn:schemas-upnp-org:service-1-0"
        el = ET.Element(f"{{{ns}}}stateVariable", {"sendEvents": "no"})
        ET.SubElement(el, f"{{{ns}}}name").text = "V"
        ET.SubElement(el, f"{{{ns}}}dataType").text = case["type"]
        if case.get("allowed"):
            al = ET.SubElement(el, f"{{{ns}}}allowedValueList")
            for a in case["allowed"]:
                ET.SubElement(al, f"{{{ns}}}allowedValue").text = a
        if case.get("range") is not None:
            r = ET.SubElement(el, f"{{{ns}}}allowedValueRange")
            mn, mx = case["range"]
            if mn is not None:
                ET.SubElement(r, f"{{{ns}}}minimum").text = mn
            if mx is not None:
                ET.SubElement(r, f"{{{ns}}}maximum").text = mx
        factory = UpnpFactory(requester=None, non_strict=not case.get("strict", True))
        # the same factory has already built a sibling variable of a related data type with the same declaration
        # (a real service description holds many variables): the variable under test must not inherit anything
        # from it (a validator cached per Python type, a shared schema object, ...)
        sib = SIBLING_TYPE.get(case["type"])
        if sib is not None and case.get("sibling", True):
            import copy
            el2 = copy.deepcopy(el)
            el2.find(f"{{{ns}}}name").text = "W"
            el2.find(f"{{{ns}}}dataType").text = sib
            try:
                factory._create_state_variable(el2)  # noqa: SLF001
            except Exception:  # noqa: BLE001 - the sibling's declaration may be invalid for its own type
                pass
        return factory._create_state_variable(el)  # noqa: SLF001

    def run_impl(self, case):
        from async_upnp_client.client import UpnpStateVariable
        kind = case["kind"]
        if kind in ("out", "in", "round"):
            sv = self._make_sv({"type": case["type"]})
        if kind == "out":
            try:
                return {"out": ["ok", sv.coerce_upnp(dec(case["value"]))]}
            except Exception as e:  # noqa: BLE001
                return {"out": ["err", exn_name(e)]}
        if kind == "in":
            try:
                return {"in": ["ok", enc(sv.coerce_python(case["text"]))]}
            except Exception as e:  # noqa: BLE001
                return {"in": ["err", exn_name(e)]}
        if kind == "round":
            try:
                w = sv.coerce_upnp(dec(case["value"]))
            except Exception as e:  # noqa: BLE001
                return {"w": ["err", exn_name(e)], "back": None}
            try:
                return {"w": ["ok", w], "back": ["ok", enc(sv.coerce_python(w))]}
            except Exception as e:  # noqa: BLE001
                return {"w": ["ok", w], "back": ["err", exn_name(e)]}
        try:
            sv = self._make_sv(case)
        except Exception as e:  # noqa: BLE001
            return {"created": ["err", exn_name(e)], "steps": []}
        steps = []
        for op in case["ops"]:
            try:
                if op[0] == "set":
                    sv.value = dec(op[1])
                else:
                    sv.upnp_value = op[1]
                r = ["ok", None]
            except Exception as e:  # noqa: BLE001
                r = ["err", exn_name(e)]
            steps.append([r, enc(sv.value), sv.value_unchecked is UpnpStateVariable.UPNP_VALUE_ERROR])
        return {"created": ["ok", None], "steps": steps}

    # ------------------------------------------------------------------ printers
    def _oracle(self, case, obs):
        floats, texts = [], []
        is_float_type = PYTYPE.get(case["type"]) == "float"

        def note_val(j):
            if j and j["t"] == "float":
                floats.append(dec(j))
        if case["kind"] in ("out", "round"):
            note_val(case["value"])
        if case["kind"] == "in" and is_float_type:
            texts.append(case["text"])
        if case["kind"] == "var":
            if is_float_type:
                texts += [a for a in case.get("allowed") or []]
                texts += [b for b in (case.get("range") or []) if b]
            for op in case["ops"]:
                if op[0] == "set":
                    note_val(op[1])
                elif is_float_type:
                    texts.append(op[1])
        fstr = []
        seen = set()
        for x in floats:
            k = fl_coq(x)
            if k not in seen:
                seen.add(k)
                fstr.append(f"({k}, {C.c_str(str(x))})")
                if is_float_type:
                    texts.append(str(x))
        fparse = []
        seen = set()
        for s in texts:
            if s in seen:
                continue
            seen.add(s)
            try:
                fparse.append(f"({C.c_str(s)}, Some {fl_coq(float(s))})")
            except ValueError:
                fparse.append(f"({C.c_str(s)}, @None fl)")
        return ("{| o_fstr := " + C.c_list(fstr, "(fl * pystr)") + "; o_fparse := " + C.c_list(fparse, "(pystr * option fl)") + " |}")

    def to_coq(self, case, obs):
        k = case["kind"]
        ty = C.c_str(case["type"])
        if k == "out":
            i = f"IOut {ty} {val_coq(case['value'])}"
            o = f"OOut {res_coq(obs['out'], C.c_str)}"
        elif k == "in":
            i = f"IIn {ty} {C.c_str(case['text'])} {C.c_bool(iso_judged(case['type'], case['text']) is not None)}"
            o = f"OIn {res_coq(obs['in'], val_coq)}"
        elif k == "round":
            i = f"IRound {ty} {val_coq(case['value'])}"
            back = "None" if obs["back"] is None else f"(Some {res_coq(obs['back'], val_coq)})"
            o = f"ORound {res_coq(obs['w'], C.c_str)} {back}"
        else:
            rg = case.get("range")
            mn = C.c_opt(rg[0] if rg else None, C.c_str, "pystr")
            mx = C.c_opt(rg[1] if rg else None, C.c_str, "pystr")
            ops = C.c_list((f"(VSet {val_coq(op[1])})" if op[0] == "set" else f"(VSetWire {C.c_str(op[1])})" for op in case["ops"]), "vop")
            i = (f"IVar {ty} {C.c_bool(case['strict'])} {C.c_list((C.c_str(a) for a in case['allowed']), 'pystr')} "
                 f"{C.c_bool(rg is not None)} {mn} {mx} {ops}")
            steps = C.c_list((f"({res_coq(s[0], lambda _: 'tt')}, {val_coq(s[1])}, {C.c_bool(s[2])})" for s in obs["steps"]),
                             "(res unit * pyval * bool)")
            o = f"OVar {res_coq(obs['created'], lambda _: 'tt')} {steps}"
        return f"({self._oracle(case, obs)}, {i}, {o})"

    # ------------------------------------------------------------------ evidence helpers
    def nontrivial(self, case, obs):
        return C.case_hash([case, obs])

    def describe(self, case, obs):
        return {"case": case, "impl_observation": obs}

    def summarize(self, cases, obss):
        kinds, types, errs = {}, {}, {}
        iso = {"from_wire_cases_of_date_time_types": 0, "judged_by_clause_5": 0, "judged_by_type": {}, "judged_by_zone_notation": {},
               "judged_boundary_days": 0, "judged_distinct_texts": 0}
        iso_texts = set()
        for c, o in zip(cases, obss):
            if c["kind"] == "in" and c["type"] in DATE_TYPES:
                iso["from_wire_cases_of_date_time_types"] += 1
                z = iso_judged(c["type"], c["text"])
                if z is not None:
                    iso["judged_by_clause_5"] += 1
                    iso["judged_by_type"][c["type"]] = iso["judged_by_type"].get(c["type"], 0) + 1
                    iso["judged_by_zone_notation"][z] = iso["judged_by_zone_notation"].get(z, 0) + 1
                    iso["judged_boundary_days"] += c["text"][:10] in ("0001-01-01", "9999-12-31")
                    iso_texts.add((c["type"], c["text"]))
            kinds[c["kind"]] = kinds.get(c["kind"], 0) + 1
            types[c["type"]] = types.get(c["type"], 0) + 1
            for key in ("out", "in", "w", "back", "created"):
                r = o.get(key) if isinstance(o, dict) else None
                if r and r[0] == "err":
                    errs[r[1]] = errs.get(r[1], 0) + 1
            for s in (o.get("steps") or []) if isinstance(o, dict) else []:
                if s[0][0] == "err":
                    errs[s[0][1]] = errs.get(s[0][1], 0) + 1
        iso["judged_distinct_texts"] = len(iso_texts)
        return {"cases_by_kind": kinds, "cases_by_type": types, "errors_by_class": errs, "iso_clause": iso}

    def shrink(self, case):
        if case["kind"] == "var":
            for i in range(len(case["ops"])):
                if len(case["ops"]) > 1:
                    yield {**case, "ops": case["ops"][:i] + case["ops"][i + 1:]}
            if case["allowed"]:
                yield {**case, "allowed": []}
            if case["range"]:
                yield {**case, "range": None}
        if case["kind"] == "in" and len(case["text"]) > 0:
            for i in range(len(case["text"])):
                yield {**case, "text": case["text"][:i] + case["text"][i + 1:]}
