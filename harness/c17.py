"""C17 — HTTP requesters map every transport fault and retry within bounds: harness.

Drives the REAL AiohttpRequester / AiohttpSessionRequester against a scripted fake ClientSession that
answers the k-th call with the k-th outcome of script ++ rest^omega: a response object (whose text()
really decodes the scripted bytes) or a real aiohttp/asyncio exception instance raised at connect,
send, read or decode time.  Observed: every call the session received (method, URL, headers, body) and
what the requester did (returned triple / exception class + status).  Mirrors coq/theories/C17/Model.v."""
from __future__ import annotations

import asyncio
import itertools
import sys
from unittest import mock

from harness import common as C

sys.path.insert(0, str(C.VERIF / "tools"))

PHASES = ["connect", "send", "read", "decode"]
PHASE_COQ = {"connect": "PConnect", "send": "PSend", "read": "PRead", "decode": "PDecode"}

# ---------------------------------------------------------------------------------------------
_TABLES = None


def tables():
    """class universe shared with the Gen/Requester.v generator: name <-> class object"""
    global _TABLES
    if _TABLES is None:
        from gen import requester as G
        classes, names, transport, _parsed = G.tables(C.REPO, strict=False)
        by_name = {names[c]: c for c in classes}
        _TABLES = {"classes": classes, "names": names, "by_name": by_name,
                   "transport": [names[c] for c in transport]}
    return _TABLES


def class_name(e: BaseException) -> str:
    names = tables()["names"]
    for b in type(e).__mro__:
        if b in names:
            return names[b]
    return "BaseException"


def make_exception(name: str, status: int, url: str, method: str):
    """A real instance of the named class, built the way aiohttp builds it."""
    import aiohttp
    from aiohttp import client_exceptions as ce
    from aiohttp.client_reqrep import ConnectionKey
    from multidict import CIMultiDict, CIMultiDictProxy
    from yarl import URL

    cls = tables()["by_name"][name]
    key = ConnectionKey("192.0.2.1", 80, False, None, None, None, None)
    os_err = OSError(111, "Connect call failed")
    if issubclass(cls, ce.ClientResponseError):
        try:
            u = URL(url)
        except Exception:  # noqa: BLE001
            u = URL("http://192.0.2.1/")
        ri = aiohttp.RequestInfo(u, method, CIMultiDictProxy(CIMultiDict()), u)
        # aiohttp raises some response errors without headers (TooManyRedirects; the constructor's default is None)
        hdrs = None if status % 2 else CIMultiDictProxy(CIMultiDict({"X-E": "1"}))
        return cls(ri, (), status=status, message="scripted", headers=hdrs)
    if name == "UnixClientConnectorError":
        return cls("/run/x.sock", key, os_err)
    if issubclass(cls, ce.ClientConnectorCertificateError):
        return cls(key, Exception("certificate verify failed"))
    if issubclass(cls, ce.ClientConnectorError):
        return cls(key, os_err)
    if issubclass(cls, ce.ServerFingerprintMismatch):
        return cls(b"\x00" * 32, b"\x01" * 32, "192.0.2.1", 443)
    if issubclass(cls, ce.ClientOSError):
        return cls(104, "Connection reset by peer")
    if issubclass(cls, ce.InvalidURL):
        return cls(url)
    if issubclass(cls, ce.ServerDisconnectedError):
        return cls()
    if cls is UnicodeDecodeError:
        return UnicodeDecodeError("utf-8", b"\xff", 0, 1, "invalid start byte")
    if issubclass(cls, OSError):
        return cls(5, "scripted")
    for args in ((), ("scripted",)):
        try:
            return cls(*args)
        except TypeError:
            continue
    raise AssertionError(f"cannot instantiate {name}")


# ---------------------------------------------------------------------------------------------
class FakeResponse:
    def __init__(self, sess, outcome, exc):
        from multidict import CIMultiDict, CIMultiDictProxy
        self._sess = sess
        self._exc = exc
        if outcome[0] == "resp":
            _, status, hdrs, body_hex, charset = outcome
            self.status = status
            self.headers = CIMultiDictProxy(CIMultiDict([(k, v) for k, v in hdrs]))
            self._body = bytes.fromhex(body_hex)
            self._charset = charset
            self._fault_at = None
        else:
            self.status = 200
            self.headers = CIMultiDictProxy(CIMultiDict())
            self._body = b""
            self._charset = "utf-8"
            self._fault_at = outcome[1]
        self.reason = "scripted"

    async def read(self):
        await asyncio.sleep(0)
        if self._fault_at == "read":
            raise self._exc
        return self._body

    async def text(self, encoding=None, errors="strict"):
        if self._fault_at == "read":
            raise self._exc
        if self._fault_at == "decode":
            raise self._exc
        return self._body.decode(encoding or self._charset, errors)   # real decoding, real UnicodeDecodeError

    def get_encoding(self):
        return self._charset

    @property
    def ok(self):
        return self.status < 400

    def raise_for_status(self):
        if self.status >= 400:
            from aiohttp import ClientResponseError
            raise ClientResponseError(None, (), status=self.status, message=self.reason, headers=self.headers)

    def release(self):
        return None

    def close(self):
        return None

    async def __aenter__(self):
        return self

    async def __aexit__(self, *a):
        return False


class _RequestCtx:
    def __init__(self, sess, outcome, exc):
        self._sess, self._outcome, self._exc = sess, outcome, exc
        self._resp = None

    async def _go(self):
        o = self._outcome
        if o[0] == "fault" and o[1] == "connect":
            raise self._exc
        await asyncio.sleep(0)
        if o[0] == "fault" and o[1] == "send":
            raise self._exc
        self._resp = FakeResponse(self._sess, o, self._exc)
        return self._resp

    def __await__(self):
        return self._go().__await__()

    async def __aenter__(self):
        return await self._go()

    async def __aexit__(self, *a):
        return False


class FakeSession:
    """Scripted stand-in for aiohttp.ClientSession (also usable as `async with ClientSession() as s`)."""

    def __init__(self, case):
        self._case = case
        self.calls = []
        self.closed = False

    def __call__(self, *a, **kw):       # patched in place of the ClientSession class
        return self

    def request(self, method, url, **kw):
        hdrs = kw.get("headers")
        try:
            items = [[str(k), str(v)] for k, v in dict(hdrs or {}).items()]
        except Exception:  # noqa: BLE001
            items = [["<unreadable headers>", repr(hdrs)[:50]]]
        data = kw.get("data")
        if isinstance(data, (bytes, bytearray)):
            try:
                data = bytes(data).decode("utf-8")
            except UnicodeDecodeError:
                data = repr(data)
        elif data is not None and not isinstance(data, str):
            data = repr(data)
        k = len(self.calls)
        self.calls.append({"method": str(method), "url": str(url), "headers": items, "body": data})
        script = self._case["script"]
        o = script[k] if k < len(script) else self._case["rest"]
        exc = None
        if o[0] == "fault":
            exc = make_exception(o[2], o[3], self._case["url"], self._case["method"])
        return _RequestCtx(self, o, exc)

    def get(self, url, **kw):
        return self.request("GET", url, **kw)

    def post(self, url, **kw):
        return self.request("POST", url, **kw)

    async def close(self):
        self.closed = True

    async def __aenter__(self):
        return self

    async def __aexit__(self, *a):
        self.closed = True
        return False


# ---------------------------------------------------------------------------------------------
def urlparse_oracle(url: str):
    """The answers of the real urllib.parse.urlparse for this URL (the model's oracle)."""
    from urllib.parse import urlparse
    try:
        p = urlparse(url)
        host = p.hostname
    except ValueError:
        return ["raises"]
    try:
        port = p.port
    except ValueError:
        port = "raises"
    return ["ok", host, port]


def expected_oracle(surl):
    """What Spec.expected_up says urlparse answers for render(surl) (premise of host_without_zone)."""
    h = surl["host"]
    low = lambda t: "".join(chr(ord(c) + 32) if "A" <= c <= "Z" else c for c in t)  # noqa: E731
    host = low(h[1]) + ("%" + h[2] if h[0] == "scoped" else "")
    return ["ok", host, surl["port"]]


def norm_outcome(o):
    """What the scripted outcome means at model level: a response whose bytes do not decode is an
    undecodable body, i.e. UnicodeDecodeError at decode time."""
    if o[0] == "resp":
        try:
            text = bytes.fromhex(o[3]).decode(o[4])
        except UnicodeDecodeError:
            return ["fault", "decode", "UnicodeDecodeError", 0]
        return ["success", o[1], o[2], text]
    return o


# structured URLs ------------------------------------------------------------------------------
def host_text(h):
    if h[0] in ("ipv4", "name"):
        return h[1]
    if h[0] == "ipv6":
        return "[" + h[1] + "]"
    return "[" + h[1] + "%" + h[2] + "]"


def render(s):
    return s["scheme"] + "://" + host_text(s["host"]) + (":" + str(s["port"]) if s["port"] is not None else "") + s["path"]


HOSTS = [["ipv4", "192.168.1.1"], ["ipv4", "10.0.0.138"], ["name", "router.local"], ["name", "MyNAS"],
         ["name", "upnp-device.example.com"], ["ipv6", "fe80::1"], ["ipv6", "2001:db8::2:1"], ["ipv6", "FE80::ABCD"],
         ["scoped", "fe80::1", "eth0"], ["scoped", "fe80::a1b2:c3d4", "wlan0"], ["scoped", "FE80::1", "3"],
         ["scoped", "fe80::1", "25eth0"], ["scoped", "fe80::dead:beef", "Ethernet_2"], ["scoped", "fe80::1:2", "en0.5"]]
PORTS = [None, 80, 8080, 49152, 1900, 65535, 1]
PATHS = ["", "/", "/desc.xml", "/ctl/ContentDir?x=1", "/a%20b/c", "/evt#frag", "/MediaRenderer/AVTransport/Control"]
BAD_URLS = ["http://[fe80::1%eth0/x", "http://[fe80::1%eth0]:99999/", "http://[fe80::1%eth0]:abc/",
            "http://192.168.1.1%eth0/", "http://host/%zz", "%", "", "http://[fe80::1%a%b]/",
            "http://user:pw@[fe80::1%eth0]:80/", "//[fe80::1%eth0]/", "http://[FE80::1%Eth0]:080/", "http://[fe80::1%]/",
            "http://[fe80::1%eth0]:/x", "http://192.168.1.1:99999/a%20b", "http://192.168.1.1:99999/plain",
            "http://ex%61mple.com/", "not a url", "http://[fe80::1%eth0]:80/%"]
METHODS = ["GET", "POST", "SUBSCRIBE", "UNSUBSCRIBE", "NOTIFY"]
BODIES = [None, "", "<s:Envelope/>", "café ☃"]
HTTP_HEADERS = [[], [], [["User-Agent", "auc/1"]], [["Accept", "*/*"], ["X-A", "1"]]]
HTTP_HEADERS_HOSTY = [[["Host", "override"]], [["host", "lower"]], [["HOST", "x"], ["User-Agent", "u"]]]
CALLER = [None, None, [], [["SOAPAction", "\"urn:x#Play\""], ["Content-Type", "text/xml; charset=\"utf-8\""]],
          [["NT", "upnp:event"], ["TIMEOUT", "Second-1800"]], [["User-Agent", "caller"], ["X-A", "2"]]]
CALLER_HOSTY = [[["Host", "caller-host"]], [["hOST", "c"]]]
RESP_HEADERS = [[], [["Content-Type", "text/xml; charset=\"utf-8\""]], [["SID", "uuid:1"], ["TIMEOUT", "Second-1800"]],
                [["Set-Cookie", "a"], ["Set-Cookie", "b"], ["content-length", "0"]]]
STATUSES = [200, 200, 200, 204, 404, 412, 500]
RESP_BODIES = [("", "utf-8"), ("3c6f6b2f3e", "utf-8"), ("636166c3a9", "utf-8"), ("e29883", "utf-8"),
               ("636166e9", "latin-1"), ("636166e9", "utf-8"), ("ff", "utf-8"), ("c328", "utf-8"), ("fffe3c00", "utf-16")]
ESTATUS = [0, 400, 404, 412, 500, 503]
OUTSIDE = ["ValueError", "RuntimeError", "OSError", "ConnectionResetError", "CancelledError", "KeyError",
           "LookupError", "AssertionError", "AttributeError", "TypeError", "UpnpConnectionError", "UpnpError"]
# one representative per outcome kind named in the statement (+ the two other ClientError shapes)
KIND_REPS = [["resp", 200, [["Content-Type", "text/xml"]], "3c6f6b2f3e", "utf-8"],
             ["fault", "read", "TimeoutError", 0],
             ["fault", "read", "ServerTimeoutError", 0],
             ["fault", "connect", "ClientConnectorError", 0],
             ["fault", "send", "ServerDisconnectedError", 0],
             ["fault", "connect", "ClientResponseError", 503],
             ["fault", "read", "ClientPayloadError", 0],
             ["resp", 200, [], "ff", "utf-8"]]


class Plugin:
    ID = "C17"
    RUN_MODULE = "C17.Run"
    GEN = ["Requester"]
    CLAUSES = {1: "family", 2: "first_success", 3: "connection_errors", 4: "response_status", 5: "attempts_le_3",
               6: "retry_only_after_connection_failure", 7: "same_request", 8: "host_without_zone"}
    SHARD = 250
    SEARCH_CASES = 3000
    RULE = ("a case = requester kind x request (method, URL, default and caller headers, body) x outcome sequence "
            "script++rest^omega; non-trivial = inside the theorem's domain and at least one fault was consumed or a "
            "scoped-IPv6 URL was used; distinct = distinct (kind, consumed outcome classes/phases, URL, result)")
    TRUSTED = [
        "Coq 8.16.1 kernel + vm_compute (no native_compute)",
        "tools/gen/requester.py: reads the except ladders / retry count from aiohttp.py (ast) and the MROs of the "
        "exception classes from the installed aiohttp/asyncio and async_upnp_client.exceptions (introspection)",
        "harness/c17.py: scripted fake ClientSession (real exception instances; text() really decodes the scripted bytes), "
        "canonicalisation of observations (exception -> nearest class of the generated universe + int status attribute; "
        "header mappings as item multisets; bytes request body decoded as utf-8), Gallina literal printers",
        "Python semantics as modelled: first matching except clause by issubclass, {**a, **b, **c} as ordered update, "
        "str.rindex / slicing / f-string of an int, exception constructors of the library (a response-error class cannot "
        "be built from a bare message)",
        "urllib.parse.urlparse is an oracle: hostname/port recorded from the real function for every case; premise of "
        "host_without_zone: urlparse(render s) = (lower-cased address % zone, port), checked on every structured case",
        "aiohttp: which exception classes a ClientSession can raise = all exception classes defined in "
        "aiohttp.client_exceptions + asyncio.TimeoutError + UnicodeDecodeError (from response.text())",
    ]
    ASSUMPTIONS = ["default and caller headers are dicts (distinct keys)",
                   "host_without_zone: neither header mapping carries its own Host header; zone and address contain no '%'; "
                   "port, when given, is not 0"]
    last_exhaustive = False

    # ------------------------------------------------------------------ generation
    def corpus(self):
        import json
        out = []
        d = C.VERIF / "corpus" / "C17"
        if d.is_dir():
            for p in sorted(d.glob("*.json")):
                data = json.loads(p.read_text())
                out += data if isinstance(data, list) else [data.get("case", data)]
        return out

    @staticmethod
    def _mk(kind, surl=None, url=None, method="POST", http_headers=(), caller=None, body=None, script=(), rest=None):
        return {"kind": kind, "method": method, "url": render(surl) if surl is not None else url, "surl": surl,
                "http_headers": [list(x) for x in http_headers], "caller": None if caller is None else [list(x) for x in caller],
                "body": body, "script": [list(o) for o in script], "rest": list(rest if rest is not None else KIND_REPS[0])}

    def _rand_surl(self, rng, scoped_bias=0.5):
        hosts = [h for h in HOSTS if h[0] == "scoped"] if rng.random() < scoped_bias else HOSTS
        return {"scheme": rng.choice(["http", "http", "https"]), "host": rng.choice(hosts), "port": rng.choice(PORTS),
                "path": rng.choice(PATHS)}

    def _rand_resp(self, rng):
        b, cs = rng.choice(RESP_BODIES)
        return ["resp", rng.choice(STATUSES), rng.choice(RESP_HEADERS), b, cs]

    def _rand_fault(self, rng, outside=0.0):
        t = tables()
        if rng.random() < outside:
            name = rng.choice(OUTSIDE)
        else:
            name = rng.choice(t["transport"])
        st = rng.choice(ESTATUS) if "Response" in name or rng.random() < 0.2 else 0
        cls = t["by_name"][name]
        from aiohttp import ClientResponseError
        if not issubclass(cls, ClientResponseError):
            st = 0
        return ["fault", rng.choice(PHASES), name, st]

    def _rand_outcome(self, rng, p_ok=0.3, outside=0.0):
        return self._rand_resp(rng) if rng.random() < p_ok else self._rand_fault(rng, outside)

    def _rand_case(self, rng, malformed=False):
        kind = rng.choice(["plain", "session", "session", "session_sleep"])
        n = rng.randint(0, 4)
        outside = 0.25 if malformed else 0.0
        script = [self._rand_outcome(rng, 0.3, outside) for _ in range(n)]
        rest = self._rand_outcome(rng, 0.5, outside)
        if malformed and rng.random() < 0.5:
            surl, url = None, rng.choice(BAD_URLS)
        else:
            surl, url = self._rand_surl(rng), None
        hh = rng.choice(HTTP_HEADERS + (HTTP_HEADERS_HOSTY if malformed else []))
        ch = rng.choice(CALLER + (CALLER_HOSTY if malformed else []))
        return self._mk(kind, surl, url, rng.choice(METHODS), hh, ch, rng.choice(BODIES), script, rest)

    def _class_symbols(self):
        """one outcome per transport class (phase rotated) + a success"""
        t = tables()
        from aiohttp import ClientResponseError
        syms = [KIND_REPS[0]]
        for j, name in enumerate(t["transport"]):
            st = [503, 404, 0, 400][j % 4] if issubclass(t["by_name"][name], ClientResponseError) else 0
            syms.append(["fault", PHASES[j % 4], name, st])
        return syms

    def _url_grid(self):
        out = []
        for h in [HOSTS[0], HOSTS[2], HOSTS[5], HOSTS[8], HOSTS[10], HOSTS[11]]:
            for p in (None, 8080):
                out.append({"scheme": "http", "host": h, "port": p, "path": "/desc.xml"})
        return out

    def _exhaustive(self, symbols, maxlen, rng):
        """all sequences of length 1..maxlen over symbols (session requester; the plain one consumes one outcome);
        the request around them rotates through the URL grid and the header variants"""
        grid = self._url_grid()
        j = 0
        for n in range(1, maxlen + 1):
            for seq in itertools.product(symbols, repeat=n):
                surl = grid[j % len(grid)]
                caller = CALLER[(j // len(grid)) % len(CALLER)]
                kind = "session_sleep" if j % 5 == 0 else "session"
                j += 1
                # the last element is `rest`: the sequence continues with it for ever
                yield self._mk(kind, surl, None, METHODS[j % len(METHODS)], HTTP_HEADERS[j % len(HTTP_HEADERS)], caller,
                               BODIES[j % len(BODIES)], seq[:-1], seq[-1])

    def _request_grid(self):
        """every URL shape x port x header variant x requester kind, with short scripts"""
        scripts = [([], KIND_REPS[0]), ([KIND_REPS[4]], KIND_REPS[0]), ([KIND_REPS[3], KIND_REPS[1]], KIND_REPS[5])]
        for h in HOSTS:
            for p in (None, 80, 49152):
                for ci, caller in enumerate([None, CALLER[3], CALLER[5]]):
                    for kind in ("plain", "session", "session_sleep"):
                        surl = {"scheme": "http", "host": h, "port": p, "path": PATHS[(ci + (p or 0)) % len(PATHS)]}
                        sc, rest = scripts[(ci + len(kind)) % len(scripts)]
                        yield self._mk(kind, surl, None, "GET", HTTP_HEADERS[2] if ci else [], caller, None, sc, rest)

    def generate(self, rng, tier):
        cases = []
        cases += list(self._request_grid())                                   # 14*3*3*3 = 378
        for sym in self._class_symbols():                                     # plain requester: every class, every phase
            for ph in PHASES:
                o = list(sym)
                if o[0] == "fault":
                    o[1] = ph
                cases.append(self._mk("plain", self._rand_surl(rng), None, "POST", [], rng.choice(CALLER), "<x/>", [], o))
        for sym in self._class_symbols()[1:]:                                 # session requester: every class, every phase,
            for ph in PHASES:                                                 # first as the only answer, then followed by a success
                o = list(sym)
                o[1] = ph
                cases.append(self._mk("session", self._rand_surl(rng), None, "POST", [], rng.choice(CALLER), "<x/>", [], o))
                cases.append(self._mk("session_sleep", self._rand_surl(rng), None, "GET", [], None, None, [o], KIND_REPS[0]))
        kinds3 = list(self._exhaustive(KIND_REPS, 3, rng))                    # 8+64+512
        if tier == "thorough":
            cases += list(self._exhaustive(KIND_REPS, 4, rng))                # 4680: statement's kinds, length 1..4
            cases += list(self._exhaustive(self._class_symbols(), 3, rng))    # every class, length 1..3
            self.last_exhaustive = True
            n_rand, n_mal = 20000, 6000
        else:
            cases += kinds3
            k4 = list(itertools.product(KIND_REPS, repeat=4))
            for seq in rng.sample(k4, 300):
                cases.append(self._mk("session", self._rand_surl(rng), None, "POST", [], None, None, seq[:-1], seq[-1]))
            syms = self._class_symbols()
            for _ in range(500):
                n = rng.randint(1, 3)
                seq = [rng.choice(syms) for _ in range(n)]
                cases.append(self._mk(rng.choice(["session", "session_sleep"]), self._rand_surl(rng), None, "POST",
                                      rng.choice(HTTP_HEADERS), rng.choice(CALLER), rng.choice(BODIES), seq[:-1], seq[-1]))
            n_rand, n_mal = 500, 300
        for _ in range(n_rand):
            cases.append(self._rand_case(rng))
        for _ in range(n_mal):
            cases.append(self._rand_case(rng, malformed=True))
        return cases

    def mutate_case(self, case, rng):
        out = []
        for kind in ("plain", "session", "session_sleep"):
            c = dict(case)
            c["kind"] = kind
            out.append(c)
        for o in KIND_REPS:
            c = dict(case)
            c["script"] = [list(o)] + case["script"]
            out.append(c)
        return out

    # ------------------------------------------------------------------ implementation
    _loop = None

    def run_impl(self, case):
        import aiohttp
        import async_upnp_client.aiohttp as impl

        if Plugin._loop is None or Plugin._loop.is_closed():
            Plugin._loop = asyncio.new_event_loop()
        loop = Plugin._loop
        sess = FakeSession(case)
        hh = dict(case["http_headers"]) if case["http_headers"] else None
        caller = None if case["caller"] is None else dict(case["caller"])
        patches = []
        if case["kind"] == "plain":
            req = impl.AiohttpRequester(http_headers=hh)
            for target in ("aiohttp.ClientSession", "aiohttp.client.ClientSession"):
                patches.append(mock.patch(target, sess))
            if hasattr(impl, "ClientSession"):
                patches.append(mock.patch.object(impl, "ClientSession", sess))
        else:
            req = impl.AiohttpSessionRequester(sess, with_sleep=(case["kind"] == "session_sleep"), http_headers=hh)

        async def go():
            return await asyncio.wait_for(
                req.async_http_request(case["method"], case["url"], headers=caller, body=case["body"]), 20)

        for p in patches:
            p.start()
        try:
            try:
                r = loop.run_until_complete(go())
            finally:
                for p in patches:
                    p.stop()
            ok = (isinstance(r, tuple) and len(r) == 3 and isinstance(r[0], int) and not isinstance(r[0], bool)
                  and isinstance(r[2], str) and hasattr(r[1], "items"))
            if ok:
                result = ["ret", r[0], [[str(k), str(v)] for k, v in r[1].items()], r[2]]
            else:
                result = ["other", repr(r)[:120]]
        except BaseException as e:  # noqa: BLE001 - the exception IS the observation
            if isinstance(e, (KeyboardInterrupt, SystemExit)):
                raise
            st = getattr(e, "status", None)
            result = ["raise", class_name(e), st if isinstance(st, int) and not isinstance(st, bool) and st >= 0 else None,
                      type(e).__name__]
        up = urlparse_oracle(case["url"])
        obs = {"calls": sess.calls, "result": result, "up": up}
        if case["surl"] is not None and up != expected_oracle(case["surl"]):
            obs["urlparse_premise_differs"] = expected_oracle(case["surl"])
        return obs

    # ------------------------------------------------------------------ implementation-only search (never a proof)
    def _py_failing(self, case, obs):
        """The clauses whose truth is directly visible on the implementation, re-stated in Python over the REAL
        class objects (issubclass).  Only used to search more inputs than Coq can evaluate."""
        from aiohttp import ClientConnectionError, ClientResponseError
        from async_upnp_client.exceptions import (UpnpCommunicationError, UpnpConnectionError, UpnpResponseError)
        by_name = tables()["by_name"]
        n = len(obs["calls"])
        seq = [norm_outcome(o) for o in (case["script"] + [case["rest"]] * 8)[:max(n, 1)]]
        res = obs["result"]
        rcls = by_name.get(res[1]) if res[0] == "raise" else None
        fails = []
        if res[0] == "other" or (res[0] == "raise" and not issubclass(rcls, UpnpCommunicationError)):
            fails.append("family")
        if n == 0:
            fails.append("first_success")
            return fails

        def conn(o):
            return o[0] == "fault" and (issubclass(by_name[o[2]], asyncio.TimeoutError)
                                        or issubclass(by_name[o[2]], ClientConnectionError))
        last = seq[n - 1]
        if last[0] == "success":
            if not (res[0] == "ret" and res[1] == last[1] and sorted(map(tuple, res[2])) == sorted(map(tuple, last[2]))
                    and res[3] == last[3]):
                fails.append("first_success")
        else:
            if res[0] == "ret":
                fails.append("first_success")
            if conn(last) and not (rcls is not None and issubclass(rcls, UpnpConnectionError)):
                fails.append("connection_errors")
            if issubclass(by_name[last[2]], ClientResponseError) and not (
                    rcls is not None and issubclass(rcls, UpnpResponseError) and res[2] == last[3]):
                fails.append("response_status")
        if case["kind"] != "plain" and n > 3:
            fails.append("attempts_le_3")
        if not all(conn(o) for o in seq[:n - 1]):
            fails.append("retry_only_after_connection_failure")
        return fails

    def impl_search(self, rng, tier):
        n = 200000 if tier == "thorough" else 4000
        found, seen = [], set()
        syms = self._class_symbols()
        for j in range(n):
            if j % 2:
                case = self._rand_case(rng)
            else:
                k = rng.randint(1, 4)
                seq = [rng.choice(syms) if rng.random() < 0.8 else self._rand_resp(rng) for _ in range(k)]
                case = self._mk(rng.choice(["plain", "session", "session_sleep"]), self._rand_surl(rng), None,
                                rng.choice(METHODS), rng.choice(HTTP_HEADERS), rng.choice(CALLER), rng.choice(BODIES),
                                seq[:-1], seq[-1])
            obs = self.run_impl(case)
            for cl in self._py_failing(case, obs):
                if cl not in seen:
                    seen.add(cl)
                    found.append((cl, case, obs, f"impl-search case {j}"))
        if not found:
            bad = self._overlap_probe(rng, 300 if tier == "thorough" else 40)
            if bad:
                found.append(bad)
        return found, n

    def _overlap_probe(self, rng, rounds):
        """Two requests overlapping on ONE AiohttpSessionRequester (the model's histories are single requests): each must
        still make at most three attempts, return its own first successful exchange and otherwise raise after exactly
        three connection-level failures.  Implementation-only, never part of a theorem."""
        import async_upnp_client.aiohttp as impl
        from aiohttp import ServerDisconnectedError
        from async_upnp_client.exceptions import UpnpCommunicationError

        class Sess:
            def __init__(self, scripts):
                self.scripts, self.count = scripts, {}

            def request(self, method, url, **kw):            # noqa: ARG002
                k = self.count.get(url, 0)
                self.count[url] = k + 1
                sc = self.scripts[url]
                o = sc[k] if k < len(sc) else "fail"
                sess = self

                class Ctx:
                    async def __aenter__(self_inner):        # noqa: N805
                        await asyncio.sleep(0)
                        if o == "fail":
                            raise ServerDisconnectedError()
                        await asyncio.sleep(0)
                        return FakeResponse(sess, ["resp", 200, [["X-Url", url], ["X-Try", str(k)]], f"{url}#{k}".encode().hex(), "utf-8"], None)

                    async def __aexit__(self_inner, *a):     # noqa: N805
                        return False
                return Ctx()
        if Plugin._loop is None or Plugin._loop.is_closed():
            Plugin._loop = asyncio.new_event_loop()
        loop = Plugin._loop
        for _ in range(rounds):
            urls = ["http://a.example/x", "http://b.example/y"]
            scripts = {u: [rng.choice(["fail", "fail", "ok"]) for _ in range(3)] for u in urls}
            sess = Sess(scripts)
            req = impl.AiohttpSessionRequester(sess, with_sleep=False)

            async def one(u, delay):
                for _ in range(delay):
                    await asyncio.sleep(0)
                try:
                    return ["ret", (await req.async_http_request("GET", u))[2]]
                except UpnpCommunicationError:
                    return ["comm"]
                except BaseException as e:  # noqa: BLE001
                    return ["other", type(e).__name__]

            async def both():
                return await asyncio.wait_for(asyncio.gather(one(urls[0], 0), one(urls[1], rng.randint(0, 5))), 20)
            try:
                res = loop.run_until_complete(both())
            except BaseException as e:  # noqa: BLE001
                res = [["other", type(e).__name__]] * 2
            for u, r in zip(urls, res):
                sc = scripts[u]
                first_ok = sc.index("ok") if "ok" in sc else None
                want = ["ret", f"{u}#{first_ok}"] if first_ok is not None else ["comm"]
                want_tries = first_ok + 1 if first_ok is not None else 3
                if r != want or sess.count.get(u, 0) != want_tries:
                    return ("attempts_le_3", {"overlapping_requests": scripts}, {"url": u, "result": r, "attempts": sess.count.get(u, 0),
                                                                                 "expected": want, "expected_attempts": want_tries},
                            "impl-search: two requests overlapping on one session requester do not each get their own three attempts")
        return None

    # ------------------------------------------------------------------ printers
    @staticmethod
    def _hdrs(items):
        return C.c_list((f"({C.c_str(k)},{C.c_str(v)})" for k, v in items), "(pystr * pystr)")

    def _outcome(self, o):
        o = norm_outcome(o)
        if o[0] == "success":
            return f"Success {C.c_N(o[1])} {self._hdrs(o[2])} {C.c_str(o[3])}"
        return f"Fault {PHASE_COQ[o[1]]} C_{o[2]} {C.c_N(o[3])}"

    @staticmethod
    def _surl(s):
        if s is None:
            return "None"
        h = s["host"]
        hk = {"ipv4": "HIPv4", "name": "HName", "ipv6": "HIPv6", "scoped": "HScoped"}[h[0]]
        host = f"({hk} " + " ".join(C.c_str(x) for x in h[1:]) + ")"
        return f"(Some (Build_surl {C.c_str(s['scheme'])} {host} {C.c_opt(s['port'], C.c_N, 'N')} {C.c_str(s['path'])}))"

    @staticmethod
    def _up(up):
        if up[0] == "raises":
            return "UpRaises"
        port = "PortNone" if up[2] is None else ("PortRaises" if up[2] == "raises" else f"(PortSome {C.c_N(up[2])})")
        return f"(UpOk {C.c_opt(up[1], C.c_str, 'pystr')} {port})"

    def to_coq(self, case, obs):
        kind = {"plain": "Plain", "session": "(Session false)", "session_sleep": "(Session true)"}[case["kind"]]
        ostr = lambda x: C.c_opt(x, C.c_str, "pystr")  # noqa: E731
        url, method = case["url"], case["method"]

        def ref(s, var, orig):
            return var if s == orig else C.c_str(s)

        m = (f"(Build_minput {kind} m u {self._up(obs['up'])} {self._hdrs(case['http_headers'])} "
             f"{C.c_opt(case['caller'], self._hdrs, 'headers')} {ostr(case['body'])} "
             f"{C.c_list((f'({self._outcome(o)})' for o in case['script']), 'outcome')} ({self._outcome(case['rest'])}))")
        calls = C.c_list((f"(Build_call {ref(c['method'], 'm', method)} {ref(c['url'], 'u', url)} "
                          f"{self._hdrs(c['headers'])} {ostr(c['body'])})" for c in obs["calls"]), "call")
        r = obs["result"]
        if r[0] == "ret":
            res = f"(Returned {C.c_N(r[1])} {self._hdrs(r[2])} {C.c_str(r[3])})"
        elif r[0] == "raise":
            res = f"(Raised C_{r[1]} {C.c_opt(r[2], C.c_N, 'N')})"
        else:
            res = "ReturnedOther"
        return (f"(let u := {C.c_str(url)} : pystr in let m := {C.c_str(method)} : pystr in "
                f"(Build_input {m} {self._surl(case['surl'])}, Build_observation {calls} {res}))")

    # ------------------------------------------------------------------ evidence helpers
    def _in_domain(self, case):
        t = tables()["transport"]
        for o in case["script"] + [case["rest"]]:
            o = norm_outcome(o)
            if o[0] == "fault" and o[2] not in t:
                return False
        return case["surl"] is not None

    def nontrivial(self, case, obs):
        if not isinstance(obs, dict) or "calls" not in obs or not self._in_domain(case):
            return None
        n = len(obs["calls"])
        seq = (case["script"] + [case["rest"]] * 5)[:n]
        consumed = tuple((norm_outcome(o)[0],) + tuple(norm_outcome(o)[1:3]) if o[0] == "fault" or norm_outcome(o)[0] == "fault"
                         else ("success", o[1]) for o in seq)
        scoped = case["surl"]["host"][0] == "scoped"
        if not scoped and not any(c[0] == "fault" for c in consumed):
            return None
        return C.case_hash([case["kind"], consumed, case["url"], obs["result"][:3]])

    def describe(self, case, obs):
        return {"case": case, "impl_observation": obs}

    def summarize(self, cases, obss):
        kinds, hosts, results, ncalls, classes, phases = {}, {}, {}, {}, {}, {}
        lens = []
        for c, o in zip(cases, obss):
            kinds[c["kind"]] = kinds.get(c["kind"], 0) + 1
            hk = c["surl"]["host"][0] + ("+port" if c["surl"]["port"] else "") if c["surl"] else "malformed-url"
            hosts[hk] = hosts.get(hk, 0) + 1
            lens.append(len(c["script"]) + 1)
            for x in c["script"] + [c["rest"]]:
                x = norm_outcome(x)
                if x[0] == "fault":
                    classes[x[2]] = classes.get(x[2], 0) + 1
                    phases[x[1]] = phases.get(x[1], 0) + 1
                else:
                    classes["<success>"] = classes.get("<success>", 0) + 1
            if isinstance(o, dict) and "result" in o:
                r = o["result"]
                key = r[0] if r[0] != "raise" else "raise:" + r[1]
                results[key] = results.get(key, 0) + 1
                ncalls[len(o["calls"])] = ncalls.get(len(o["calls"]), 0) + 1
        return {"requester_kind": kinds, "url_shape": hosts, "outcome_sequence_length_min_max": [min(lens), max(lens)] if lens else [],
                "outcomes_by_class": classes, "fault_phase": phases, "impl_result": results, "calls_made": ncalls,
                "with_caller_headers": sum(1 for c in cases if c["caller"]),
                "structured_urls_where_urlparse_differs_from_the_premise": sum(
                    1 for o in obss if isinstance(o, dict) and "urlparse_premise_differs" in o),
                "cases_in_theorem_domain": sum(1 for c in cases if self._in_domain(c)),
                "exhaustive_bound": ("all sequences of length 1..4 over the 8 outcome kinds of the statement and all of length 1..3 over "
                                     "every transport class (session requester); every class x phase (plain requester)")
                if self.last_exhaustive else "all sequences of length 1..3 over the 8 outcome kinds; every class x phase (plain requester)"}

    def shrink(self, case):
        sc = case["script"]
        for i in range(len(sc)):
            c = dict(case)
            c["script"] = sc[:i] + sc[i + 1:]
            yield c
        if sc:
            c = dict(case)
            c["script"], c["rest"] = sc[:-1], sc[-1]
            yield c
        if case["caller"]:
            c = dict(case)
            c["caller"] = None
            yield c
        if case["http_headers"]:
            c = dict(case)
            c["http_headers"] = []
            yield c
        if case["body"]:
            c = dict(case)
            c["body"] = None
            yield c
        if case["surl"] is not None and (case["surl"]["path"] or case["surl"]["port"]):
            c = dict(case)
            s = dict(case["surl"])
            s["path"], s["port"] = "", None
            c["surl"], c["url"] = s, render(s)
            yield c
        for o in (KIND_REPS[0],):
            if case["rest"] != o:
                c = dict(case)
                c["rest"] = list(o)
                yield c
