"""C18 - the description cache fetches once, shares the result, and cannot deadlock: harness.

Drives the REAL DescriptionCache (description_cache.py) on the REAL asyncio event loop, one loop iteration at a
time: an asyncio.SelectorEventLoop with a non-blocking selector whose _run_once() is called explicitly, external
actions (create_task of a lookup, completing a request's future, Task.cancel, uncache_description) performed only
between iterations.  The requester is a scripted fake that records (location, issuing task) and either suspends on
a future or answers on the spot.  After every action the harness records the state of every lookup task, the
request log, the outstanding requests, peek_description_dict of every location and whether loop._ready is empty;
at the end it drains (complete everything outstanding, iterate; repeat) and records the final task states.
Mirrors coq/theories/C18/Model.v 1:1.

case    = {"sched": [action...], "drain": outcome}
action  = ["start", loc, mode] | ["complete", req, outcome] | ["cancel", task] | ["uncache", loc] | ["iter"]
mode    = "s" (requester suspends) | ["imm", outcome] (requester answers without suspending)
outcome = ["resp", status, xml_text] | ["raise", exception_name]
"""
from __future__ import annotations

import asyncio
import itertools
import json
import logging
import selectors
import signal
import threading
from asyncio import events as _aio_events
from pathlib import Path

from harness import common as C

NS = "urn:schemas-upnp-org:device-1-0"


def loc_url(n: int) -> str:
    return f"http://192.168.1.{n + 1}/desc.xml"


# ------------------------------------------------------------------------------------------------ documents
def _dev(fields: str, ns: bool = True, root_attrs: str = "") -> str:
    x = f' xmlns="{NS}"' if ns else ""
    return f"<root{x}{root_attrs}><device>{fields}</device></root>"


DOC_OK = _dev("<UDN>uuid:a</UDN>")
DOC_OK2 = _dev("<UDN>uuid:b</UDN><friendlyName>B</friendlyName>")
GOOD_DOCS = [
    DOC_OK,
    DOC_OK2,
    _dev("<deviceType>urn:schemas-upnp-org:device:T:1</deviceType><UDN>uuid:c</UDN>", ns=False),
    '<?xml version="1.0"?>\n<root xmlns="%s">\n  <specVersion><major>1</major><minor>0</minor></specVersion>\n'
    '  <device>\n    <UDN> uuid:d </UDN>\n    <serviceList>\n      <service><serviceId>s1</serviceId></service>\n'
    '      <service><serviceId>s2</serviceId></service>\n    </serviceList>\n  </device>\n</root>' % NS,
    _dev('<UDN>uuid:e</UDN><iconList><icon><width>1</width></icon></iconList><x a="1" b="2">t</x>'),
    _dev('<UDN>uuid:f</UDN><y a="1"/><z a="1"> </z><e></e><w>  pad  </w>', root_attrs=' configId="7"'),
    '<r:root xmlns:r="%s" xmlns:d="urn:d"><r:device d:k="v"><r:UDN>uuid:g</r:UDN><d:X>1</d:X><r:X>2</r:X></r:device></r:root>' % NS,
    _dev("<UDN>uuid:h</UDN><UDN>uuid:h2</UDN><UDN>uuid:h3</UDN>"),
    _dev("<a><b><c>1</c><c>2</c></b><b>3</b></a>mixed"),
]
ODD_DOCS = [          # well-formed, unusual shape
    "<root/>",
    '<root xmlns="%s"/>' % NS,
    "<root><other>1</other></root>",
    '<root a="1"/>',
    "<foo><device><UDN>uuid:x</UDN></device></foo>",
    "<root><device>only text</device></root>",
    "<root><device/></root>",
    "<root><device><UDN>1</UDN></device><device><UDN>2</UDN></device></root>",
    '<root><device a="1">t</device></root>',
    "<root>text<device><UDN>u</UDN></device></root>",
    "<device><UDN>uuid:x</UDN></device>",
]
RAISING_DOCS = [      # well-formed, but the conversion raises (AttributeError on a str root)
    "<root>abc</root>",
    "<root> </root>",
    '<root xmlns="%s">\n</root>' % NS,
]
BAD_DOCS = [          # not well-formed: DET.ParseError
    '<root xmlns="urn:schemas-upnp-org:device-1-0">INVALIDXML',
    "<root><device></root>",
    "garbage",
    "<root><device><UDN>a</UDN></device></root><extra/>",
    "<root>\x01</root>",
    " ",
    "<a:root><a:device/></a:root>",
]
HOSTILE_DOCS = [      # well-formed, refused by defusedxml: not a ParseError
    '<!DOCTYPE root [<!ENTITY x "y">]><root><device><UDN>&x;</UDN></device></root>',
    '<!DOCTYPE root [<!ENTITY e SYSTEM "file:///etc/passwd">]><root><device/></root>',
]
EMPTY = ""
RAISES = ["ClientError", "ClientConnectionError", "TimeoutError", "UpnpConnectionError", "UpnpResponseError",
          "UpnpConnectionTimeoutError", "UpnpCommunicationError", "RuntimeError", "ValueError", "OSError",
          "KeyError", "UpnpError", "AttributeError"]
RX = {"ClientError": "RxClient", "ClientConnectionError": "RxClient", "UpnpConnectionError": "RxClient",
      "UpnpResponseError": "RxClient", "UpnpCommunicationError": "RxClient", "TimeoutError": "RxTimeout",
      "UpnpConnectionTimeoutError": "RxTimeout"}
BAD_STATUS = [404, 500, 503, 301, 201, 0, 199, 204]

OK = ["resp", 200, DOC_OK]
OK2 = ["resp", 200, DOC_OK2]
FAIL_HTTP = ["resp", 404, DOC_OK]
FAIL_TRANSPORT = ["raise", "UpnpConnectionError"]
FAIL_TIMEOUT = ["raise", "TimeoutError"]
FAIL_OTHER = ["raise", "RuntimeError"]
FAIL_XML = ["resp", 200, BAD_DOCS[0]]
FAIL_EMPTY = ["resp", 200, EMPTY]
HOSTILE = ["resp", 200, HOSTILE_DOCS[0]]
TEXTROOT = ["resp", 200, RAISING_DOCS[0]]

_classify_cache: dict = {}


def classify(text: str):
    """What the real parser makes of the body: ("empty",) | ("bad",) | ("hostile",) | ("doc", tree) with
    tree = [tag, [[k, v]...], text|None, [children]] as ElementTree exposes it (the trusted oracle)."""
    if text in _classify_cache:
        return _classify_cache[text]
    import defusedxml.ElementTree as DET
    if not text:
        r = ("empty",)
    else:
        try:
            el = DET.fromstring(text)
        except DET.ParseError:
            r = ("bad",)
        except Exception:  # noqa: BLE001 - defusedxml refusals (ValueError subclasses)
            r = ("hostile",)
        else:
            def walk(e):
                return [e.tag, [[k, v] for k, v in e.attrib.items()], e.text, [walk(c) for c in e]]
            r = ("doc", walk(el))
    _classify_cache[text] = r
    return r


# ------------------------------------------------------------------------------------------------ step loop
class _NBSelector(selectors.DefaultSelector):
    def select(self, timeout=None):
        return super().select(0)


class _Watchdog(KeyboardInterrupt):
    """raised by SIGVTALRM inside a coroutine section that does not yield (KeyboardInterrupt subclasses are the only
    exceptions Task.__step re-raises out of the loop)"""


def _on_alarm(signum, frame):
    raise _Watchdog()


STEP_SECONDS = 1.0      # CPU seconds of this process (ITIMER_VIRTUAL): machine load cannot trip it


class StepLoop(asyncio.SelectorEventLoop):
    """The real selector event loop; never blocks; time stands still; iterate() = one _run_once()."""

    def __init__(self):
        super().__init__(_NBSelector())

    def time(self):
        return 0.0

    def iterate(self):
        _aio_events._set_running_loop(self)
        self._thread_id = threading.get_ident()
        old = signal.signal(signal.SIGVTALRM, _on_alarm)
        signal.setitimer(signal.ITIMER_VIRTUAL, STEP_SECONDS)
        try:
            self._run_once()
        finally:
            signal.setitimer(signal.ITIMER_VIRTUAL, 0)
            signal.signal(signal.SIGVTALRM, old)
            self._thread_id = None
            _aio_events._set_running_loop(None)


class Plugin:
    ID = "C18"
    RUN_MODULE = "C18.Run"
    GEN = []
    DEPENDS = []
    CLAUSES = {1: "single_flight", 2: "shared_outcome", 3: "cached", 4: "no_deadlock", 5: "clean"}
    SHARD = 150
    SEARCH_CASES = 3000
    RULE = ("schedules of external actions on the real loop, one _run_once() per Iter: every schedule up to a fixed "
            "depth over a small alphabet (thorough), canned multi-lookup scenarios with a cancel / uncache injected at "
            "every position for every lookup, and random schedules over 1-3 locations; non-trivial = at least two "
            "lookups of one location overlap or a cancel/uncache hits a pending lookup; distinct = distinct "
            "(schedule, observations)")
    TRUSTED = [
        "Coq 8.16.1 kernel + vm_compute (no native_compute)",
        "harness/c18.py: StepLoop (asyncio.SelectorEventLoop with a non-blocking selector, _run_once() called explicitly), "
        "the scripted requester, the observers and the Gallina printers",
        "CPython 3.12 asyncio semantics as written in C18/Model.v (FIFO ready queue, an iteration runs the handles ready at "
        "its start, Task.cancel incl. _must_cancel, Event.set/wait, future callbacks) - tied by the correspondence on every run",
        "defusedxml/expat text -> element tree (recorded oracle: the harness ships the tree the real parser produced); "
        "etree_to_dict and _description_xml_to_dict are modelled on that tree (C18/Doc.v) and compared on every document",
        "Python str.strip() = strip of the code points with str.isspace() (list in Doc.v)",
    ]
    ASSUMPTIONS = [
        "single-threaded use: external actions happen only between loop iterations (exact for one asyncio loop)",
        "the requester either suspends on one future per request or answers without suspending; responses are "
        "(status, headers, str body) or an Exception subclass",
    ]
    last_exhaustive = False

    def __init__(self):
        self._loop = None

    # ------------------------------------------------------------------ corpus
    def corpus(self):
        out = []
        d = C.VERIF / "corpus" / "C18"
        for p in sorted(d.glob("*.json")):
            data = json.loads(p.read_text())
            out.append(data["case"] if "case" in data else data)
        return out

    # ------------------------------------------------------------------ generation
    @staticmethod
    def _case(sched, drain=None):
        return {"sched": sched, "drain": drain or OK}

    def _rand_outcome(self, rng):
        k = rng.random()
        if k < 0.40:
            return ["resp", 200, rng.choice(GOOD_DOCS)]
        if k < 0.50:
            return ["resp", 200, rng.choice(ODD_DOCS)]
        if k < 0.55:
            return ["resp", 200, rng.choice(RAISING_DOCS)]
        if k < 0.63:
            return ["resp", 200, rng.choice(BAD_DOCS)]
        if k < 0.68:
            return ["resp", 200, rng.choice(HOSTILE_DOCS)]
        if k < 0.72:
            return ["resp", 200, EMPTY]
        if k < 0.84:
            return ["resp", rng.choice(BAD_STATUS), rng.choice(GOOD_DOCS + [EMPTY])]
        return ["raise", rng.choice(RAISES)]

    def _rand_tree_doc(self, rng):
        tags = ["device", "UDN", "a", "b", "service", "root"]

        def node(depth, tag=None):
            tag = tag or rng.choice(tags)
            attrs = "".join(f' {k}="{rng.choice(["1", "", " v "])}"' for k in rng.sample(["p", "q", "r"], rng.choice([0, 0, 0, 1, 2])))
            text = rng.choice(["", "", "t", " ", " x y ", "\n  ", " z　", "\x85"])
            kids = "" if depth >= 3 else "".join(node(depth + 1) + rng.choice(["", "", " ", "tail"])
                                                 for _ in range(rng.choice([0, 0, 1, 2, 3])))
            if not text and not kids and rng.random() < 0.5:
                return f"<{tag}{attrs}/>"
            return f"<{tag}{attrs}>{text}{kids}</{tag}>"
        ns = rng.choice(["", "", f' xmlns="{NS}"', ' xmlns="urn:x}y"'])
        body = node(0, "root" if rng.random() < 0.85 else None)
        return body.replace("<root", "<root" + ns, 1) if body.startswith("<root") else body

    def _random_case(self, rng, maxlen):
        nloc = rng.choice([1, 1, 1, 2, 3])
        n = rng.randint(4, maxlen)
        sched = []
        nstart = ncomp = 0
        for _ in range(n):
            k = rng.random()
            if nstart == 0 or k < 0.22:
                mode = "s" if rng.random() < 0.85 else ["imm", self._rand_outcome(rng)]
                sched.append(["start", rng.randrange(nloc), mode])
                nstart += 1
            elif k < 0.52:
                sched.append(["iter"])
            elif k < 0.74:
                r = ncomp if rng.random() < 0.6 else rng.randrange(0, nstart + 1)
                o = self._rand_outcome(rng)
                if rng.random() < 0.15:
                    o = ["resp", 200, self._rand_tree_doc(rng)]
                sched.append(["complete", r, o])
                ncomp += 1
            elif k < 0.90:
                sched.append(["cancel", rng.randrange(0, nstart + 1)])
            else:
                sched.append(["uncache", rng.randrange(nloc)])
        sched += [["iter"]] * rng.choice([0, 1, 2, 3])
        return self._case(sched, rng.choice([OK, OK, OK2, FAIL_HTTP, FAIL_TRANSPORT, TEXTROOT]))

    BASES = None

    def _bases(self):
        S, I = (lambda l=0: ["start", l, "s"]), ["iter"]
        Cp = lambda r, o=OK: ["complete", r, o]  # noqa: E731
        return [
            [S(), S(), I, Cp(0), I, I, S(), I],
            [S(), I, S(), S(), I, Cp(0), I, I],
            [S(), I, S(), I, Cp(0, FAIL_HTTP), I, I, S(), I],
            [S(), S(), I, Cp(0, FAIL_XML), I, I, S(), I, I],
            [S(), S(), S(), I, Cp(0, HOSTILE), I, Cp(1, OK2), I, I, I],
            [S(), S(), I, Cp(0, TEXTROOT), I, I, Cp(1), I, I],
            [S(), S(1), S(), S(1), I, Cp(1, OK2), I, Cp(0), I, I],
            [S(), S(), I, Cp(0), I, ["uncache", 0], I, Cp(1, OK2), I, S(), I],
            [S(), I, ["uncache", 0], S(), I, Cp(0), S(), I, Cp(1, OK2), I, I],
            [S(), I, S(), I, ["uncache", 0], S(), I, Cp(1, OK2), I, Cp(0), I, I],
            [["start", 0, ["imm", OK]], S(), I, S(), I],
            [S(), I, ["start", 0, ["imm", FAIL_TRANSPORT]], S(), I, Cp(0), I, I],
            [["start", 0, ["imm", HOSTILE]], S(), S(), I, I, Cp(0), Cp(1), I, I],
            [S(), S(), S(), I, ["cancel", 0], I, I, ["cancel", 1], I, I, Cp(0), Cp(1), Cp(2), I, I],
        ]

    def _injected(self):
        """every base scenario with cancel(t) / uncache(0) inserted at every position"""
        for base in self._bases():
            nt = sum(1 for a in base if a[0] == "start")
            for pos in range(len(base) + 1):
                for t in range(nt):
                    yield self._case(base[:pos] + [["cancel", t]] + base[pos:] + [["iter"], ["iter"]])
                yield self._case(base[:pos] + [["uncache", 0]] + base[pos:] + [["iter"], ["iter"]])

    ALPHA = [["start", 0, "s"], ["iter"], ["complete", "next", OK], ["complete", "next", FAIL_HTTP],
             ["complete", "next", HOSTILE], ["cancel", 0], ["cancel", 1], ["cancel", 2], ["uncache", 0]]

    def _exhaustive(self, depth):
        """all schedules of exactly `depth` actions over ALPHA that begin with a start; "next" = the oldest request not
        yet completed by the schedule; followed by two iterations"""
        for combo in itertools.product(range(len(self.ALPHA)), repeat=depth - 1):
            sched = [["start", 0, "s"]]
            nstart, ncomp, ok = 1, 0, True
            for i in combo:
                a = self.ALPHA[i]
                if a[0] == "start":
                    nstart += 1
                elif a[0] == "cancel" and a[1] >= nstart:
                    ok = False
                    break
                elif a[0] == "complete":
                    if ncomp >= nstart:
                        ok = False
                        break
                    a = ["complete", ncomp, a[2]]
                    ncomp += 1
                sched.append(a)
            if ok:
                yield self._case(sched + [["iter"], ["iter"]])

    def generate(self, rng, tier):
        cases = []
        inj = list(self._injected())
        if tier == "thorough":
            ex = list(self._exhaustive(6))
            self.last_exhaustive = True
            cases += ex + inj
            n_rand, maxlen = 6000, 40
        else:
            ex = list(self._exhaustive(5))
            cases += rng.sample(ex, min(len(ex), 450)) + rng.sample(inj, min(len(inj), 250))
            n_rand, maxlen = 450, 26
        for _ in range(n_rand):
            cases.append(self._random_case(rng, maxlen))
        # every document of the pools through a plain lookup + a second lookup (conversion correspondence)
        docs = GOOD_DOCS + ODD_DOCS + RAISING_DOCS + BAD_DOCS + HOSTILE_DOCS + [EMPTY]
        docs += [self._rand_tree_doc(rng) for _ in range(600 if tier == "thorough" else 120)]
        for d in docs:
            cases.append(self._case([["start", 0, "s"], ["start", 0, "s"], ["iter"], ["complete", 0, ["resp", 200, d]],
                                     ["iter"], ["iter"], ["start", 0, "s"], ["iter"]]))
        return cases

    def mutate_case(self, case, rng):
        out = []
        s = case["sched"]
        for _ in range(20):
            pos = rng.randrange(len(s) + 1)
            a = rng.choice([["iter"], ["cancel", rng.randrange(3)], ["uncache", 0], ["start", 0, "s"]])
            out.append(self._case(s[:pos] + [a] + s[pos:] + [["iter"]], case.get("drain")))
        return out

    # ------------------------------------------------------------------ implementation
    def _get_loop(self):
        if self._loop is None:
            self._loop = StepLoop()
            logging.getLogger("async_upnp_client.description_cache").disabled = True
            logging.getLogger("asyncio").disabled = True
        return self._loop

    @staticmethod
    def _make_exc(name):
        import aiohttp
        from async_upnp_client import exceptions as X
        if name == "TimeoutError":
            return asyncio.TimeoutError()
        if name == "ClientError":
            return aiohttp.ClientError("scripted")
        if name == "ClientConnectionError":
            return aiohttp.ClientConnectionError("scripted")
        if name == "UpnpResponseError":
            return X.UpnpResponseError(status=500)
        if hasattr(X, name):
            return getattr(X, name)("scripted")
        return {"RuntimeError": RuntimeError, "ValueError": ValueError, "OSError": OSError, "KeyError": KeyError,
                "AttributeError": AttributeError}[name]("scripted")

    @staticmethod
    def _enc_val(v):
        if v is None:
            return None
        if isinstance(v, str):
            return v
        if isinstance(v, dict):
            if all(isinstance(k, str) for k in v):
                return {"d": [[k, Plugin._enc_val(x)] for k, x in v.items()]}
            return {"alien": "dict"}
        if isinstance(v, list):
            return {"l": [Plugin._enc_val(x) for x in v]}
        return {"alien": type(v).__name__}

    def run_impl(self, case):
        from async_upnp_client.client import UpnpRequester
        from async_upnp_client.description_cache import DescriptionCache

        loop = self._get_loop()
        assert not loop._ready and not loop._scheduled, "loop not clean"
        sched = case["sched"]
        nl = max([a[1] + 1 for a in sched if a[0] in ("start", "uncache")] or [0])
        urls = {loc_url(n): n for n in range(nl)}
        tasks, modes, reqs = [], {}, []     # reqs: [loc, task index, future|None]
        plugin = self

        def deliver(o):
            if o[0] == "raise":
                raise plugin._make_exc(o[1])
            return o[1], {}, o[2]

        class Requester(UpnpRequester):
            async def async_http_request(self, method, url, headers=None, body=None):
                task = asyncio.current_task()
                ti = next((i for i, t in enumerate(tasks) if t is task), -1)
                mode = modes.get(ti, "s")
                if mode != "s":
                    reqs.append([urls.get(url, -1), ti, None])
                    return deliver(mode[1])
                fut = loop.create_future()
                reqs.append([urls.get(url, -1), ti, fut])
                return deliver(await fut)

        cache = DescriptionCache(Requester())

        def status(t):
            if not t.done():
                return ["p"]
            if t.cancelled():
                return ["canc"]
            e = t.exception()
            if e is not None:
                mro = [c.__name__ for c in type(e).__mro__]
                kind = ("attr" if "AttributeError" in mro else "hostile" if "DefusedXmlException" in mro
                        else "key" if "KeyError" in mro else "other")
                return ["exc", kind, type(e).__name__]
            return ["ret", self._enc_val(t.result())]

        def observe():
            peeks = []
            for n in range(nl):
                found, val = cache.peek_description_dict(loc_url(n))
                peeks.append(["some", self._enc_val(val)] if found else None)
            return {"status": [status(t) for t in tasks],
                    "log": [[r[0], r[1]] for r in reqs],
                    "out": [i for i, r in enumerate(reqs) if r[2] is not None and not r[2].done()],
                    "peek": peeks, "idle": len(loop._ready) == 0}

        def complete(r, o):
            if 0 <= r < len(reqs) and reqs[r][2] is not None and not reqs[r][2].done():
                fut = reqs[r][2]
                # the future resolves to the scripted outcome; `deliver` turns it into a return value / exception
                fut.set_result(o)

        trace = []
        final = None
        try:
            for a in sched:
                k = a[0]
                if k == "start":
                    modes[len(tasks)] = a[2]
                    tasks.append(loop.create_task(cache.async_get_description_dict(loc_url(a[1]))))
                elif k == "complete":
                    complete(a[1], a[2])
                elif k == "cancel":
                    if 0 <= a[1] < len(tasks):
                        tasks[a[1]].cancel()
                elif k == "uncache":
                    cache.uncache_description(loc_url(a[1]))
                elif k == "iter":
                    try:
                        loop.iterate()
                    except _Watchdog:
                        # a section of a coroutine ran for STEP_SECONDS without yielding: record it and stop
                        o = observe()
                        o["div"] = True
                        trace += [o] * (len(sched) - len(trace))
                        final = o["status"]
                        self._loop = None
                        return {"trace": trace, "final": final}
                else:
                    raise AssertionError(k)
                trace.append(observe())
            # drain
            for _ in range(2 * len(tasks) + 2):
                out = [i for i, r in enumerate(reqs) if r[2] is not None and not r[2].done()]
                if not loop._ready and not out:
                    break
                for i in out:
                    complete(i, case["drain"])
                try:
                    loop.iterate()
                except _Watchdog:
                    self._loop = None
                    break
            final = [status(t) for t in tasks]
        finally:
            if self._loop is None:
                return {"trace": trace, "final": final if final is not None else [status(t) for t in tasks]}
            # leave the loop clean for the next case
            for t in tasks:
                if not t.done():
                    t.cancel()
            for _ in range(50):
                if not loop._ready:
                    break
                try:
                    loop.iterate()
                except _Watchdog:
                    break
            for t in tasks:
                if t.done() and not t.cancelled():
                    t.exception()
            if loop._ready or any(not t.done() for t in tasks):
                self._loop = None      # do not reuse a loop that could not be cleaned
        return {"trace": trace, "final": final}

    # ------------------------------------------------------------------ printers
    class _Names:
        """per-case let-bindings for repeated values / documents"""

        def __init__(self):
            self.defs = []
            self.memo = {}

        def bind(self, term):
            if len(term) < 24:
                return term
            if term not in self.memo:
                name = f"x{len(self.defs)}"
                self.memo[term] = name
                self.defs.append((name, term))
            return self.memo[term]

    def _tree(self, t):
        tag, attrs, text, kids = t
        a = C.c_list((f"({C.c_str(k)}, {C.c_str(v)})" for k, v in attrs), "(str * str)")
        tx = C.c_opt(text, C.c_str, "str")
        ch = C.c_list((self._tree(c) for c in kids), "xml")
        return f"(Elem {C.c_str(tag)} {a} {tx} {ch})"

    def _outcome(self, o, nm):
        if o[0] == "raise":
            return f"(ORaise {RX.get(o[1], 'RxOther')})"
        cl = classify(o[2])
        if cl[0] == "doc":
            body = nm.bind(f"(BDoc {self._tree(cl[1])})")
        else:
            body = {"empty": "BEmpty", "bad": "BBad", "hostile": "BHostile"}[cl[0]]
        return f"(OResp {C.c_N(o[1])} {body})"

    def _val(self, v):
        if v is None:
            return "DNone"
        if isinstance(v, str):
            return f"(DStr {C.c_str(v)})"
        if "d" in v:
            return "(DDict " + C.c_list((f"({C.c_str(k)}, {self._val(x)})" for k, x in v["d"]), "(str * dval)") + ")"
        if "l" in v:
            return "(DList " + C.c_list((self._val(x) for x in v["l"]), "dval") + ")"
        return "DAlien"

    def _status(self, s, nm):
        if s[0] == "p":
            return "SPending"
        if s[0] == "canc":
            return "SCancelled"
        if s[0] == "exc":
            return "(SExc " + {"attr": "XAttr", "hostile": "XHostile", "key": "XKey"}.get(s[1], "XOther") + ")"
        return f"(SRet {nm.bind(self._val(s[1]))})"

    def _action(self, a, nm):
        k = a[0]
        if k == "start":
            mode = "MSuspend" if a[2] == "s" else f"(MImmediate {self._outcome(a[2][1], nm)})"
            return f"AStart {a[1]} {mode}"
        if k == "complete":
            return f"AComplete {a[1]} {self._outcome(a[2], nm)}"
        if k == "cancel":
            return f"ACancel {a[1]}"
        if k == "uncache":
            return f"AUncache {a[1]}"
        return "AIter"

    def to_coq(self, case, obs):
        nm = self._Names()
        sched = C.c_list((f"({self._action(a, nm)})" for a in case["sched"]), "act")
        inp = f"mk_in {sched} {self._outcome(case['drain'], nm)}"
        steps = []
        for o in obs["trace"]:
            stl = C.c_list((self._status(s, nm) for s in o["status"]), "stat")
            lg = C.c_list((f"({l}, {t})" for l, t in o["log"]), "(nat * nat)")
            out = C.c_list((str(r) for r in o["out"]), "nat")
            pk = C.c_list(("None" if p is None else f"(Some {nm.bind(self._val(p[1]))})" for p in o["peek"]), "(option dval)")
            steps.append(f"(so {stl} {lg} {out} {pk} {C.c_bool(o['idle'])} {C.c_bool(bool(o.get('div')))})")
        fin = C.c_list((self._status(s, nm) for s in obs["final"]), "stat")
        body = f"({inp}, mk_ob {C.c_list(steps, 'ob')} {fin})"
        for name, term in reversed(nm.defs):
            body = f"(let {name} := {term} in {body})"
        return body

    # ------------------------------------------------------------------ evidence helpers
    def nontrivial(self, case, obs):
        sched = case["sched"]
        starts = [a[1] for a in sched if a[0] == "start"]
        overlap = len(starts) != len(set(starts))
        hit = any(a[0] in ("cancel", "uncache") for a in sched)
        if not (overlap or hit) or not isinstance(obs, dict) or not obs.get("trace"):
            return None
        if not obs["trace"][-1]["log"]:
            return None
        return C.case_hash([case, obs])

    def describe(self, case, obs):
        return {"schedule": case["sched"], "final": obs.get("final") if isinstance(obs, dict) else obs}

    def summarize(self, cases, obss):
        kinds, ends, lens, nreq = {}, {}, [], {}
        for c, o in zip(cases, obss):
            lens.append(len(c["sched"]))
            for a in c["sched"]:
                kinds[a[0]] = kinds.get(a[0], 0) + 1
                if a[0] == "complete":
                    oc = a[2]
                    key = ("raise:" + RX.get(oc[1], "RxOther")) if oc[0] == "raise" else (
                        "http-" + ("200:" + classify(oc[2])[0] if oc[1] == 200 else "error"))
                    kinds[key] = kinds.get(key, 0) + 1
            if isinstance(o, dict) and "final" in o:
                for s in o["final"]:
                    ends[s[0]] = ends.get(s[0], 0) + 1
                n = len(o["trace"][-1]["log"]) if o["trace"] else 0
                nreq[n] = nreq.get(n, 0) + 1
        return {"actions_by_kind": kinds, "final_task_states": ends, "requests_per_case": nreq,
                "schedule_length_min_max": [min(lens), max(lens)] if lens else []}

    def shrink(self, case):
        s = case["sched"]
        for i in range(len(s)):
            if len(s) > 1:
                yield self._case(s[:i] + s[i + 1:], case.get("drain"))
