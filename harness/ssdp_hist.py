"""Shared by C03/C04: histories of SSDP messages driven through a real SsdpListener (both inner
listeners wired by the real async_start, sockets and the datagram endpoint faked in-process), the
scripted clock, observation of the tracker after every operation, and the Coq printers."""
from __future__ import annotations

import asyncio
import datetime as dt
import itertools
from unittest.mock import patch

from harness import common as C

DT_MIN = dt.datetime.min
US = dt.timedelta(microseconds=1)
BASE = dt.datetime(2020, 1, 1, 12, 0, 0)



def _safe(fn, *a):
    """an oracle call made by the harness itself (not by the code under test) must not abort the run: an
    exception reads as "no answer"; if the code under test meets the same exception it is observed there"""
    try:
        return fn(*a)
    except Exception:  # noqa: BLE001
        return None


def us(t: dt.datetime) -> int:
    return (t - DT_MIN) // US


UDNS = ["uuid:dev-1", "uuid:dev-2", "uuid:dev-3", "UUID:Dev-4", "uuid:dev-5", "uuid:dev-6"]
TYPES = ["upnp:rootdevice", "urn:schemas-upnp-org:device:MediaRenderer:1",
         "urn:schemas-upnp-org:service:AVTransport:1", "uuid:dev-1"]
GOOD_LOCS = ["http://192.168.1.10:80/desc.xml", "http://192.168.1.11:8080/d.xml", "http://[fe80::1]:80/desc.xml",
             "https://[2001:db8::5]/d", "http://host.example/desc.xml", "http://10.0.0.7/x",
             # http(s) locations that urlsplit / ip_address cannot digest (no address family can be told)
             "http://[192.168.1.5]:80/d.xml", "http://[fe80::1/desc.xml", "http://host.example:99999/x"]
BAD_LOCS = ["http://127.0.0.1:1234/device.xml", "http://[::1]:1234/device.xml", "http://169.254.12.1:1234/device.xml",
            "http://169.254.200.7/x", "https://169.254.0.9:80/", "https://127.0.0.1/", "http://[::1]/",
            "ftp://192.168.1.10/x", "", "/relative"]
MAX_AGES = [None, "max-age=1", "max-age=5", "max-age=1800", "MAX-AGE = 3", "no-cache", "max-age=0",
            "private, max-age=7", "max-age=99999999999999999999"]
GAPS = [0, 0, 1, 1, 3, 7, -1, 20, 1000]


class FakeTransport:
    def __init__(self, proto):
        self.proto = proto
        self.sent = []

    def get_extra_info(self, _k):
        return None

    def sendto(self, data, addr=None):
        self.sent.append((data, addr))

    def close(self):
        pass

    def get_protocol(self):
        return self.proto


class Clock:
    now_value = BASE


def make_listener(async_cb: bool, target=None):
    """Real SsdpListener started by its own async_start; returns (listener, adv_proto, srch_proto, log, loop)."""
    from async_upnp_client.ssdp_listener import SsdpListener
    loop = asyncio.new_event_loop()
    protos = []

    async def fake_cde(factory, sock=None, **_kw):
        p = factory()
        t = FakeTransport(p)
        p.connection_made(t)
        protos.append(p)
        return t, p

    loop.create_datagram_endpoint = fake_cde
    log = []

    def record(device, dst, source):
        comb = device.combined_headers(dst)
        log.append((device.udn, dst, source.value,
                    [(k, v) for k, v in comb.as_lower_dict().items() if k != "_source"]))

    async def arecord(device, dst, source):
        record(device, dst, source)

    kw = {"async_callback": arecord} if async_cb else {"callback": record}
    if target is not None:
        kw["target"] = target
    listener = SsdpListener(loop=loop, **kw)

    class FakeSock:
        def bind(self, *_a):
            pass

    def fake_sock(source, tgt):
        return FakeSock(), source, tgt

    with patch("async_upnp_client.advertisement.get_ssdp_socket", fake_sock), \
            patch("async_upnp_client.search.get_ssdp_socket", fake_sock):
        loop.run_until_complete(listener.async_start())
    return listener, protos[0], protos[1], log, loop


class FakeDatetime(dt.datetime):
    @classmethod
    def now(cls, tz=None):
        return Clock.now_value


SRC_CODE = {"search_changed": 0, "search_alive": 1, "advertisement_alive": 2, "advertisement_byebye": 3,
            "advertisement_update": 4}


def run_history(case):
    """case = {"async": bool, "ops": [op]}; op = ["msg", via, start, [[name, value]...], t_seconds, addr] | ["purge", t].
    Returns {"ops": [decoded op as fed to the model], "obs": [...], "ipver": {...}}."""
    from async_upnp_client.ssdp import build_ssdp_packet
    from async_upnp_client.ssdp_listener import ip_version_from_location
    listener, adv, srch, log, loop = make_listener(case.get("async", False))
    tracker = listener._device_tracker  # noqa: SLF001
    decoded_ops, obs = [], []
    seen_locs = set()
    try:
        with patch("async_upnp_client.ssdp.datetime", FakeDatetime):
            for op in case["ops"]:
                del log[:]
                captured = []
                if op[0] == "purge":
                    tracker.purge_devices(BASE + dt.timedelta(seconds=op[1]))
                    decoded_ops.append(["purge", us(BASE + dt.timedelta(seconds=op[1]))])
                else:
                    _, via, start, headers, t, addr = op
                    Clock.now_value = BASE + dt.timedelta(seconds=t)
                    proto = adv if via == "adv" else srch
                    orig = proto.on_data

                    def spy(request_line, hdrs, _orig=orig):
                        captured.append(list(hdrs.as_dict().items()))
                        return _orig(request_line, hdrs)

                    proto.on_data = spy
                    raised = None
                    try:
                        data = build_ssdp_packet(start, dict(headers))
                        try:
                            proto.datagram_received(data, tuple(addr))
                        except Exception as exc:  # noqa: BLE001
                            # an exception out of the receive path is an observation, not a harness failure: the message
                            # was handed to the listener (captured) and whatever the tracker did before raising stands;
                            # the clauses then judge the missing notification / the half-done bookkeeping
                            raised = type(exc).__name__
                    finally:
                        proto.on_data = orig
                    # the tracker's bookkeeping is synchronous: what it knows is read off BEFORE the loop runs the callbacks'
                    # tasks ("a byebye removes the device at once"); a removal or refresh deferred behind a task shows here
                    immediate = [[u, us(d.valid_to), [[loc, us(vt)] for loc, vt in _location_expiries(d).items()]]
                                 for u, d in tracker.devices.items()]
                    for _ in range(3):
                        loop.run_until_complete(asyncio.sleep(0))
                    if not captured:
                        decoded_ops.append(["dropped", via])
                    else:
                        # the properties speak of the time a message is *received*: the model and the specification are
                        # given that time, whatever the decoder wrote into _timestamp (a decoder that hands on a stale
                        # timestamp then shows up as a tracker that forgets devices too early)
                        captured[0] = [(k, Clock.now_value if str(k).lower() == "_timestamp" else v) for k, v in captured[0]]
                        decoded_ops.append([via, captured[0]])
                        for k, v in captured[0]:
                            if k.lower() == "location" and isinstance(v, str):
                                seen_locs.add(v)
                note = None
                comb = []
                if log:
                    u, dst, src, comb = log[0]
                    note = [u, dst, SRC_CODE.get(src, 99), len(log)]
                devs = [[u, us(d.valid_to), [[loc, us(vt)] for loc, vt in _location_expiries(d).items()]]
                        for u, d in tracker.devices.items()]
                if op[0] != "purge" and immediate != devs:
                    devs = immediate          # the two must agree; when they do not, the synchronous view is the one judged
                for _, _, locs in devs:
                    for loc, _ in locs:
                        seen_locs.add(loc)
                nv = tracker.next_valid_to
                obs.append({"note": note, "combined": comb, "devs": devs, "next": None if nv is None else us(nv)})
                if op[0] != "purge" and raised:
                    obs[-1]["raised"] = raised
    finally:
        loop.close()
    return {"ops": decoded_ops, "obs": obs, "ipver": {loc: _safe(ip_version_from_location, loc) for loc in sorted(seen_locs)}}


def _location_expiries(dev):
    """location -> expiry of one SsdpDevice.  The public API only shows the locations (`dev.locations`); the expiries
    live in a private dict whose name is not part of the contract, so it is found by shape: the instance attribute that
    is a dict with exactly the public locations as keys and datetimes as values."""
    import datetime as _dt
    keys = list(dev.locations)
    priv = getattr(dev, "_locations", None)
    if isinstance(priv, dict) and list(priv) == keys:
        return priv
    for v in vars(dev).values():
        if isinstance(v, dict) and list(v) == keys and all(isinstance(x, _dt.datetime) for x in v.values()):
            return v
    raise RuntimeError("harness: cannot find the per-location expiry map of SsdpDevice (public `locations`: %r)" % keys)


# ---------------------------------------------------------------------- printers
class Tokens:
    """Per-case interning: every distinct string becomes one `let sN : pystr := ... in` binding (literal
    elaboration, not evaluation, dominates the cost of a case file)."""

    def __init__(self):
        self.ids = {}
        self.strs = {}

    def s(self, text: str) -> str:
        if text == "":
            return "(@nil N)"
        if text not in self.strs:
            self.strs[text] = f"s{len(self.strs)}"
        return self.strs[text]

    def lets(self) -> str:
        return "".join(f"let {name} : pystr := {C.c_str(text)} in " for text, name in self.strs.items())

    # goes into the header of every generated case file of the plugins that use `wrap`
    HEADER = "Definition tok_nth (n : N) (l : list (list N)) : list N := nth (N.to_nat n) l []."

    def wrap(self, body: str) -> str:
        """The bindings for the interned strings, then the body.  A string used only once is written in place.  Few
        shared strings become nested `let`s; many become ONE list looked up by index (`tok_nth`, see HEADER): a `let`
        per string makes the nesting as deep as the number of distinct strings, and Coq's cost grows quadratically
        with that depth (measured: 1200 lets 42 s, the same strings in one table 4 s)."""
        import re
        from collections import Counter
        uses = Counter(re.findall(r"\bs\d+\b", body))
        by_name = {name: text for text, name in self.strs.items()}
        inline = {n for n in by_name if uses.get(n, 0) <= 1}
        shared = [n for n in by_name if n not in inline]
        if len(shared) <= 80:
            body = re.sub(r"\bs\d+\b", lambda m: C.c_str(by_name[m.group(0)]) if m.group(0) in inline else m.group(0), body)
            lets = "".join(f"let {name} : pystr := {C.c_str(by_name[name])} in " for name in shared)
            return lets + body
        index = {n: i for i, n in enumerate(shared)}
        body = re.sub(r"\bs\d+\b", lambda m: C.c_str(by_name[m.group(0)]) if m.group(0) in inline
                      else f"(tok_nth {index[m.group(0)]}%N tok_tbl)", body)
        table = "[" + "; ".join(C.c_str(by_name[n]) for n in shared) + "]"
        return f"let tok_tbl : list (list N) := {table} in " + body

    def hval(self, v) -> str:
        if isinstance(v, str):
            return f"(HStr {self.s(v)})"
        if isinstance(v, dt.datetime):
            return f"(HTime {c_time(us(v))})"
        key = repr(v)
        if key not in self.ids:
            self.ids[key] = len(self.ids)
        return f"(HTok {self.ids[key]}%N)"


BASE_US = us(BASE)


def c_time(v: int) -> str:
    """microseconds since datetime.min, printed relative to the scripted clock's base when whole seconds"""
    d = v - BASE_US
    if d % 1000000 == 0 and abs(d) < 10**15:
        return f"(TS {C.c_Z(d // 1000000)})"
    return C.c_Z(v)


def items_coq(items, tok: Tokens) -> str:
    return C.c_list((f"({tok.s(k)}, {tok.hval(v)})" for k, v in items), "(pystr * hval)")


def to_coq(case, result) -> str:
    tok = Tokens()
    ops = []
    for op in result["ops"]:
        if op[0] == "purge":
            ops.append(f"(Purge {c_time(op[1])})")
        elif op[0] == "dropped":
            ops.append(f"(Purge {C.c_Z(0)})")   # never happens for the generators of C03/C04 (asserted by run_impl)
        else:
            ops.append(f"({'Adv' if op[0] == 'adv' else 'Srch'} {items_coq(op[1], tok)})")
    ipv = C.c_list((f"({tok.s(k)}, {C.c_opt(v, C.c_N, 'N')})" for k, v in result["ipver"].items()), "(pystr * option N)")
    obs = []
    for o in result["obs"]:
        note = "None" if o["note"] is None else f"(Some ({tok.s(o['note'][0])}, {tok.s(o['note'][1])}, {C.c_N(o['note'][2])}))"
        devs = C.c_list((f"({tok.s(u)}, {c_time(vt)}, " + C.c_list((f"({tok.s(l)}, {c_time(lv)})" for l, lv in locs), "(pystr * Z)") + ")"
                         for u, vt, locs in o["devs"]), "dev_obs")
        nxt = C.c_opt(o["next"], c_time, "Z")
        obs.append(f"{{| o_note := {note}; o_combined := {items_coq(o['combined'], tok)}; o_devs := {devs}; o_next := {nxt} |}}")
    return "(" + tok.wrap(f"((@nil N, {ipv}, {C.c_list(ops, 'op')}) : input, {C.c_list(obs, 'obs')} : observation)") + ")"


# ---------------------------------------------------------------------- generators
def gen_msg(rng, t, kind=None, udns=UDNS, small=False):
    kind = kind or rng.choice(["search", "search", "alive", "alive", "update", "byebye", "invalid", "discover"])
    udn = rng.choice(udns)
    typ = rng.choice(TYPES[:2] if small else TYPES)
    loc = rng.choice(GOOD_LOCS[:3] if small else GOOD_LOCS)
    headers = []
    cc = rng.choice(MAX_AGES[:4] if small else MAX_AGES)
    spell = (lambda s: s) if small or rng.random() < 0.6 else rng.choice([str.lower, str.title, str.upper])
    if cc is not None:
        headers.append([spell("CACHE-CONTROL"), cc])
    usn = udn + ("" if typ.startswith("uuid:") else "::" + typ)
    extra = [["BOOTID.UPNP.ORG", str(rng.choice([1, 1, 1, 2]))], ["CONFIGID.UPNP.ORG", str(rng.choice([1, 1, 7]))],
             ["SERVER", rng.choice(["Linux UPnP/1.0 a/1", "Linux UPnP/1.0 a/2"])], ["DATE", f"d{t}"],
             ["X-Custom", rng.choice(["a", "a", "b"])]]
    extra = [e for e in extra if rng.random() < (0.5 if not small else 0.3)]
    if kind == "invalid":
        flaw = rng.choice(["nousn", "baduuid", "notype", "badloc", "noloc", "nonts_adv", "weird_nts"])
        via = rng.choice(["adv", "srch"])
        if flaw == "baduuid":
            usn = "notuuid:" + udn[5:]
        if flaw == "badloc":
            loc = rng.choice(BAD_LOCS)
        if via == "srch":
            start = "HTTP/1.1 200 OK"
            if flaw != "notype":
                headers.append([spell("ST"), typ])
        else:
            start = "NOTIFY * HTTP/1.1"
            if flaw != "notype":
                headers.append([spell("NT"), typ])
            if flaw == "weird_nts":
                # not one of the three sub-types - also when it only differs from one in letter case
                headers.append(["NTS", rng.choice(["ssdp:weird", "SSDP:ALIVE", "ssdp:Update", "SSDP:UPDATE", "Ssdp:ByeBye", "ssdp:alive "])])
            elif flaw != "nonts_adv":
                headers.append(["NTS", rng.choice(["ssdp:alive", "ssdp:update", "ssdp:byebye"])])
        if flaw != "nousn":
            headers.append([spell("USN"), usn])
        if flaw != "noloc":
            headers.append([spell("LOCATION"), loc])
    elif kind == "discover":
        via = rng.choice(["adv", "srch"])
        start = "M-SEARCH * HTTP/1.1"
        headers += [["HOST", "239.255.255.250:1900"], ["MAN", '"ssdp:discover"'], ["MX", "1"], ["ST", typ]]
    elif kind == "search":
        via, start = "srch", "HTTP/1.1 200 OK"
        headers += [[spell("ST"), typ], [spell("USN"), usn], [spell("LOCATION"), loc], ["EXT", ""]]
    else:
        via, start = "adv", "NOTIFY * HTTP/1.1"
        headers += [["HOST", "239.255.255.250:1900"], [spell("NT"), typ], ["NTS", "ssdp:" + kind], [spell("USN"), usn]]
        if kind != "byebye" or rng.random() < 0.5:
            headers.append([spell("LOCATION"), loc])
    headers += extra
    rng.shuffle(headers)
    addr = rng.choice([["192.168.1.10", 1900], ["192.168.1.11", 50000], ["fe80::1", 1900, 0, 3], ["2001:db8::5", 1900, 0, 0]])
    return ["msg", via, start, headers, t, addr]


def gen_history(rng, depth, small=False, udns=UDNS):
    t = 0
    ops = []
    for _ in range(depth):
        t = max(-5, t + rng.choice(GAPS[:6] if small else GAPS))
        if rng.random() < 0.12:
            ops.append(["purge", t + rng.choice([0, 0, 1, -1, 5])])
        else:
            ops.append(gen_msg(rng, t, udns=udns, small=small))
    return {"async": rng.random() < 0.3, "ops": ops}


def gen_refresh_history(rng):
    """One device re-announcing the same type and location again and again, each time well inside the max-age of the
    previous sighting but more than one max-age after the one before it: a sighting has to refresh the expiry of a
    location that is already known (otherwise the lazy purge drops it and the next message reads as a change)."""
    u, typ, loc = rng.choice(UDNS[:3]), rng.choice(TYPES[:2]), rng.choice(GOOD_LOCS[:3])
    m = rng.choice([5, 7, 30, 1800])
    usn = u + ("" if typ.startswith("uuid:") else "::" + typ)
    addr = rng.choice([["192.168.1.10", 1900], ["fe80::1", 1900, 0, 3]])
    same_bytes = rng.random() < 0.4          # byte-identical repeats (what a decode cache keys on)
    t, ops = 0, []
    for i in range(rng.randint(3, 7)):
        via = rng.choice(["srch", "adv"]) if not same_bytes else "adv"
        if via == "srch":
            start, hs = "HTTP/1.1 200 OK", [["CACHE-CONTROL", f"max-age={m}"], ["ST", typ], ["USN", usn], ["LOCATION", loc], ["EXT", ""]]
        else:
            start, hs = "NOTIFY * HTTP/1.1", [["HOST", "239.255.255.250:1900"], ["CACHE-CONTROL", f"max-age={m}"], ["NT", typ],
                                              ["NTS", "ssdp:alive"], ["USN", usn], ["LOCATION", loc]]
        if not same_bytes and rng.random() < 0.3:
            hs.append(["BOOTID.UPNP.ORG", str(rng.choice([1, 1, 2]))])
        ops.append(["msg", via, start, hs, t, addr])
        if rng.random() < 0.15:
            ops.append(["purge", t + rng.choice([0, 1, m - 1])])
        t += rng.choice([m - 1, m - 2, m // 2 + 1, m])
    return {"async": rng.random() < 0.3, "ops": ops}


def exhaustive_small(depth):
    """All histories of `depth` messages over a small alphabet (2 devices, 1-2 types, 2 locations,
    max-age {absent, 1, 5}, gaps {0, 1, 7, -1}, kinds {search, alive, byebye, purge})."""
    u = UDNS[:2]
    alphabet = []
    for kind in ("search", "alive", "byebye"):
        for udn in u:
            for cc in (None, "max-age=1", "max-age=5"):
                for loc in GOOD_LOCS[:2]:
                    if kind == "byebye" and (cc is not None or loc != GOOD_LOCS[0]):
                        continue
                    alphabet.append((kind, udn, cc, loc))
    alphabet.append(("purge", None, None, None))
    gaps = (0, 1, 7, -1)
    for seq in itertools.product(alphabet, repeat=depth):
        for gs in itertools.product(gaps, repeat=depth):
            t = 0
            ops = []
            for (kind, udn, cc, loc), g in zip(seq, gs):
                t += g
                if kind == "purge":
                    ops.append(["purge", t])
                    continue
                typ = TYPES[0]
                headers = ([["CACHE-CONTROL", cc]] if cc else []) + [["USN", udn + "::" + typ], ["LOCATION", loc]]
                if kind == "search":
                    ops.append(["msg", "srch", "HTTP/1.1 200 OK", headers + [["ST", typ]], t, ["192.168.1.10", 1900]])
                else:
                    ops.append(["msg", "adv", "NOTIFY * HTTP/1.1", headers + [["NT", typ], ["NTS", "ssdp:" + kind]], t,
                                ["192.168.1.10", 1900]])
            yield {"async": False, "ops": ops}
