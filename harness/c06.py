"""C06 — SOAP requests say exactly what the caller asked.  Harness: builds real UpnpDevice/UpnpService/
UpnpAction objects through UpnpFactory, drives UpnpAction.async_call against a recording requester and
observes (method, url, headers, body) as the requester received them; the body is decoded by the real
expat.  Mirrors coq/theories/C06/{Model,Spec,Run}.v."""
from __future__ import annotations

import asyncio
import json
import urllib.parse
import xml.etree.ElementTree as ET

from harness import common as C
from harness.c08 import ALL_TYPES, DATE_TYPES, FLOAT_TYPES, INT_TYPES, PYTYPE, STR_TYPES, dec, enc, fl_coq, val_coq
from harness.c08 import Plugin as C08Plugin

NS_SVC = "urn:schemas-upnp-org:service-1-0"
XML_WS = " \t\n\r"

SERVICE_TYPES = [
    "urn:schemas-upnp-org:service:RenderingControl:1", "urn:schemas-upnp-org:service:AVTransport:1",
    "urn:schemas-upnp-org:service:WANIPConnection:2", "urn:av-openhome-org:service:Volume:4", "x",
    "urn:x:service:it's>odd:1", "urn:é-ü:service:漢:1", "urn: spaced :1",
]
BAD_SERVICE_TYPES = ['urn:x:service:"q":1', "urn:x:service:<lt>:1", "urn:x:service:a&b:1", "urn:x\tservice:1", ""]
ACTION_NAMES = ["SetVolume", "GetInfo", "X", "a-b.c_d", "_x", "Play2", "SetAVTransportURI"]
BAD_ACTION_NAMES = ["1x", "a b", "a<b", "-a", "a>b"]
ARG_NAMES = ["InstanceID", "Channel", "DesiredVolume", "CurrentURI", "CurrentURIMetaData", "Speed", "A", "b", "_c",
             "New-Value", "x.y", "Target", "Unit", "NewEnabled", "When", "At"]
BAD_ARG_NAMES = ["9a", "a b", "a&b"]
BASES = ["http://192.168.1.5:8080/desc.xml", "http://[fe80::1]:49152/a/b/desc.xml", "https://user:pw@host.example/rootDesc.xml",
         "http://host", "http://HOST.local:80/x/y/z.xml?q=1"]
CTRLS = ["/ctl", "ctl/x", "/upnp/control/RenderingControl1", "http://other:99/c?x=1#f", "//h2:7/p", "", "../up/ctl", "/a b/é"]
STR_ALPHABET = "ab Z<>&\"'\t\n\r]]>;#&amp;Éß漢🎵%_0-9"


# ------------------------------------------------------------------------------------------ implementation side
class _Requester:
    def __init__(self, st, action):
        self.calls = []
        self._body = (f'<?xml version="1.0"?><s:Envelope xmlns:s="http://schemas.xmlsoap.org/soap/envelope/"><s:Body>'
                      f'<u:R xmlns:u="urn:r"/></s:Body></s:Envelope>')

    async def async_http_request(self, method, url, headers=None, body=None):
        self.calls.append((method, url, list((headers or {}).items()), body))
        return 200, {}, self._body


def _sv_el(i, arg):
    el = ET.Element(f"{{{NS_SVC}}}stateVariable", {"sendEvents": "no"})
    ET.SubElement(el, f"{{{NS_SVC}}}name").text = f"V{i}"
    ET.SubElement(el, f"{{{NS_SVC}}}dataType").text = arg["type"]
    if arg.get("allowed"):
        al = ET.SubElement(el, f"{{{NS_SVC}}}allowedValueList")
        for a in arg["allowed"]:
            ET.SubElement(al, f"{{{NS_SVC}}}allowedValue").text = a
    if arg.get("range") is not None:
        r = ET.SubElement(el, f"{{{NS_SVC}}}allowedValueRange")
        mn, mx = arg["range"]
        if mn is not None:
            ET.SubElement(r, f"{{{NS_SVC}}}minimum").text = mn
        if mx is not None:
            ET.SubElement(r, f"{{{NS_SVC}}}maximum").text = mx
    return el


def build_action(case):
    """-> (action, requester); raises whatever the factory raises."""
    from async_upnp_client.client import UpnpDevice, UpnpService
    from async_upnp_client.client_factory import UpnpFactory
    from async_upnp_client.const import DeviceInfo, ServiceInfo
    req = _Requester(case["st"], case["action"])
    factory = UpnpFactory(req, non_strict=not case["strict"])
    svs = []
    ael = ET.Element(f"{{{NS_SVC}}}action")
    ET.SubElement(ael, f"{{{NS_SVC}}}name").text = case["action"]
    al = ET.SubElement(ael, f"{{{NS_SVC}}}argumentList")
    for i, arg in enumerate(case["args"]):
        svs.append(factory._create_state_variable(_sv_el(i, arg)))  # noqa: SLF001
        a = ET.SubElement(al, f"{{{NS_SVC}}}argument")
        ET.SubElement(a, f"{{{NS_SVC}}}name").text = arg["name"]
        ET.SubElement(a, f"{{{NS_SVC}}}direction").text = arg["dir"]
        ET.SubElement(a, f"{{{NS_SVC}}}relatedStateVariable").text = f"V{i}"
    action = factory._create_action(ael, svs)  # noqa: SLF001
    svc = UpnpService(req, ServiceInfo("urn:upnp-org:serviceId:S", case["st"], case["ctrl"], "/evt", "/scpd.xml", ET.Element("service")),
                      svs, [action])

    def mkdev(base, services):
        return UpnpDevice(req, DeviceInfo("urn:schemas-upnp-org:device:D:1", "n", "m", None, None, "mn", None, None, None, "uuid:d",
                                          None, None, base, [], ET.Element("device")), services, [])
    dev = mkdev(case.get("prime_base") or case["base"], [svc])
    action._verif_move = (lambda: dev.reinit(mkdev(case["base"], []))) if case.get("prime_base") else (lambda: None)  # noqa: SLF001
    action._verif_device = dev  # noqa: SLF001
    return action, req


NS_DEV = "urn:schemas-upnp-org:device-1-0"


class _DocRequester(_Requester):
    """serves the description documents on GET and records everything else like _Requester"""

    def __init__(self, st, action, docs):
        super().__init__(st, action)
        self._docs = docs

    async def async_http_request(self, method, url, headers=None, body=None):
        if method == "GET":
            doc = self._docs.get(url)
            return (200, {}, doc) if doc is not None else (404, {}, "")
        return await super().async_http_request(method, url, headers, body)


def _plain_for_xml(text):
    # texts an XML document hands back unchanged (no white-space normalisation, nothing the factory strips)
    return isinstance(text, str) and text == text.strip() and text != "" and not any(ch in text for ch in "\r\n\t\x00") \
        and all(ord(ch) >= 32 for ch in text)


def build_action_via_documents(case):
    """The same action, but built the way a user gets it: UpnpFactory.async_create_device over a description document and an
    SCPD document served by the requester - optionally with a SIBLING service declared after it in the same device that
    names the SAME SCPD document under another service type and control URL.  What a call sends must not depend on that."""
    from async_upnp_client.client_factory import UpnpFactory
    sib = case.get("sibling")
    texts = [case["st"], case["action"], case["ctrl"]] + [a["name"] for a in case["args"]] + ([sib["st"], sib["ctrl"]] if sib else [])
    # declaration texts too: a document cannot tell an empty element from an absent text (ElementTree reads both as None),
    # and the directly built elements above carry "" - such cases stay on the direct path
    for a in case["args"]:
        texts += [a["type"]] + list(a.get("allowed") or []) + [b for b in (a.get("range") or []) if b is not None]
    if not all(_plain_for_xml(t) for t in texts) or len({a["name"] for a in case["args"]}) != len(case["args"]):
        raise ValueError("not expressible as documents")
    scpd = ET.Element(f"{{{NS_SVC}}}scpd")
    al = ET.SubElement(scpd, f"{{{NS_SVC}}}actionList")
    ael = ET.SubElement(al, f"{{{NS_SVC}}}action")
    ET.SubElement(ael, f"{{{NS_SVC}}}name").text = case["action"]
    argl = ET.SubElement(ael, f"{{{NS_SVC}}}argumentList")
    table = ET.SubElement(scpd, f"{{{NS_SVC}}}serviceStateTable")
    for i, arg in enumerate(case["args"]):
        table.append(_sv_el(i, arg))
        a = ET.SubElement(argl, f"{{{NS_SVC}}}argument")
        ET.SubElement(a, f"{{{NS_SVC}}}name").text = arg["name"]
        ET.SubElement(a, f"{{{NS_SVC}}}direction").text = arg["dir"]
        ET.SubElement(a, f"{{{NS_SVC}}}relatedStateVariable").text = f"V{i}"
    root = ET.Element(f"{{{NS_DEV}}}root")
    dev = ET.SubElement(root, f"{{{NS_DEV}}}device")
    for tag, text in (("deviceType", "urn:schemas-upnp-org:device:D:1"), ("friendlyName", "n"), ("manufacturer", "m"),
                      ("modelName", "mn"), ("UDN", "uuid:d")):
        ET.SubElement(dev, f"{{{NS_DEV}}}{tag}").text = text
    sl = ET.SubElement(dev, f"{{{NS_DEV}}}serviceList")
    for k, (st, ctrl) in enumerate([(case["st"], case["ctrl"])] + ([(sib["st"], sib["ctrl"])] if sib else [])):
        sv = ET.SubElement(sl, f"{{{NS_DEV}}}service")
        for tag, text in (("serviceType", st), ("serviceId", f"urn:upnp-org:serviceId:S{k}"), ("controlURL", ctrl),
                          ("eventSubURL", f"/evt{k}"), ("SCPDURL", "/scpd.xml")):
            ET.SubElement(sv, f"{{{NS_DEV}}}{tag}").text = text
    docs = {case["base"]: ET.tostring(root, encoding="unicode"),
            urllib.parse.urljoin(case["base"], "/scpd.xml"): ET.tostring(scpd, encoding="unicode")}
    req = _DocRequester(case["st"], case["action"], docs)
    factory = UpnpFactory(req, non_strict=not case["strict"])
    device = _loop().run_until_complete(factory.async_create_device(case["base"]))
    action = device.service(case["st"]).action(case["action"])
    action._verif_move = lambda: None  # noqa: SLF001
    action._verif_device = device  # noqa: SLF001
    return action, req


def canon_tree(el):
    tag = el.tag
    ns, local = (tag[1:].split("}", 1) if tag.startswith("{") else ("", tag))
    attrs = []
    for k, v in el.attrib.items():
        ans, al = (k[1:].split("}", 1) if k.startswith("{") else ("", k))
        attrs.append([ans, al, v])
    kids = list(el)
    text = (el.text or "") + "".join(k.tail or "" for k in kids)
    if kids and all(ch in XML_WS for ch in text):
        text = ""
    return [ns, local, attrs, text, [canon_tree(k) for k in kids]]


def expat_tree(body):
    try:
        return canon_tree(ET.fromstring(body))
    except (ET.ParseError, UnicodeError, ValueError):
        return None


def exn_name(e):
    from async_upnp_client.exceptions import UpnpError, UpnpValueError
    if isinstance(e, UpnpValueError):
        return "UpnpValueError"
    if isinstance(e, UpnpError):
        return "UpnpError"
    for n, cls in (("IndexError", IndexError), ("ValueError", ValueError), ("TypeError", TypeError), ("AttributeError", AttributeError)):
        if isinstance(e, cls):
            return n
    return "Other:" + type(e).__name__


_LOOP = None


def _loop():
    global _LOOP
    if _LOOP is None or _LOOP.is_closed():
        _LOOP = asyncio.new_event_loop()
    return _LOOP


def oracle_url(case):
    url = urllib.parse.urljoin(case["base"], case["ctrl"])
    return url, urllib.parse.urlparse(url).netloc


class Plugin:
    ID = "C06"
    RUN_MODULE = "C06.Run"
    GEN = ["Types", "DateMatchers"]
    DEPENDS = ["C08"]
    CLAUSES = {1: "request_line", 2: "headers", 3: "envelope", 4: "values_decode", 5: "refusal"}
    SHARD = 120
    SEARCH_CASES = 2500
    RULE = ("one UpnpAction.async_call per case on a generated service/action (0..6 in-arguments and 0..2 out-arguments over all 26 "
            "data types, allowed lists, ranges, strict and non-strict factories) with a keyword assignment (valid values, markup / CR / "
            "astral / XML-illegal strings, boundary and out-of-range numbers, non-members, wrong Python types, True for integers, None, "
            "missing and extra arguments); non-trivial = the action could be built; distinct = distinct (case, outcome kind)")
    TRUSTED = [
        "Coq 8.16.1 kernel + vm_compute",
        "tools/gen/types.py, tools/gen/datematchers.py (source -> Gen/Types.v, Gen/DateMatchers.v) and the C08 model of coercers / voluptuous validation (its own check ties it to /repo)",
        "harness/c06.py: builds real UpnpDevice/UpnpService/UpnpAction objects through UpnpFactory._create_state_variable/_create_action, "
        "records what the requester receives, canonicalises the expat tree (white-space-only text beside children dropped)",
        "expat (xml.etree.ElementTree.fromstring) as the decoder of the body the implementation sent; C06/XmlRead.v is the decoder in the theorems "
        "and is compared with expat on every body sent (mismatch = kind 0 detail 5)",
        "urllib.parse.urljoin / urlparse(...).netloc are oracles (recorded by the harness); the premise netloc = RFC 3986 authority is evaluated per case",
        "float repr / float() are oracles recorded per case; the round-trip premise is evaluated on the very float of the case",
    ]
    ASSUMPTIONS = [
        "reading: strict client (UpnpFactory default); non-strict factories deliberately skip range/allowed checks and are only compared model-vs-implementation",
        "reading: 'values of the right type' = the C08 round-trip domain (whole seconds, whole-minute offsets, no nan, a datetime is not offered for a date argument); "
        "a bool offered for an integer argument counts as the integer it equals (D26: under either reading of the statement the old behaviour was a violation)",
        "action / argument names are ASCII XML NCNames, in-argument names distinct, the service type contains no '\"', '<', '&', tab, CR, LF (generated services)",
        "aware date-times are not combined with allowed lists / ranges (outside C08's modelled ordering)",
    ]
    last_exhaustive = False

    def __init__(self):
        self._c08 = C08Plugin()

    # ------------------------------------------------------------------ generators
    def corpus(self):
        out = []
        d = C.VERIF / "corpus" / "C06"
        if d.is_dir():
            for f in sorted(d.glob("*.json")):
                j = json.loads(f.read_text())
                out += j if isinstance(j, list) else [j]
        return out

    def _rand_str(self, rng, legal=True):
        n = rng.choice([0, 1, 2, 3, 5, 8, 12, rng.randint(0, 30)])
        s = "".join(rng.choice(STR_ALPHABET) for _ in range(n))
        if rng.random() < 0.25:
            s = rng.choice(["\r", "\r\n", "a\rb", "x\r\ny\rz", "<item>test thing</item>", "]]>", "a]]>b", "&#13;", "&lt;", " lead", "trail ",
                            "\n", "\t", "<![CDATA[x]]>", "<!-- c -->", "<?pi?>",
                            # text that means something to str.format / %-formatting / string.Template
                            "{}", "{0}", "{action}", "{{x}}", "a{b", "}", '{"k": 1}', "%s", "%(x)s", "100%", "$x", "${y}", "\\n", "\\", "\U0010ffff", "퟿�", "\x7f\x80\x85 "]) + s
        if not legal:
            i = rng.randint(0, len(s))
            s = s[:i] + rng.choice(["\x00", "\x01", "\x08", "\x0b", "\x0c", "\x1f", "\ufffe", "\uffff"]) + s[i:]
        return s

    def _good_value(self, rng, arg):
        tn = arg["type"]
        pyt = PYTYPE[tn]
        from async_upnp_client.const import STATE_VARIABLE_TYPE_MAPPING as M
        if arg["allowed"] and rng.random() < 0.9:
            try:
                return M[tn]["in"](rng.choice(arg["allowed"]))
            except Exception:  # noqa: BLE001
                pass
        if arg["range"]:
            if pyt == "int":
                return rng.choice([0, 100, -5, 5, 10, 3, rng.randint(-10, 110)])
            if pyt == "float":
                return rng.choice([0.0, 10.5, -1.5, rng.uniform(-5, 15)])
            if pyt == "str":
                return rng.choice(["a", "m", "b", "g", "ma"])
        if pyt == "str":
            return self._rand_str(rng)
        v = self._c08._rand_value(rng, pyt)
        if tn.endswith(".tz") and v.tzinfo is None:
            import datetime as dt
            v = v.replace(tzinfo=dt.timezone(dt.timedelta(minutes=rng.choice([0, 60, -300, 330]))))
        if pyt in ("time", "datetime") and (arg["allowed"] or arg["range"]) and v.tzinfo is not None and not tn.endswith(".tz"):
            v = v.replace(tzinfo=None)
        return v

    def _bad_value(self, rng, arg):
        pyt = PYTYPE[arg["type"]]
        r = rng.random()
        if pyt == "int" and r < 0.3:
            return rng.random() < 0.5                      # True / False for an integer (D26)
        if r < 0.45:
            return self._c08._wrong_value(rng, pyt)
        if pyt == "str" and r < 0.7:
            return self._rand_str(rng, legal=False)
        if pyt == "int":
            return rng.choice([-1, 101, 11, 6, -6, 2**40, -2**40, 4, 2])
        if pyt == "float":
            return rng.choice([float("nan"), float("inf"), -1e9, 1e301, 10.500001])
        if pyt == "str":
            return rng.choice(["", "zz", "PLAYING ", "playing", "A"])
        if pyt == "date":
            import datetime as dt
            return dt.datetime(2020, 1, 2, 3, 4, 5)          # a datetime is a date
        return self._c08._wrong_value(rng, pyt)

    def _rand_arg(self, rng, name, direction):
        tn = rng.choice(ALL_TYPES + STR_TYPES + INT_TYPES)
        strict_, allowed, rng_ = self._c08._decl(rng, tn)
        if rng.random() < 0.45:
            allowed, rng_ = [], None
        return {"name": name, "dir": direction, "type": tn, "allowed": allowed, "range": rng_}

    def _case(self, rng, malformed=False):
        n_in = rng.choice([0, 1, 1, 2, 2, 3, 3, 4, 5, 6])
        n_out = rng.choice([0, 0, 1, 2])
        names = rng.sample(ARG_NAMES, n_in + n_out)
        dirs = ["in"] * n_in + ["out"] * n_out
        rng.shuffle(dirs)
        args = [self._rand_arg(rng, nm, d) for nm, d in zip(names, dirs)]
        case = {"strict": rng.random() < 0.9, "st": rng.choice(SERVICE_TYPES), "action": rng.choice(ACTION_NAMES),
                "base": rng.choice(BASES), "ctrl": rng.choice(CTRLS), "args": args, "kwargs": []}
        mode = rng.random()
        for a in args:
            if a["dir"] != "in":
                if rng.random() < 0.1:
                    case["kwargs"].append([a["name"], enc(1)])
                continue
            bad = mode > 0.6 and rng.random() < 0.5
            if bad and rng.random() < 0.3:
                continue                                     # missing argument
            v = self._bad_value(rng, a) if bad else self._good_value(rng, a)
            case["kwargs"].append([a["name"], enc(v)])
        if rng.random() < 0.1:
            case["kwargs"].append(["Extra", enc(rng.choice([1, "x", None]))])
        if rng.random() < 0.3:
            rng.shuffle(case["kwargs"])
        if rng.random() < 0.35:
            self._add_prime(rng, case)
        if rng.random() < 0.12:
            case["unavailable"] = True
        if rng.random() < 0.12 and not case.get("prime") and [a for a in args if a["dir"] == "in"]:
            ins_ = [a for a in args if a["dir"] == "in"]
            case["crowd"] = [[[a["name"], enc(self._good_value(rng, a))] for a in ins_] for _ in range(rng.choice([2, 3]))]
        if rng.random() < 0.3 and not case.get("prime_base"):
            case["via_documents"] = True
            if rng.random() < 0.6:
                case["sibling"] = {"st": rng.choice([t for t in SERVICE_TYPES[:5] if t != case["st"]]),
                                   "ctrl": rng.choice([c for c in CTRLS if c and c != case["ctrl"]])}
        if malformed:
            k = rng.randrange(5)
            if k == 0:
                case["st"] = rng.choice(BAD_SERVICE_TYPES)
            elif k == 1:
                case["action"] = rng.choice(BAD_ACTION_NAMES)
            elif k == 2 and args:
                old = args[0]["name"]
                args[0]["name"] = rng.choice(BAD_ARG_NAMES)
                for kv in case["kwargs"]:
                    if kv[0] == old:
                        kv[0] = args[0]["name"]
            elif k == 3 and len(args) >= 2:
                args[1]["name"] = args[0]["name"]            # duplicate argument names
            else:
                if args:
                    args[0]["type"] = rng.choice(["ui3", "String", ""])
        return case

    @staticmethod
    def _twin(rng, v):
        """a value that compares (and hashes) equal to v but has another Python type"""
        if isinstance(v, bool):
            return rng.choice([int(v), float(v)])
        if isinstance(v, int):
            return rng.choice([float(v)] + ([bool(v)] if v in (0, 1) else [])) if abs(v) < 2**53 else v
        if isinstance(v, float) and v == v and abs(v) < 2**53 and v == int(v):
            return rng.choice([int(v)] + ([bool(v)] if v in (0.0, 1.0) else []))
        return v

    def _add_prime(self, rng, case):
        """History: one or two earlier (valid) calls on the same action; sometimes the final call then passes
        equal values of another type (1 / 1.0 / True) - a per-object memo of accepted values must not let them in."""
        ins = [a for a in case["args"] if a["dir"] == "in"]
        first = [[a["name"], enc(self._good_value(rng, a))] for a in ins]
        case["prime"] = [first]
        if rng.random() < 0.3:
            case["prime"].append([[a["name"], enc(self._good_value(rng, a))] for a in ins])
        if rng.random() < 0.35:
            case["prime_base"] = rng.choice([b for b in BASES if b != case["base"]])
        if rng.random() < 0.6:
            good = dict((k, dec(j)) for k, j in first)
            kw = []
            for a in ins:
                v = good[a["name"]]
                kw.append([a["name"], enc(self._twin(rng, v) if rng.random() < 0.7 else v)])
            case["kwargs"] = kw

    def _printable(self, case):
        import math
        zeros = {math.copysign(1.0, dec(j)) for _, j in case["kwargs"] if j["t"] == "float" and dec(j) == 0.0}
        if len(zeros) > 1:
            return False        # the model's float has one zero: -0.0 and 0.0 cannot share an oracle table
        for _, j in case["kwargs"]:
            if j["t"] == "other":
                return False
            if j["t"] in ("time", "datetime") and (j["v"][-1] == "frac" or j.get("us")):
                return False
            if j["t"] == "str" and any(0xD800 <= ord(ch) <= 0xDFFF for ch in j["v"]):
                return False
        return True

    def generate(self, rng, tier):
        n = 30000 if tier == "thorough" else 700
        cases = [self._case(rng, malformed=(i % 12 == 11)) for i in range(n)]
        cases += self._small_scope(tier)
        return [c for c in cases if self._printable(c)]

    def _small_scope(self, tier):
        """Every data type x {valid, True/1, wrong type, None, missing} on a one-argument action, and every
        single character of a probe set (markup, controls, boundaries of the legal ranges) as a string value."""
        import datetime as dt
        out = []
        good = {"int": 7, "float": 1.5, "str": "x", "bool": True, "date": dt.date(2020, 2, 29),
                "datetime": dt.datetime(2020, 2, 29, 23, 59, 59), "time": dt.time(1, 2, 3)}
        tz = dt.timezone(dt.timedelta(minutes=-330))
        for tn in ALL_TYPES:
            pyt = PYTYPE[tn]
            g = good[pyt]
            if tn.endswith(".tz"):
                g = g.replace(tzinfo=tz)
            vals = [g, True, 1, "1", None, 1.0, dt.date(2020, 1, 1), dt.datetime(2020, 1, 1, 0, 0, 0, tzinfo=tz), dt.time(0, 0, 0), "missing"]
            for v in vals:
                c = {"strict": True, "st": SERVICE_TYPES[0], "action": "Act", "base": BASES[0], "ctrl": "/ctl",
                     "args": [{"name": "A", "dir": "in", "type": tn, "allowed": [], "range": None},
                              {"name": "R", "dir": "out", "type": "ui4", "allowed": [], "range": None}],
                     "kwargs": [] if isinstance(v, str) and v == "missing" else [["A", enc(v)]]}
                out.append(c)
        for tn in ALL_TYPES:
            pyt = PYTYPE[tn]
            if pyt not in ("int", "float", "bool"):
                continue
            for pv in ([1, 0] if pyt == "int" else [1.0, 0.0] if pyt == "float" else [True, False]):
                for v in (bool(pv), int(pv), float(pv)):
                    out.append({"strict": True, "st": SERVICE_TYPES[0], "action": "Act", "base": BASES[0], "ctrl": "/ctl",
                                "args": [{"name": "A", "dir": "in", "type": tn, "allowed": [], "range": None}],
                                "prime": [[["A", enc(pv)]]], "kwargs": [["A", enc(v)]]})
        probe = list(range(0, 0x30)) + [0x3C, 0x3D, 0x3E, 0x5D, 0x7F, 0x80, 0x85, 0xA0, 0xD7FF, 0xE000, 0xFFFD, 0xFFFE, 0xFFFF,
                                         0x10000, 0x10FFFF, 0x2028]
        if tier == "thorough":
            probe += list(range(0x30, 0x100))
        for cp in probe:
            for s in (chr(cp), "a" + chr(cp) + "b", chr(cp) + "\n", "]]" + chr(cp)):
                out.append({"strict": True, "st": SERVICE_TYPES[1], "action": "SetX", "base": BASES[0], "ctrl": "/ctl",
                            "args": [{"name": "S", "dir": "in", "type": "string", "allowed": [], "range": None}],
                            "kwargs": [["S", enc(s)]]})
        self.last_exhaustive = False
        return out

    def impl_search(self, rng, tier):
        """Implementation-only volume for the directly observable part of clause 4: on a (string, ui4) action, the
        expat-decoded text of the string argument is the supplied string and the integer's text is its decimal
        (a bool counting as 0/1).  Search only; never stands in for a theorem."""
        n = 60000 if tier == "thorough" else 4000
        base = {"strict": True, "st": SERVICE_TYPES[1], "action": "SetX", "base": BASES[0], "ctrl": "/ctl",
                "args": [{"name": "S", "dir": "in", "type": "string", "allowed": [], "range": None},
                         {"name": "N", "dir": "in", "type": "ui4", "allowed": [], "range": None}]}
        try:
            action, req = build_action(base)
        except Exception:  # noqa: BLE001
            return [], 0
        pool = "<>&\r\n\t]\"' ;#ax0\u00e9\u6f22\U0001f3b5\ud7ff\ue000\ufffd\x7f\x85\u2028"
        found = []
        for _ in range(n):
            s = "".join(rng.choice(pool) for _ in range(rng.randint(0, 10)))
            v = rng.choice([0, 1, 7, 2**32, -5, True, False, rng.randint(-10**9, 10**9)])
            del req.calls[:]
            try:
                _loop().run_until_complete(action.async_call(S=s, N=v))
            except Exception:  # noqa: BLE001
                pass
            ok = False
            body = None
            if len(req.calls) == 1:
                body = req.calls[0][3]
                try:
                    root = ET.fromstring(body)
                    el_s, el_n = root.find(".//S"), root.find(".//N")
                    ok = (el_s is not None and el_n is not None and (el_s.text or "") == s and (el_n.text or "") == str(int(v)))
                except ET.ParseError:
                    ok = False
            if not ok:
                case = {**base, "kwargs": [["S", enc(s)], ["N", enc(v)]]}
                found.append(("values_decode", case, self.run_impl(case), "impl-search: decoded texts differ from the supplied values"))
                break
        return found, n

    def mutate_case(self, case, rng):
        out = []
        for _ in range(20):
            c = json.loads(json.dumps(case))
            for kv in c["kwargs"]:
                if kv[1]["t"] == "str" and rng.random() < 0.7:
                    kv[1] = enc(self._rand_str(rng))
            out.append(c)
        return out

    # ------------------------------------------------------------------ implementation
    def run_impl(self, case):
        try:
            action, req = build_action(case)
        except Exception as e:  # noqa: BLE001
            return {"kind": "create_failed", "exn": type(e).__name__}
        if case.get("via_documents") and not case.get("prime_base"):
            # the same action reached through the public factory API (and a sibling service sharing its SCPD document);
            # where the case cannot be written as documents the directly built objects above are used
            try:
                action, req = build_action_via_documents(case)
            except Exception:  # noqa: BLE001
                pass
        # earlier calls on the same action object: the outcome of a call must not depend on them
        for pk in case.get("prime", []):
            try:
                _loop().run_until_complete(action.async_call(**{k: dec(j) for k, j in pk}))
            except Exception:  # noqa: BLE001
                pass
        # the device moved (DeviceUpdater: device.reinit with the description at a new URL) after the earlier calls
        action._verif_move()  # noqa: SLF001
        if case.get("unavailable"):
            # what DeviceUpdater / the profiles do after a byebye or a failed renewal; a call is still a call
            action._verif_device.available = False  # noqa: SLF001
        req.calls.clear()
        kwargs = {k: dec(j) for k, j in case["kwargs"]}
        err = None
        crowd = case.get("crowd") or []
        if crowd:
            # the call under test overlaps with other calls of the same action (started before and after it): what it sends
            # is still what ITS caller asked.  Requests are told apart by the task that issued them.
            async def tagged(tag, kw):
                asyncio.current_task().verif_tag = tag
                return await action.async_call(**kw)

            orig = req.async_http_request

            async def recording(method, url, headers=None, body=None):
                tag = getattr(asyncio.current_task(), "verif_tag", None)
                r = await orig(method, url, headers, body)      # the request is recorded as it was handed over (no suspension) ...
                if tag != "test":
                    req.calls.pop()                             # ... the other callers' requests are theirs ...
                for _ in range(3):
                    await asyncio.sleep(0)                      # ... and the exchange takes a few loop turns: the calls overlap
                return r
            req.async_http_request = recording
            others = [{k: dec(j) for k, j in kw} for kw in crowd]
            async def run_all():
                jobs = [tagged("o0", others[0]), tagged("test", kwargs)] + [tagged(f"o{i}", o) for i, o in enumerate(others[1:], 1)]
                return await asyncio.gather(*jobs, return_exceptions=True)
            res = _loop().run_until_complete(run_all())
            req.async_http_request = orig
            if isinstance(res[1], BaseException):
                err = res[1]
        else:
            try:
                _loop().run_until_complete(action.async_call(**kwargs))
            except Exception as e:  # noqa: BLE001
                err = e
        if not req.calls:
            if err is None:
                return {"kind": "refused", "exn": "Other:no-exception-no-call", "ncalls": 0}
            return {"kind": "refused", "exn": exn_name(err), "ncalls": 0}
        method, url, headers, body = req.calls[0]
        if not isinstance(body, str):
            body = "" if body is None else body.decode("utf-8", "replace")
        return {"kind": "sent", "ncalls": len(req.calls), "method": method, "url": url,
                "headers": [[str(k), str(v)] for k, v in headers], "body": body, "tree": expat_tree(body)}

    # ------------------------------------------------------------------ printers
    def _tree_coq(self, t):
        ns, local, attrs, text, kids = t
        a = C.c_list((f"({C.c_str(x)}, {C.c_str(y)}, {C.c_str(z)})" for x, y, z in attrs), "(pystr * pystr * pystr)")
        k = C.c_list((self._tree_coq(x) for x in kids), "xtree")
        return f"(XE {C.c_str(ns)} {C.c_str(local)} {a} {C.c_str(text)} {k})"

    def _oracle(self, case, obs):
        floats, texts = [], []
        any_float = False
        for a in case["args"]:
            if PYTYPE.get(a["type"]) == "float":
                any_float = True
                texts += list(a["allowed"] or [])
                texts += [b for b in (a["range"] or []) if b]
        for _, j in case["kwargs"]:
            if j["t"] == "float":
                floats.append(dec(j))
        if any_float and obs.get("kind") == "sent" and obs.get("tree"):
            def leaves(t):
                if not t[4]:
                    yield t[3]
                for k in t[4]:
                    yield from leaves(k)
            texts += list(leaves(obs["tree"]))
        fstr, seen = [], set()
        for x in floats:
            k = fl_coq(x)
            if k not in seen:
                seen.add(k)
                fstr.append(f"({k}, {C.c_str(str(x))})")
                texts.append(str(x))
        fparse, seen = [], set()
        for s in texts:
            if s in seen:
                continue
            seen.add(s)
            try:
                fparse.append(f"({C.c_str(s)}, Some {fl_coq(float(s))})")
            except ValueError:
                fparse.append(f"({C.c_str(s)}, @None fl)")
        return ("{| o_fstr := " + C.c_list(fstr, "(fl * pystr)") + "; o_fparse := " + C.c_list(fparse, "(pystr * option fl)") + " |}")

    def to_coq(self, case, obs):
        url, netloc = oracle_url(case)
        args = []
        for a in case["args"]:
            rg = a.get("range")
            args.append(f"(mkArg {C.c_str(a['name'])} {C.c_bool(a['dir'] == 'in')} {C.c_str(a['type'])} "
                        f"{C.c_list((C.c_str(x) for x in a['allowed']), 'pystr')} {C.c_bool(rg is not None)} "
                        f"{C.c_opt(rg[0] if rg else None, C.c_str, 'pystr')} {C.c_opt(rg[1] if rg else None, C.c_str, 'pystr')})")
        kw = C.c_list((f"({C.c_str(k)}, {val_coq(j)})" for k, j in case["kwargs"]), "(pystr * pyval)")
        call = (f"(mkCall {C.c_bool(case['strict'])} {C.c_str(case['st'])} {C.c_str(case['action'])} {C.c_list(args, 'argdef')} "
                f"{C.c_str(url)} {C.c_str(netloc)} {kw})")
        k = obs["kind"]
        if k == "create_failed":
            o = "OCreateFailed"
        elif k == "refused":
            e = obs["exn"]
            ce = {"UpnpError": "EUpnpError", "UpnpValueError": "EUpnpValueError"}.get(e)
            if ce is None:
                ce = f"(EForeign {e if e in ('ValueError', 'TypeError', 'AttributeError', 'IndexError') else 'OtherError'})"
            o = f"(ORefused {ce} {C.c_N(obs['ncalls'])})"
        else:
            hs = C.c_list((f"({C.c_str(a)}, {C.c_str(b)})" for a, b in obs["headers"]), "(pystr * pystr)")
            t = "(@None xtree)" if obs["tree"] is None else f"(Some {self._tree_coq(obs['tree'])})"
            o = f"(OSent {C.c_N(obs['ncalls'])} {C.c_str(obs['method'])} {C.c_str(obs['url'])} {hs} {C.c_str(obs['body'])} {t})"
        return f"(({self._oracle(case, obs)}, {call}), {o})"

    # ------------------------------------------------------------------ evidence helpers
    def nontrivial(self, case, obs):
        if not isinstance(obs, dict) or obs.get("kind") == "create_failed":
            return None
        return C.case_hash([case, obs.get("kind"), obs.get("exn")])

    def describe(self, case, obs):
        o = dict(obs)
        if "body" in o and len(o["body"]) > 600:
            o["body"] = o["body"][:600] + "..."
        return {"case": case, "impl_observation": o}

    def summarize(self, cases, obss):
        kinds, n_in, types, vals = {}, {}, {}, {}
        for c, o in zip(cases, obss):
            k = o.get("kind") if isinstance(o, dict) else "?"
            if k == "refused":
                k = "refused:" + o["exn"]
            kinds[k] = kinds.get(k, 0) + 1
            ins = [a for a in c["args"] if a["dir"] == "in"]
            n_in[len(ins)] = n_in.get(len(ins), 0) + 1
            for a in ins:
                types[a["type"]] = types.get(a["type"], 0) + 1
            for _, j in c["kwargs"]:
                t = j["t"]
                if t == "str":
                    s = j["v"]
                    t = "str:" + ("cr" if "\r" in s else "markup" if any(ch in s for ch in "<>&") else "plain")
                vals[t] = vals.get(t, 0) + 1
        return {"outcomes": kinds, "in_arguments": dict(sorted(n_in.items())), "in_argument_types": types, "value_kinds": vals,
                "with_earlier_calls": sum(1 for c in cases if c.get("prime")),
                "device_moved_before_call": sum(1 for c in cases if c.get("prime_base")),
                "built_through_description_documents": sum(1 for c in cases if c.get("via_documents")),
                "with_sibling_service_sharing_the_scpd": sum(1 for c in cases if c.get("sibling")),
                "non_strict": sum(1 for c in cases if not c["strict"])}

    def shrink(self, case):
        for flag in ("crowd", "unavailable"):
            if case.get(flag):
                c = json.loads(json.dumps(case))
                del c[flag]
                yield c
        if case.get("sibling"):
            c = json.loads(json.dumps(case))
            del c["sibling"]
            yield c
        if case.get("via_documents"):
            c = json.loads(json.dumps(case))
            del c["via_documents"]
            c.pop("sibling", None)
            yield c
        if case.get("prime_base"):
            c = json.loads(json.dumps(case))
            del c["prime_base"]
            yield c
        if case.get("prime"):
            c = json.loads(json.dumps(case))
            del c["prime"]
            c.pop("prime_base", None)
            yield c
            if len(case["prime"]) > 1:
                for i in range(len(case["prime"])):
                    c = json.loads(json.dumps(case))
                    del c["prime"][i]
                    yield c
        names = [a["name"] for a in case["args"]]
        for i, nm in enumerate(names):
            c = json.loads(json.dumps(case))
            del c["args"][i]
            c["kwargs"] = [kv for kv in c["kwargs"] if kv[0] != nm]
            yield c
        for i, kv in enumerate(case["kwargs"]):
            if kv[0] not in names:
                c = json.loads(json.dumps(case))
                del c["kwargs"][i]
                yield c
        for i, kv in enumerate(case["kwargs"]):
            if kv[1]["t"] == "str" and len(kv[1]["v"]) > 1:
                s = kv[1]["v"]
                for j in range(len(s)):
                    c = json.loads(json.dumps(case))
                    c["kwargs"][i][1]["v"] = s[:j] + s[j + 1:]
                    yield c
        for i, a in enumerate(case["args"]):
            if a["allowed"] or a["range"]:
                c = json.loads(json.dumps(case))
                c["args"][i]["allowed"], c["args"][i]["range"] = [], None
                yield c
        if case["ctrl"] != "/ctl" or case["base"] != BASES[0]:
            yield {**case, "ctrl": "/ctl", "base": BASES[0]}
