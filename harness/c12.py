"""C12 - profile subscriptions are all-or-nothing, kept alive, and cleanly ended: harness.

Drives the REAL UpnpProfileDevice subclasses (profiles/profile.py, dlna.py, igd.py) with the REAL UpnpEventHandler
(event_handler.py) on the REAL asyncio event loop in VIRTUAL time: an asyncio.SelectorEventLoop whose time() is a
counter owned by the harness (time.monotonic is redirected to it while a case runs), whose selector never blocks and
whose _run_once() is called explicitly, one call per "iter" action.  External actions happen only between
iterations:

  ["sub", auto]          loop.create_task(profile.async_subscribe_services(auto))      (ignored while a user call is pending)
  ["unsub"]              loop.create_task(profile.async_unsubscribe_services())        (ignored while a user call is pending)
  ["deliver", r, rho]    the future of outstanding request r completes with publisher reaction rho
  ["adv", dt]            virtual time passes, as it would while the loop sleeps in select(): not at all when a handle is
                         ready, never past the earliest live timer
  ["iter"]               loop._run_once()

rho = ["ok", sidmode, grant] | ["refuse", status] | ["unreach", variant] | ["comm", variant]
      sidmode = "echo" | "fresh" | "none",  grant = seconds | "inf" | "absent"

The requester is a scripted publisher: it records every request (virtual send time, method, service, SID header,
issuing task), suspends on one future per request and, when the reaction is delivered, plays the publisher (fresh
SIDs uuid:<n>, expiry = now + granted, a renewal of a subscription it no longer holds is flagged).  Every call of
the virtual clock within one loop iteration is counted: a coroutine section that asks for the time more than
STEP_BUDGET times without yielding is stopped and observed as Diverged (a SIGALRM watchdog backs this up).
After every action the harness records what coq/theories/C12/Model.v `observe` records.  Mirrors Model.v 1:1.

case = {"profile": "dmr"|"dms"|"igd", "svcs": [service type, ...], "emb": service type | None, "hdr": int,
        "sched": [action, ...]}
"""
from __future__ import annotations

import asyncio
import json
import logging
import selectors
import signal
import threading
import time as _time
from asyncio import events as _aio_events

from harness import common as C

# what the harness (not the code under test) takes to be the services of each profile
PROFILE_TYPES = {
    "dmr": ("urn:schemas-upnp-org:device:MediaRenderer:1",
            [f"urn:schemas-upnp-org:service:{n}:{v}" for n in ("RenderingControl", "AVTransport", "ConnectionManager")
             for v in (1, 2, 3)]),
    "dms": ("urn:schemas-upnp-org:device:MediaServer:1",
            [f"urn:schemas-upnp-org:service:ContentDirectory:{v}" for v in (1, 2, 3, 4)]
            + [f"urn:schemas-upnp-org:service:ConnectionManager:{v}" for v in (1, 2, 3)]),
    "igd": ("urn:schemas-upnp-org:device:InternetGatewayDevice:1",
            ["urn:schemas-upnp-org:service:WANPPPConnection:1", "urn:schemas-upnp-org:service:WANIPConnection:1",
             "urn:schemas-upnp-org:service:WANIPConnection:2", "urn:schemas-upnp-org:service:WANCommonInterfaceConfig:1",
             "urn:schemas-upnp-org:service:Layer3Forwarding:1"]),
}
FOREIGN_TYPES = ["urn:schemas-upnp-org:service:Foo:1", "urn:dial-multiscreen-org:service:dial:1",
                 "urn:schemas-upnp-org:service:RenderingControl:4", "urn:schemas-upnp-org:service:ContentDirectory:9",
                 "urn:schemas-upnp-org:service:WANIPConnection:3", "urn:schemas-microsoft-com:service:X_MS_MediaReceiverRegistrar:1"]
CROSS = {"dmr": ["urn:schemas-upnp-org:service:ContentDirectory:1", "urn:schemas-upnp-org:service:Layer3Forwarding:1"],
         "dms": ["urn:schemas-upnp-org:service:AVTransport:1", "urn:schemas-upnp-org:service:RenderingControl:1"],
         "igd": ["urn:schemas-upnp-org:service:ConnectionManager:1"]}

GRANTS = [61, 61, 120, 540, 1800, "inf", "absent"]
LATENCIES = [0, 0, 0, 1, 30, 59, 61, 130, 400]
STEP_BUDGET = 400
STEP_SECONDS = 5.0


def interesting(profile: str, stype: str) -> bool:
    return stype in PROFILE_TYPES[profile][1]


# ------------------------------------------------------------------------------------------------ virtual loop
class _NBSelector(selectors.DefaultSelector):
    def select(self, timeout=None):
        return super().select(0)


class _Spin(KeyboardInterrupt):
    """a coroutine section did not yield (KeyboardInterrupt subclasses are what Task.__step lets out of the loop)"""


def _on_alarm(signum, frame):
    raise _Spin()


class VLoop(asyncio.SelectorEventLoop):
    def __init__(self):
        super().__init__(_NBSelector())
        self.vnow = 0.0
        self.calls = 0

    def clock(self):
        self.calls += 1
        if self.calls > STEP_BUDGET:
            raise _Spin()
        return self.vnow

    def time(self):
        return self.clock()

    def iterate(self):
        _aio_events._set_running_loop(self)
        self._thread_id = threading.get_ident()
        self.calls = 0
        old = signal.signal(signal.SIGALRM, _on_alarm)
        signal.setitimer(signal.ITIMER_REAL, STEP_SECONDS)
        try:
            self._run_once()
        finally:
            signal.setitimer(signal.ITIMER_REAL, 0)
            signal.signal(signal.SIGALRM, old)
            self._thread_id = None
            _aio_events._set_running_loop(None)
            self.calls = 0

    def live_timers(self):
        return [h for h in self._scheduled if not h._cancelled]


DIV_SNAP = {"div": True}


class _World:
    """one profile device, its event handler, the scripted publisher, the virtual loop"""

    def __init__(self, case):
        import xml.etree.ElementTree as ET

        from async_upnp_client import exceptions as X
        from async_upnp_client.client import UpnpDevice, UpnpRequester, UpnpService
        from async_upnp_client.const import DeviceInfo, ServiceInfo
        from async_upnp_client.event_handler import UpnpEventHandler, UpnpNotifyServer
        from async_upnp_client.profiles.dlna import DmrDevice, DmsDevice
        from async_upnp_client.profiles.igd import IgdDevice
        from multidict import CIMultiDict, CIMultiDictProxy

        w = self
        self.X = X
        self.case = case
        self.loop = VLoop()
        self.reqs = []          # [time, kind, svc, sid|None, bg, future]
        self.seen = 0           # requests already reported in a snapshot
        self.pub = {}           # sid -> expiry | None
        self.nsid = 0
        self.lapsed = False
        self.events = []
        self.events_seen = 0
        self.user_tasks = []
        self.hdr = case.get("hdr", 0)
        self.broken = None

        class Notify(UpnpNotifyServer):
            @property
            def callback_url(self):
                return "http://192.168.1.2:8090/notify"

        class Publisher(UpnpRequester):
            async def async_http_request(self, method, url, headers=None, body=None):
                headers = dict(headers or {})
                svc = w.urls.get(url)
                sid_hdr = headers.get("SID")
                if method == "SUBSCRIBE":
                    kind = "renew" if sid_hdr is not None else "sub"
                elif method == "UNSUBSCRIBE":
                    kind = "unsub"
                else:
                    kind = "other:" + method
                sid = None
                if sid_hdr is not None:
                    sid = int(sid_hdr[5:]) if sid_hdr.startswith("uuid:") and sid_hdr[5:].isdigit() else -1
                task = asyncio.current_task()
                bg = task is not None and task is w.profile._resubscriber_task
                fut = w.loop.create_future()
                idx = len(w.reqs)
                w.reqs.append([w.loop.vnow, kind, svc, sid, bg, fut])
                status, hdrs = await fut
                if isinstance(status, BaseException):
                    raise status
                if (idx + w.hdr) % 2:
                    return status, CIMultiDictProxy(CIMultiDict(hdrs)), ""
                return status, {k.lower(): v for k, v in hdrs}, ""

        self.requester = Publisher()
        dev_type, _ = PROFILE_TYPES[case["profile"]]
        self.services = [
            UpnpService(self.requester, ServiceInfo(f"urn:upnp-org:serviceId:S{i}", st, f"/c{i}", f"/e{i}", f"/s{i}",
                                                    ET.Element("service")), [], [])
            for i, st in enumerate(case["svcs"])]
        embedded = []
        if case.get("emb"):
            es = UpnpService(self.requester, ServiceInfo("urn:upnp-org:serviceId:E0", case["emb"], "/ce", "/ee", "/se",
                                                         ET.Element("service")), [], [])
            embedded.append(UpnpDevice(
                self.requester,
                DeviceInfo("urn:schemas-upnp-org:device:Sub:1", "e", "m", None, None, "n", None, None, None, "uuid:emb",
                           None, None, "http://h:1/d.xml", [], ET.Element("device")), [es], []))
            self.emb_service = es
        self.device = UpnpDevice(
            self.requester,
            DeviceInfo(dev_type, "f", "m", None, None, "n", None, None, None, "uuid:dev", None, None,
                       "http://h:1/d.xml", [], ET.Element("device")), self.services, embedded)
        self.urls = {s.event_sub_url: i for i, s in enumerate(self.services)}
        self.handler = UpnpEventHandler(Notify(), self.requester)
        cls = {"dmr": DmrDevice, "dms": DmsDevice, "igd": IgdDevice}[case["profile"]]
        self.profile = cls(self.device, self.handler)

        def on_event(service, state_variables):
            try:
                i = self.services.index(service)
            except ValueError:
                i = -1
            self.events.append([i, len(list(state_variables))])
            # "reported ... (marking the device unavailable when it is unreachable)": what the consumer sees of the device
            # WHEN it is told about the failure is part of the report
            self.cb_views.append(bool(self.device.available))
        self.cb_views = []
        self.profile.on_event = on_event

    # -------------------------------------------------------------------------------------------- publisher
    def _expiry(self, grant):
        if grant == "inf":
            return None
        return self.loop.vnow + (540 if grant == "absent" else grant)

    def _alive(self, sid):
        if sid not in self.pub:
            return False
        e = self.pub[sid]
        return e is None or self.loop.vnow <= e

    def react(self, req, rho):
        """-> (status | exception, header list): what the requester hands back for this reaction"""
        X = self.X
        kind, sid = req[1], req[3]
        if rho[0] == "refuse":
            return rho[1], [("SERVER", "fake/1.0 UPnP/1.0")]
        if rho[0] == "unreach":
            cls = [X.UpnpConnectionError, X.UpnpConnectionTimeoutError][rho[1] % 2]
            return cls("scripted"), []
        if rho[0] == "comm":
            cls = [X.UpnpCommunicationError, X.UpnpError, X.UpnpContentError][rho[1] % 3]
            return cls("scripted"), []
        _, mode, grant = rho
        hdrs = [("SERVER", "fake/1.0 UPnP/1.0"), ("CONTENT-LENGTH", "0")]
        if grant == "inf":
            hdrs.append(("TIMEOUT", "Second-infinite"))
        elif grant != "absent":
            hdrs.append(("TIMEOUT", f"Second-{grant}"))
        if kind == "sub":
            if mode != "none":
                new = self.nsid
                self.nsid += 1
                self.pub[new] = self._expiry(grant)
                hdrs.append(("SID", f"uuid:{new}"))
        elif kind == "renew" and sid is not None:
            if not self._alive(sid):
                self.lapsed = True
            if mode == "fresh":
                self.pub.pop(sid, None)
                new = self.nsid
                self.nsid += 1
                self.pub[new] = self._expiry(grant)
                hdrs.append(("SID", f"uuid:{new}"))
            else:
                self.pub[sid] = self._expiry(grant)
                if mode == "echo":
                    hdrs.append(("SID", f"uuid:{sid}"))
        elif kind == "unsub" and sid is not None:
            self.pub.pop(sid, None)
        return 200, hdrs

    # -------------------------------------------------------------------------------------------- actions
    def busy(self):
        return any(not t.done() for t in self.user_tasks)

    def act(self, a):
        k = a[0]
        loop = self.loop
        if k == "sub":
            if not self.busy():
                self.user_tasks.append(loop.create_task(self.profile.async_subscribe_services(bool(a[1]))))
        elif k == "unsub":
            if not self.busy():
                self.user_tasks.append(loop.create_task(self.profile.async_unsubscribe_services()))
        elif k == "deliver":
            r = a[1]
            if 0 <= r < len(self.reqs) and not self.reqs[r][5].done():
                self.reqs[r][5].set_result(self.react(self.reqs[r], a[2]))
        elif k == "adv":
            if not loop._ready:
                d = a[1]
                timers = loop.live_timers()
                if timers:
                    d = min(d, min(h._when for h in timers) - loop.vnow)
                loop.vnow += max(0, d)
        elif k == "iter":
            loop.iterate()
        else:
            raise AssertionError(k)

    # -------------------------------------------------------------------------------------------- observation
    def _status(self, t):
        X = self.X
        if not t.done():
            return None
        if t.cancelled():
            return ["canc"]
        e = t.exception()
        if e is None:
            r = t.result()
            if r is None:
                return ["ret", None]
            secs = r.total_seconds()
            return ["ret", int(secs)] if secs == int(secs) else ["ret", repr(secs)]
        if isinstance(e, X.UpnpConnectionError):
            return ["exc", "conn"]
        if isinstance(e, X.UpnpResponseError):
            return ["exc", "resp"]
        if isinstance(e, X.UpnpSIDError):
            return ["exc", "sid"]
        if isinstance(e, X.UpnpError):
            return ["exc", "comm"]
        if isinstance(e, KeyError):
            return ["exc", "key"]
        return ["exc", "other:" + type(e).__name__]

    def snapshot(self):
        p, h = self.profile, self.handler
        new = [[r[1], r[2], r[3], r[4]] for r in self.reqs[self.seen:]]
        self.seen = len(self.reqs)
        ev = self.events[self.events_seen:]
        self.events_seen = len(self.events)
        views, self.cb_views = self.cb_views, []
        routed = []
        for n in range(self.nsid):
            s = h.service_for_sid(f"uuid:{n}")
            if s is not None:
                routed.append([n, self.services.index(s) if s in self.services else -1])
        subs = []
        for sid, dl in p._subscriptions.items():
            n = int(sid[5:]) if sid.startswith("uuid:") and sid[5:].isdigit() else -1
            subs.append([n, int(dl) if dl == int(dl) else repr(dl)])
        subs.sort(key=lambda x: x[0])
        rt = p._resubscriber_task
        if rt is None:
            rts = "none"
        elif not rt.done():
            rts = "pending"
        elif rt.cancelled():
            rts = "cancelled"
        elif rt.exception() is not None:
            rts = "exc"
        else:
            rts = "done"
        now = self.loop.vnow
        return {"now": int(now) if now == int(now) else repr(now), "new": new,
                "out": [i for i, r in enumerate(self.reqs) if not r[5].done()],
                "routed": routed, "subs": subs,
                "live": [[k, (None if v is None else int(v))] for k, v in sorted(self.pub.items())],
                "lapsed": self.lapsed, "events": ev,
                # a report made while the device still read as available, although it is unavailable once the step is
                # over, told the consumer the wrong thing: the availability as reported is the one observed
                "avail": True if (True in views and not self.device.available) else bool(self.device.available),
                "calls": [self._status(t) for t in self.user_tasks], "rtask": rts,
                "idle": len(self.loop._ready) == 0, "subscribed": bool(p.is_subscribed)}

    def close(self):
        loop = self.loop
        try:
            tasks = [t for t in asyncio.all_tasks(loop) if not t.done()]
            for t in tasks:
                t.cancel()
            for _ in range(20):
                if not loop._ready:
                    break
                try:
                    loop.iterate()
                except _Spin:
                    break
            for t in asyncio.all_tasks(loop):
                if t.done() and not t.cancelled():
                    t.exception()
            for t in self.user_tasks:
                if t.done() and not t.cancelled():
                    t.exception()
        except BaseException:  # noqa: BLE001
            pass
        finally:
            try:
                loop.close()
            except Exception:  # noqa: BLE001
                pass


class _Clock:
    """redirects time.monotonic to the virtual loop while a case runs"""

    def __init__(self, loop):
        self.loop = loop

    def __enter__(self):
        import async_upnp_client.profiles.profile as pmod
        self.old = _time.monotonic
        _time.monotonic = self.loop.clock
        # a module that did `from time import monotonic` keeps its own reference: redirect that too
        self.pmod = pmod
        self.pold = getattr(pmod, "monotonic", None)
        if self.pold is not None:
            pmod.monotonic = self.loop.clock
        return self

    def __exit__(self, *a):
        _time.monotonic = self.old
        if self.pold is not None:
            self.pmod.monotonic = self.pold


def run_schedule(case, sched=None, policy=None, max_len=90):
    """Runs `sched` (or, with `policy`, builds the schedule on line: policy(world, trace) -> action | None) on a fresh
    world; returns (schedule actually run, trace)."""
    logging.getLogger("async_upnp_client").disabled = True
    logging.getLogger("async_upnp_client.profiles.profile").disabled = True
    logging.getLogger("async_upnp_client.event_handler").disabled = True
    logging.getLogger("asyncio").disabled = True
    w = _World(case)
    trace, done = [], []
    diverged = False
    with _Clock(w.loop):
        try:
            it = iter(sched) if sched is not None else None
            while True:
                if it is not None:
                    a = next(it, None)
                else:
                    a = policy(w, trace) if len(done) < max_len and not diverged else None
                if a is None:
                    break
                done.append(a)
                if diverged:
                    trace.append(DIV_SNAP)
                    continue
                try:
                    w.act(a)
                except _Spin:
                    diverged = True
                    trace.append(DIV_SNAP)
                    continue
                snap = w.snapshot()
                if snap["subscribed"] != bool(snap["subs"]):
                    raise AssertionError("is_subscribed disagrees with _subscriptions")
                trace.append(snap)
        finally:
            w.close()
    return done, trace


# ------------------------------------------------------------------------------------------------ plug-in
class Plugin:
    ID = "C12"
    RUN_MODULE = "C12.Run"
    GEN = ["Profile"]
    DEPENDS = []
    CLAUSES = {1: "all_or_nothing", 2: "kept_alive", 3: "failure_reported", 4: "loop_yields", 5: "clean_shutdown",
               6: "clean_residual", 7: "yields_residual"}
    SHARD = 40
    SEARCH_CASES = 1500
    HEADER = "Local Open Scope Z_scope."
    RULE = ("schedules of external actions on the real loop in virtual time, one _run_once() per Iter, built on line by "
            "publisher policies (grants in {61,120,540,1800,infinite,absent,random}, latencies in {0,1,30,59,61,130,400} s, "
            "reactions accept/new SID/no SID/refuse/unreachable/other error), 1-3 profile services plus foreign ones, "
            "an unsubscribe injected at every position of base runs, and a malformed stream of random raw schedules; "
            "non-trivial = at least one renewal request was sent or an unsubscribe overlapped a pending request; "
            "distinct = distinct (schedule, observations)")
    TRUSTED = [
        "Coq 8.16.1 kernel + vm_compute (no native_compute)",
        "harness/c12.py: VLoop (asyncio.SelectorEventLoop, non-blocking selector, virtual time(), _run_once() called "
        "explicitly), the redirection of time.monotonic, the scripted publisher (fresh SIDs, expiry clock), the step "
        "budget / SIGALRM watchdog that turns a section that never yields into the observation Diverged, the observers "
        "and the Gallina printers",
        "CPython 3.12 asyncio semantics as written in C12/Model.v (FIFO ready queue, an iteration runs the due timers and "
        "the handles ready at its start, Task.cancel incl. _must_cancel, sleep, gather, awaiting a task) - tied by the "
        "correspondence on every run",
        "tools/gen/profile.py (SUBSCRIBE_TIMEOUT, RESUBSCRIBE_TOLERANCE -> Gen/Profile.v)",
        "the harness's own table of which service types belong to the DMR / DMS / IGD profiles",
    ]
    ASSUMPTIONS = [
        "single-threaded use: external actions happen only between loop iterations (exact for one asyncio loop)",
        "the user awaits one API call before making the next; async_subscribe_services is called once, first (in_domain)",
        "time in whole seconds; CPU time and wall-clock drift are not modelled (time passes only while the loop is idle, "
        "never past the next timer)",
        "the requester suspends on one future per request; TIMEOUT headers are well formed (Second-<int>, Second-infinite "
        "or absent); the publisher never reuses a SID",
    ]
    last_exhaustive = False

    # ------------------------------------------------------------------ corpus
    def corpus(self):
        out = []
        d = C.VERIF / "corpus" / "C12"
        for p in sorted(d.glob("*.json")):
            data = json.loads(p.read_text())
            out.append(data["case"] if "case" in data else data)
        return out

    # ------------------------------------------------------------------ generation
    def _device(self, rng, n_int=None):
        profile = rng.choice(["dmr", "dmr", "dms", "igd"])
        pool = list(PROFILE_TYPES[profile][1])
        rng.shuffle(pool)
        n_int = n_int if n_int is not None else rng.choice([1, 1, 2, 2, 3, 3, 0])
        svcs = pool[:n_int]
        foreign = FOREIGN_TYPES + CROSS[profile]
        for _ in range(rng.choice([0, 0, 1, 1, 2])):
            f = rng.choice(foreign)
            if f not in svcs:
                svcs.insert(rng.randrange(len(svcs) + 1), f)
        emb = rng.choice([None, None, None, rng.choice(PROFILE_TYPES[profile][1])])
        return {"profile": profile, "svcs": svcs, "emb": emb, "hdr": rng.randrange(2)}

    @staticmethod
    def _grant(rng, style):
        if style == "short":
            return rng.choice([61, 61, 62, 90, 120])
        if style == "long":
            return rng.choice([540, 1800, "inf", "absent", 300])
        g = rng.choice(GRANTS + ["rand"])
        return rng.randint(61, 1800) if g == "rand" else g

    def _reaction(self, rng, req, fail_p, style):
        k = rng.random()
        if k < fail_p:
            j = rng.random()
            if j < 0.4:
                return ["refuse", rng.choice([412, 500, 503, 404, 400])]
            if j < 0.75:
                return ["unreach", rng.randrange(2)]
            if j < 0.9:
                return ["comm", rng.randrange(3)]
            return ["ok", "none", self._grant(rng, style)]
        mode = "echo"
        if req[1] == "renew":
            mode = rng.choice(["echo", "echo", "echo", "none", "fresh"])
        elif req[1] == "sub":
            mode = rng.choice(["fresh", "echo"])
        return ["ok", mode, self._grant(rng, style)]

    def _policy(self, rng, auto=True, fail_p=0.1, style="any", lat_pool=None, unsub_p=0.03, horizon=None,
                prefix=None):
        """publisher + user behaviour deciding the next action from what the harness itself can see"""
        lat_pool = lat_pool or LATENCIES
        lat = {}
        st = {"started": False, "unsubs": 0, "quiet": 0, "prefix": list(prefix or [])}

        def policy(w, trace):
            if st["prefix"]:
                return st["prefix"].pop(0)
            loop = w.loop
            if not st["started"]:
                st["started"] = True
                return ["sub", auto]
            if horizon is not None and loop.vnow >= horizon and st["unsubs"] == 0:
                st["unsubs"] += 1
                return ["unsub"]
            if rng.random() < unsub_p and st["unsubs"] < 2:
                st["unsubs"] += 1
                return ["unsub"]
            out = [i for i, r in enumerate(w.reqs) if not r[5].done()]
            if loop._ready:
                if out and rng.random() < 0.08:
                    r = rng.choice(out)
                    return ["deliver", r, self._reaction(rng, w.reqs[r], fail_p, style)]
                return ["iter"]
            for i in out:
                if i not in lat:
                    lat[i] = w.reqs[i][0] + rng.choice(lat_pool)
            timers = loop.live_timers()
            if out:
                i = min(out, key=lambda j: lat[j])
                if lat[i] <= loop.vnow:
                    return ["deliver", i, self._reaction(rng, w.reqs[i], fail_p, style)]
                if timers and min(h._when for h in timers) <= loop.vnow:
                    return ["iter"]
                return ["adv", int(lat[i] - loop.vnow)]
            if timers:
                when = min(h._when for h in timers)
                if when <= loop.vnow:
                    return ["iter"]
                return ["adv", int(when - loop.vnow) if rng.random() < 0.8 else rng.randint(1, 2000)]
            st["quiet"] += 1
            if st["quiet"] > 2:
                return None
            if st["unsubs"] < 2 and rng.random() < 0.7:
                st["unsubs"] += 1
                return ["unsub"]
            return rng.choice([["iter"], ["adv", rng.randint(1, 700)]])
        return policy

    def _online(self, rng, dev, max_len=80, **kw):
        sched, _ = run_schedule(dict(dev, sched=[]), policy=self._policy(rng, **kw), max_len=max_len)
        return dict(dev, sched=sched)

    def _drain_policy(self, rng):
        """after an injected unsubscribe: answer everything (mostly accept), iterate until quiet"""
        st = {"quiet": 0}

        def policy(w, trace):
            loop = w.loop
            if loop._ready:
                return ["iter"]
            out = [i for i, r in enumerate(w.reqs) if not r[5].done()]
            if out:
                r = out[0]
                rho = ["ok", "echo", 300] if rng.random() < 0.8 else rng.choice([["refuse", 412], ["unreach", 0]])
                return ["deliver", r, rho]
            st["quiet"] += 1
            if st["quiet"] > 1 or loop.live_timers():
                return None
            return ["iter"]
        return policy

    def _inject_unsub(self, rng, base, pos):
        dev = {k: base[k] for k in ("profile", "svcs", "emb", "hdr")}
        prefix = base["sched"][:pos] + [["unsub"]]
        drain = self._drain_policy(rng)
        st = {"prefix": list(prefix)}

        def policy(w, trace):
            if st["prefix"]:
                return st["prefix"].pop(0)
            return drain(w, trace)
        sched, _ = run_schedule(dict(dev, sched=[]), policy=policy, max_len=len(prefix) + 40)
        return dict(dev, sched=sched)

    def _raw_case(self, rng):
        """malformed stream: actions drawn blindly (unknown request ids, zero/negative advances, repeated and
        out-of-order user calls) - mostly outside the domain, compared model-vs-implementation only"""
        dev = self._device(rng)
        n = rng.randint(5, 45)
        sched = []
        nreq_guess = 0
        for _ in range(n):
            k = rng.random()
            if k < 0.08:
                sched.append(["sub", rng.random() < 0.7])
            elif k < 0.14:
                sched.append(["unsub"])
            elif k < 0.45:
                sched.append(["iter"])
            elif k < 0.75:
                r = rng.randrange(0, nreq_guess + 2)
                fake_req = [0, rng.choice(["sub", "renew"]), 0, 0, False, None]
                sched.append(["deliver", r, self._reaction(rng, fake_req, 0.3, "any")])
                nreq_guess += 1 if rng.random() < 0.6 else 0
            else:
                sched.append(["adv", rng.choice([0, -5, 1, 30, 59, 60, 61, 130, 400, 480, 1740, 5000])])
        return dict(dev, sched=sched)

    def _two_subscribes(self, rng):
        """a second async_subscribe_services (manual renewal path, stale finished renewal task): outside the domain"""
        dev = self._device(rng, n_int=rng.choice([1, 2, 3]))
        first = self._online(rng, dev, max_len=rng.randint(6, 40), auto=rng.random() < 0.6, unsub_p=0.0,
                             fail_p=rng.choice([0.0, 0.3, 0.9]))
        pol = self._policy(rng, auto=rng.random() < 0.7, fail_p=0.15, unsub_p=0.05,
                           prefix=first["sched"] + [["sub", rng.random() < 0.7]])
        sched, _ = run_schedule(dict(dev, sched=[]), policy=pol, max_len=len(first["sched"]) + 45)
        return dict(dev, sched=sched)

    def generate(self, rng, tier):
        thorough = tier == "thorough"
        cases = []
        n_online = 6000 if thorough else 700
        for i in range(n_online):
            dev = self._device(rng)
            style = rng.choice(["any", "any", "short", "long"])
            kw = dict(auto=rng.random() < 0.85, fail_p=rng.choice([0.0, 0.0, 0.1, 0.3, 0.6]), style=style,
                      unsub_p=rng.choice([0.0, 0.02, 0.06]))
            if rng.random() < 0.45:
                kw["lat_pool"] = rng.choice([[0], [0, 1], [0, 1, 30], [0, 0, 0, 59], [1, 30, 59]])
            if rng.random() < 0.3:
                kw["horizon"] = rng.choice([30, 100, 500, 1000, 3000])
            cases.append(self._online(rng, dev, max_len=rng.choice([40, 60, 90]), **kw))
        # unsubscribe at every cut point of base runs (exhaustive over the position)
        n_base = 60 if thorough else 8
        for _ in range(n_base):
            dev = self._device(rng, n_int=rng.choice([1, 2, 3, 3]))
            base = self._online(rng, dev, max_len=40, auto=True, fail_p=rng.choice([0.0, 0.2]),
                                style=rng.choice(["short", "any"]), unsub_p=0.0,
                                lat_pool=rng.choice([[0, 1, 30], [0, 1], LATENCIES]))
            for pos in range(1, len(base["sched"]) + 1):
                cases.append(self._inject_unsub(rng, base, pos))
        self.last_exhaustive = True
        for _ in range(2000 if thorough else 200):
            cases.append(self._raw_case(rng))
        for _ in range(1200 if thorough else 120):
            cases.append(self._two_subscribes(rng))
        return cases

    def mutate_case(self, case, rng):
        out = []
        s = case["sched"]
        for _ in range(12):
            pos = rng.randrange(len(s) + 1)
            a = rng.choice([["iter"], ["unsub"], ["adv", rng.choice([1, 60, 130])]])
            out.append(dict(case, sched=s[:pos] + [a] + s[pos:] + [["iter"], ["iter"]]))
        return out

    # ------------------------------------------------------------------ implementation
    def run_impl(self, case):
        _, trace = run_schedule(case, sched=case["sched"])
        return {"trace": trace}

    # ------------------------------------------------------------------ printers
    @staticmethod
    def _grant_coq(g):
        if g == "inf":
            return "GInfinite"
        if g == "absent":
            return "GAbsent"
        return f"(GSecs {int(g)})"

    def _rho(self, rho):
        if rho[0] == "ok":
            mode = {"echo": "SidEcho", "fresh": "SidFresh", "none": "SidNone"}[rho[1]]
            return f"(RAccept {mode} {self._grant_coq(rho[2])})"
        return {"refuse": "RRefuse", "unreach": "RUnreachable", "comm": "RCommErr"}[rho[0]]

    def _action(self, a):
        k = a[0]
        if k == "sub":
            return f"ASubscribe {C.c_bool(bool(a[1]))}"
        if k == "unsub":
            return "AUnsubscribe"
        if k == "deliver":
            r = a[1]
            if r < 0:
                r = 4999
            return f"ADeliver {C.c_nat(r)} {self._rho(a[2])}"
        if k == "adv":
            return f"AAdvance ({int(a[1])})"
        return "AI"

    @staticmethod
    def _lst(items, empty):
        items = list(items)
        return empty if not items else "[" + "; ".join(items) + "]"

    @staticmethod
    def _nat(n):
        if not isinstance(n, int) or n < 0:
            raise ValueError(f"not a natural number: {n!r}")
        return C.c_nat(n)

    @staticmethod
    def _z(n):
        if not isinstance(n, int):
            raise ValueError(f"not an integer: {n!r}")
        return f"({n})"

    def _status(self, s):
        if s is None:
            return "cP"
        if s[0] == "canc":
            return "(Some SCancelled)"
        if s[0] == "ret":
            return "cN" if s[1] is None else f"(Some (SRet (Some {self._z(s[1])})))"
        e = {"resp": "EResponse", "conn": "EConnection", "comm": "EComm", "sid": "ESid", "key": "EKey"}.get(s[1])
        if e is None:
            raise ValueError(f"unexpected exception {s[1]}")
        return f"(Some (SExc {e}))"

    def _snap(self, o):
        if o.get("div"):
            return "div_snap"
        kinds = {"sub": "QSub", "renew": "QRenew", "unsub": "QUnsub"}
        new = []
        for kind, svc, sid, bg in o["new"]:
            if kind not in kinds or svc is None:
                raise ValueError(f"unexpected request {kind} {svc}")
            new.append(f"({kinds[kind]}, {self._nat(svc)}, {C.c_opt(sid, self._nat, 'nat')}, {C.c_bool(bg)})")
        rt = {"none": "RtNone", "pending": "RtPending", "done": "RtDone", "cancelled": "RtCancelled", "exc": "RtExc"}[o["rtask"]]
        for ev in o["events"]:
            if ev[1] != 0:
                raise ValueError("on_event with a non-empty change list")
        return ("(sn " + " ".join([
            self._z(o["now"]),
            self._lst(new, "eR"),
            self._lst((self._nat(r) for r in o["out"]), "eN"),
            self._lst((f"({self._nat(s)}, {self._nat(v)})" for s, v in o["routed"]), "eP"),
            self._lst((f"({self._nat(s)}, {self._z(d)})" for s, d in o["subs"]), "eZ"),
            self._lst((f"({self._nat(s)}, {C.c_opt(e, self._z, 'Z')})" for s, e in o["live"]), "eL"),
            C.c_bool(o["lapsed"]),
            self._lst((self._nat(e[0]) for e in o["events"]), "eN"),
            C.c_bool(o["avail"]),
            C.c_list((self._status(s) for s in o["calls"]), "(option status)"),
            rt, C.c_bool(o["idle"]), "false"]) + ")")

    def to_coq(self, case, obs):
        svcs = C.c_list((C.c_bool(interesting(case["profile"], st)) for st in case["svcs"]), "bool")
        sched = C.c_list((self._action(a) if a[0] == "iter" else f"({self._action(a)})" for a in case["sched"]), "action")
        trace = C.c_list((self._snap(o) for o in obs["trace"]), "snap")
        return f"(mk_in {svcs} {sched}, {trace})"

    # ------------------------------------------------------------------ evidence helpers
    def nontrivial(self, case, obs):
        if not isinstance(obs, dict) or not obs.get("trace"):
            return None
        renewals = sum(1 for o in obs["trace"] if not o.get("div") for q in o["new"] if q[0] == "renew")
        overlap = False
        prev_out = []
        for a, o in zip(case["sched"], obs["trace"]):
            if a[0] == "unsub" and prev_out:
                overlap = True
            prev_out = [] if o.get("div") else o["out"]
        if not renewals and not overlap:
            return None
        return C.case_hash([case, obs])

    def describe(self, case, obs):
        tr = obs.get("trace") if isinstance(obs, dict) else None
        last = tr[-1] if tr else None
        return {"profile": case["profile"], "services": case["svcs"], "schedule": case["sched"][:60], "last": last}

    def summarize(self, cases, obss):
        kinds, reacts, nsv, nreq, div, lens = {}, {}, {}, {}, 0, []
        for c, o in zip(cases, obss):
            lens.append(len(c["sched"]))
            n = sum(1 for st in c["svcs"] if interesting(c["profile"], st))
            nsv[n] = nsv.get(n, 0) + 1
            for a in c["sched"]:
                kinds[a[0]] = kinds.get(a[0], 0) + 1
                if a[0] == "deliver":
                    key = a[2][0] + (":" + str(a[2][1]) if a[2][0] == "ok" else "")
                    reacts[key] = reacts.get(key, 0) + 1
            if isinstance(o, dict) and o.get("trace"):
                if any(x.get("div") for x in o["trace"]):
                    div += 1
                n = sum(len(x["new"]) for x in o["trace"] if not x.get("div"))
                b = min(n // 5 * 5, 30)
                nreq[b] = nreq.get(b, 0) + 1
        return {"actions_by_kind": kinds, "reactions": reacts, "profile_services_per_case": nsv,
                "requests_per_case_bucket": nreq, "diverged_cases": div,
                "schedule_length_min_max": [min(lens), max(lens)] if lens else []}

    def shrink(self, case):
        s = case["sched"]
        for i in range(len(s) - 1, -1, -1):
            if len(s) > 1:
                yield dict(case, sched=s[:i] + s[i + 1:])
        if len(case["svcs"]) > 1:
            for i in range(len(case["svcs"])):
                yield dict(case, svcs=case["svcs"][:i] + case["svcs"][i + 1:])
