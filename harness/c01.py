"""C01 — SSDP messages survive the wire and decode independently of history.  Harness."""
from __future__ import annotations

import datetime as dt
from ipaddress import ip_address
from unittest.mock import patch
from urllib.parse import urlsplit

from harness import common as C
from harness import ssdp_hist as H

STARTS = ["NOTIFY * HTTP/1.1", "M-SEARCH * HTTP/1.1", "HTTP/1.1 200 OK"]
TOKEN_EXTRA = "!#$%&'*+-.^`|~"
ADDRS = [["192.168.1.10", 1900], ["192.168.1.10", 50123], ["10.0.0.7", 1900],
         ["fe80::1", 1900, 0, 3], ["fe80::1", 50000, 0, 3], ["fe80::9", 1900, 0, 0], ["2001:db8::5", 1900, 0, 0],
         ["fe80::2", 1900, 7, 12]]
LOCATIONS = ["http://192.168.1.10:80/desc.xml", "http://[fe80::2]:8080/d.xml", "http://[fe80::2]/d?x=1#f", "https://[fe80::abcd]:443",
             "http://[2001:db8::5]/d", "http://host.example/desc.xml", "foo", "http://[fe80::1/x", "http://[fe80::2]:99999/x",
             "  ", "\x0b", "http://[FE80::2]:80/UP", "//[fe80::3]/p", "http://user@[fe80::4]:1/", "http://[fe80::5%25eth0]/z",
             "http://169.254.1.1/x", "http://[fe80::6]:0/p",
             # not in urllib's canonical form: must come back unchanged unless the host is link-local
             "HTTP://192.168.1.5/desc.xml", "http://192.168.1.5/desc.xml?", "http://10.0.0.1/d#", "http://[2001:db8::1]:80/x?",
             "Http://[2001:DB8::1]/A", "http://10.0.0.1/a\tb", "http://10.0.0.1", "http://h.example:/p", "http://10.0.0.1/p;x?#"]
LOCAL = ["192.168.1.2", 1900]
# the receiving socket's address: what a datagram decodes to must not depend on it (beyond the _local_addr object itself)
LOCALS = [LOCAL, ["fe80::1", 1900, 0, 3], ["2001:db8::1", 1900, 0, 0], ["fe80::7", 1900, 0, 12]]


def url_info(u: str):
    try:
        d = urlsplit(u)
    except ValueError:
        return None
    try:
        port = d.port
        port = ["none"] if port is None else ["ok", port]
    except ValueError:
        port = ["error"]
    hostname = d.hostname
    ll = None
    if hostname:
        try:
            ip = ip_address(hostname)
            # the oracle answers "is this host an IPv6 link-local address?" (only those take the sender's scope id; D38)
            ll = bool(ip.version == 6 and ip.is_link_local)
        except ValueError:
            ll = None
    return {"scheme": d.scheme, "path": d.path, "query": d.query, "fragment": d.fragment,
            "hostname": hostname, "port": port, "link_local": ll}


def url_coq(tok, u, info) -> str:
    if info is None:
        return f"({tok.s(u)}, no_url)"
    port = {"none": "PortNone", "error": "PortError"}.get(info["port"][0]) or f"(PortOk {info['port'][1]}%N)"
    hn = "None" if info["hostname"] is None else f"(Some {tok.s(info['hostname'])})"
    ll = "None" if info["link_local"] is None else f"(Some {C.c_bool(info['link_local'])})"
    return (f"({tok.s(u)}, {{| u_split_ok := true; u_scheme := {tok.s(info['scheme'])}; u_path := {tok.s(info['path'])}; "
            f"u_query := {tok.s(info['query'])}; u_fragment := {tok.s(info['fragment'])}; u_hostname := {hn}; "
            f"u_port := {port}; u_link_local := {ll} |}})")


def addr_coq(tok, a) -> str:
    v6 = "None" if len(a) == 2 else f"(Some ({a[2]}%N, {a[3]}%N))"
    return f"{{| a_host := {tok.s(a[0])}; a_port := {a[1]}%N; a_v6 := {v6} |}}"


def digest(bs: bytes):
    s = 0
    for i, b in enumerate(bs):
        s = (s + (i % 251 + 1) * (b + 1)) % 2147483647
    return [len(bs), s]


class Plugin:
    ID = "C01"
    HEADER = H.Tokens.HEADER
    RUN_MODULE = "C01.Run"
    GEN = ["Ssdp", "Types", "DateMatchers"]
    DEPENDS = ["C16", "C03", "C08"]
    CLAUSES = {1: "roundtrip", 2: "roundtrip_nul"}
    SHARD = 60
    SEARCH_CASES = 400
    RULE = ("histories of decode_ssdp_packet calls over 1..5 datagrams (built by build_ssdp_packet from a start line and a "
            "header map, or raw/mutated bytes) from IPv4 / scoped / unscoped IPv6 senders and ports, with mutations of earlier "
            "results in between; non-trivial = a built datagram with >= 2 headers decoded at least twice; distinct = distinct "
            "(case, observations)")
    TRUSTED = [
        "Coq 8.16.1 kernel + vm_compute",
        "tools/gen/ssdp.py (accepted start-line prefixes)",
        "harness/c01.py: scripted datetime.now, value tokens for address tuples, digest of built datagrams",
        "urlsplit / ip_address / urlunsplit are oracles recorded per case (urlunsplit with a non-empty netloc is modelled)",
        "aiohttp 3.9.5 HeadersParser.parse_headers (non-lax), bytes.decode('utf-8','surrogateescape'), multidict as modelled in C01/Model.v",
    ]
    ASSUMPTIONS = ["header names are ASCII (token characters)", "str.lower() on the first five characters of USN is ASCII-exact"]
    last_exhaustive = False

    # ------------------------------------------------------------------ generation
    def corpus(self):
        a4, a6 = ADDRS[0], ADDRS[3]
        hs = [["HOST", "239.255.255.250:1900"], ["Cache-Control", "max-age=1800"], ["LOCATION", "http://[fe80::2]:8080/d.xml"],
              ["NT", "upnp:rootdevice"], ["NTS", "ssdp:alive"], ["usn", "UUID:dev-1::upnp:rootdevice"], ["X-É", "värde 漢 🎵"]]
        return [
            {"dgrams": [["built", 0, hs]], "steps": [["dec", 0, a6, 0], ["mut", 0, ["set", "LOCATION", "x"]], ["mut", 0, ["del", "nt"]],
                                                     ["dec", 0, a6, 1], ["dec", 0, a4, 2], ["dec", 0, ADDRS[4], 3]]},
            # D3 (fixed): unparsable LOCATION from a scoped IPv6 sender
            {"dgrams": [["built", 2, [["LOCATION", "foo"], ["ST", "a"]]], ["built", 2, [["LOCATION", "http://[fe80::1/x"]]],
                        ["built", 2, [["LOCATION", "http://[fe80::2]:99999/x"]]]],
             "steps": [["dec", 0, a6, 0], ["dec", 1, a6, 0], ["dec", 2, a6, 0]]},
            # D27 (known finding): NUL inside a value
            {"dgrams": [["built", 0, [["X-A", "a\x00b"]]]], "steps": [["dec", 0, a4, 0]]},
            {"dgrams": [["built", 1, []], ["raw", list(b"NOTIFY * HTTP/1.1\r\nA:b\r\nA:c\r\na:d\r\nUSN: uuid:x::y\r\n\r\n")],
                        ["raw", list(b"NOTIFY * HTTP/1.1\xff\r\nA:b\r\n\r\n")], ["raw", list(b"HTTP/1.1 200 OK\nA:b")],
                        ["raw", list(b"HTTP/1.1 200 OK\r\nA :b\r\n\r\n")]],
             "steps": [["dec", i, a4, 0] for i in range(5)]},
        ]

    def _name(self, rng, used):
        for _ in range(50):
            base = rng.choice(["HOST", "CACHE-CONTROL", "LOCATION", "SERVER", "NT", "NTS", "USN", "ST", "MAN", "MX", "EXT", "DATE",
                               "BOOTID.UPNP.ORG", "CONFIGID.UPNP.ORG", "X-" + "".join(rng.choice("abcXYZ09" + TOKEN_EXTRA) for _ in range(rng.randint(1, 6)))])
            name = rng.choice([base, base.lower(), base.title(), base])
            if rng.random() < 0.04:
                # a header that spells one of the receiver's own metadata names (outside the statement's header maps: only
                # model and implementation are compared - the metadata derived from the source address must win)
                name = rng.choice(["_Port", "_PORT", "_Remote_Addr", "_TIMESTAMP", "_Local_Addr", "_Host", "_UDN", "_Location_Original",
                                   "_port", "_host", "_udn"])
            if name.lower() not in used:
                used.add(name.lower())
                return name
        return None

    def _value(self, rng, name):
        lname = name.lower()
        if lname == "location":
            return rng.choice(LOCATIONS)
        if lname == "usn":
            return rng.choice(["uuid:dev-1::upnp:rootdevice", "UUID:Dev-2", "uuid:", "uuid::x", "notuuid:1", "uuİd:x", "", "uuid:a::b::c",
                               "Uuid:Dev-3::upnp:rootdevice", "uUID:dev-4", "uuiD:x::y", "UuId:"])
        if lname == "cache-control":
            return rng.choice(["max-age=1800", "no-cache", "MAX-AGE = 5"])
        r = rng.random()
        if r < 0.5:
            return rng.choice(["ssdp:alive", "upnp:rootdevice", "239.255.255.250:1900", '"ssdp:discover"', "1", "", "Linux/3 UPnP/1.0 x/1",
                               "Mon, 01 Jan 2024 00:00:00 GMT"])
        alphabet = "ab Z:;=\t\x0b\x0c é漢\U0001f3b5\x7fİ"
        v = "".join(rng.choice(alphabet) for _ in range(rng.randint(0, 20)))
        if r < 0.9:
            v = v.strip(" \t")
        if rng.random() < 0.03:
            v += rng.choice(["\r", "\n", "\x00x", " "])
        if rng.random() < 0.03:
            v = "v" * rng.choice([1000, 8190, 8191])
        return v

    def _dgram(self, rng):
        r = rng.random()
        used = set()
        n = rng.choice([0, 1, 2, 4, 6, 9, rng.randint(0, 40)])
        hs = []
        for _ in range(n):
            name = self._name(rng, used)
            if name:
                hs.append([name, self._value(rng, name)])
        if r < 0.8:
            return ["built", rng.randrange(3), hs]
        from async_upnp_client.ssdp import build_ssdp_packet
        try:
            data = bytearray(build_ssdp_packet(STARTS[rng.randrange(3)], dict(hs)))
        except UnicodeEncodeError:
            data = bytearray(b"NOTIFY * HTTP/1.1\r\nA:b\r\n\r\n")
        for _ in range(rng.randint(1, 4)):
            k = rng.randrange(7)
            i = rng.randrange(len(data) + 1)
            if k == 0 and data:
                del data[i % len(data)]
            elif k == 1:
                data.insert(i, rng.choice([0xff, 0xc3, 0x80, 0x00, 0x0d, 0x0a, 0x3a, 0x20, 0x09, 0xe2, 0xf0]))
            elif k == 2:
                data = data[:i]
            elif k == 3:
                data[i:i] = b"\r\nDup:1\r\ndup:2"
            elif k == 4:
                data[i:i] = b"\n"
            elif k == 5 and data:
                data[i % len(data)] = rng.randrange(256)
            else:
                data[i:i] = rng.choice([b" :x", b"\r", b"\r\r\n", b"A B:c\r\n", b":\r\n"])
        return ["raw", list(data)]

    def _case(self, rng, big=False):
        nd = rng.randint(1, 5)
        dgrams = [self._dgram(rng) for _ in range(nd)]
        steps = []
        n_dec = 0
        for _ in range(rng.randint(2, 9 if not big else 14)):
            if n_dec and rng.random() < 0.35:
                steps.append(["mut", rng.randrange(n_dec), rng.choice([["set", rng.choice(["LOCATION", "x-new", "_host", "USN"]), "mutated"],
                                                                       ["del", rng.choice(["location", "usn", "_udn", "nt", "_timestamp"])],
                                                                       ["clear"], ["replace", [["only", "this"]]]])])
            else:
                steps.append(["dec", rng.randrange(nd), rng.choice(ADDRS), rng.randint(0, 5)] + ([rng.randrange(len(LOCALS))] if rng.random() < 0.5 else []))
                n_dec += 1
        return {"dgrams": dgrams, "steps": steps}

    def generate(self, rng, tier):
        n = 2500 if tier == "thorough" else 200
        cases = [self._case(rng) for _ in range(n)]
        if tier == "thorough":
            # exceed every lru_cache size with distinct datagrams, then revisit the first ones
            many = [["built", 0, [["X-N", str(i)], ["USN", f"uuid:d{i}::t"], ["LOCATION", f"http://[fe80::2]:80/{i}"]]] for i in range(600)]
            steps = [["dec", i, ADDRS[3], 0] for i in range(600)] + [["mut", 0, ["clear"]]] + [["dec", i, ADDRS[3], 1] for i in range(0, 600, 37)]
            cases.append({"dgrams": many, "steps": steps})
        return cases

    # ------------------------------------------------------------------ implementation
    def impl_search(self, rng, tier):
        """Implementation-only probe of the second observation point of the statement, "headers delivered to SsdpProtocol
        on_data callbacks": sequences of datagrams handed to ONE SsdpProtocol object; every delivery must carry the
        sender metadata of ITS datagram (_host, _port, _remote_addr), whatever was delivered before - in particular the
        same bytes from the same host and another port.  The model has no protocol object: never stands in for a theorem."""
        import asyncio
        from async_upnp_client.ssdp import SsdpProtocol, build_ssdp_packet, get_host_string
        n = 400 if tier == "thorough" else 60
        found, done = [], 0
        loop = asyncio.new_event_loop()
        try:
            for _ in range(n):
                got = []
                proto = SsdpProtocol(loop, on_data=lambda rl, h: got.append((rl, h)))

                class _T:
                    def get_extra_info(self, _n):
                        return None
                proto.connection_made(_T())
                start, hs = rng.choice([("NOTIFY * HTTP/1.1", [["NT", "upnp:rootdevice"], ["NTS", "ssdp:alive"], ["USN", "uuid:a::upnp:rootdevice"],
                                                               ["LOCATION", "http://192.168.1.10:80/d.xml"]]),
                                        ("HTTP/1.1 200 OK", [["ST", "upnp:rootdevice"], ["USN", "uuid:b::upnp:rootdevice"], ["LOCATION", "http://[fe80::2]:80/d"]])])
                data = build_ssdp_packet(start, dict(hs))
                other = build_ssdp_packet(start, dict(hs + [["X-N", "1"]]))
                hosts = [("192.168.1.10", None), ("fe80::1", 3), ("2001:db8::5", 0)]
                seq = []
                for _k in range(rng.randint(2, 6)):
                    host, scope = rng.choice(hosts[:2] if rng.random() < 0.7 else hosts)
                    port = rng.choice([1900, 50000, 1901])
                    addr = (host, port) if scope is None else (host, port, 0, scope)
                    seq.append((rng.choice([data, data, data, other, b"junk"]), addr))
                bad = None
                for i, (d, addr) in enumerate(seq):
                    del got[:]
                    try:
                        proto.datagram_received(d, addr)
                    except Exception as e:  # noqa: BLE001
                        bad = [i, "raised " + type(e).__name__]
                        break
                    if d == b"junk":
                        continue
                    if len(got) != 1:
                        bad = [i, f"{len(got)} deliveries"]
                        break
                    h = got[0][1]
                    want = {"_host": get_host_string(addr), "_port": addr[1], "_remote_addr": addr}
                    have = {k: h.get(k) for k in want}
                    if have != want:
                        bad = [i, {"delivered": {k: str(v) for k, v in have.items()}, "expected": {k: str(v) for k, v in want.items()}}]
                        break
                done += 1
                if bad:
                    found.append(("roundtrip", {"protocol_sequence": [[list(d), list(a)] for d, a in seq]}, {"step": bad[0], "what": bad[1]},
                                  "impl-search: a datagram delivered through SsdpProtocol.on_data carries sender metadata that is not its own"))
                    break
        finally:
            loop.close()
        return found, done

    def run_impl(self, case):
        from aiohttp.http_exceptions import InvalidHeader, LineTooLong
        from async_upnp_client import ssdp
        datas, digests, urls = [], [], {}
        for d in case["dgrams"]:
            if d[0] == "built":
                try:
                    data = ssdp.build_ssdp_packet(STARTS[d[1]], dict(d[2]))
                except UnicodeEncodeError:
                    data = None
                for k, v in d[2]:
                    if k.lower() == "location":
                        urls[v] = url_info(v)
            else:
                data = bytes(d[1])
            datas.append(data)
            digests.append(None if data is None else digest(data))
        results, obs = [], []
        tokens = {}
        with patch("async_upnp_client.ssdp.datetime", H.FakeDatetime):
            for st in case["steps"]:
                if st[0] == "mut":
                    r = results[st[1]]
                    if r is None:
                        continue
                    m = st[2]
                    try:
                        if m[0] == "set":
                            r[m[1]] = m[2]
                        elif m[0] == "del":
                            del r[m[1]]
                        elif m[0] == "clear":
                            r.clear()
                        else:
                            r.replace(dict(m[1]))
                    except KeyError:
                        pass
                    continue
                _, di, a, t = st[:4]
                local = tuple(LOCALS[st[4]]) if len(st) > 4 else tuple(LOCAL)
                data = datas[di]
                remote_tok = tokens.setdefault(tuple(a), 1000 + len(tokens))
                if data is None or not ssdp.is_valid_ssdp_packet(data):
                    results.append(None)
                    obs.append({"k": "invalid", "remote": remote_tok})
                    continue
                H.Clock.now_value = H.BASE + dt.timedelta(seconds=t)
                try:
                    rl, headers = ssdp.decode_ssdp_packet(data, local, tuple(a))
                except InvalidHeader:
                    results.append(None); obs.append({"k": "err", "e": "EInvalidHeader", "remote": remote_tok}); continue
                except LineTooLong:
                    results.append(None); obs.append({"k": "err", "e": "ELineTooLong", "remote": remote_tok}); continue
                except UnicodeDecodeError:
                    results.append(None); obs.append({"k": "err", "e": "EUnicodeDecode", "remote": remote_tok}); continue
                results.append(headers)
                items = []
                for k, v in headers.as_lower_dict().items():
                    if k == "_remote_addr":
                        v = ("tok", remote_tok if tuple(v) == tuple(a) else 1)
                    elif k == "_local_addr":
                        v = ("tok", 999 if v == local else 2)
                    elif k == "_port":
                        v = ("tok", v)
                    items.append([k, v])
                    if k in ("location", "_location_original") and isinstance(v, str):
                        urls.setdefault(v, url_info(v))
                obs.append({"k": "ok", "rl": rl, "items": items, "remote": remote_tok})
        return {"digests": digests, "steps": obs, "urls": urls}

    # ------------------------------------------------------------------ printers
    def to_coq(self, case, obs):
        tok = H.Tokens()

        def hv(v):
            if isinstance(v, tuple) and v[0] == "tok":
                return f"(HTok {v[1]}%N)"
            return tok.hval(v)
        dgs = []
        for d in case["dgrams"]:
            if d[0] == "built":
                hs = C.c_list((f"({tok.s(k)}, {tok.s(v)})" for k, v in d[2]), "(pystr * pystr)")
                dgs.append(f"(Built {tok.s(STARTS[d[1]])} {hs})")
            else:
                dgs.append(f"(Raw {C.c_bytes(bytes(d[1]))})")
        steps, sobs = [], []
        it = iter(obs["steps"])
        for st in case["steps"]:
            if st[0] != "dec":
                continue
            o = next(it)
            _, di, a, t = st[:4]
            steps.append(f"{{| ds_dgram := {di}%nat; ds_local := 999%N; ds_addr := {addr_coq(tok, a)}; ds_remote := {o['remote']}%N; "
                         f"ds_now := {H.c_time(H.us(H.BASE + dt.timedelta(seconds=t)))} |}}")
            if o["k"] == "invalid":
                sobs.append("DInvalid")
            elif o["k"] == "err":
                sobs.append(f"(DErr {o['e']})")
            else:
                items = C.c_list((f"({tok.s(k)}, {hv(v)})" for k, v in o["items"]), "(pystr * hval)")
                sobs.append(f"(DOk {tok.s(o['rl'])} {items})")
        digs = C.c_list((f"({d[0]}%N, {d[1]}%N)" if d else "(0%N, 0%N)" for d in obs["digests"]), "(N * N)")
        urls = C.c_list((url_coq(tok, u, i) for u, i in obs["urls"].items()), "(pystr * url_info)")
        body = (f"(({urls}, {C.c_list(dgs, 'dgram')}, {C.c_list(steps, 'dec_step')}) : input, "
                f"({digs}, {C.c_list(sobs, 'dec_obs')}) : observation)")
        return "(" + tok.wrap(body) + ")"

    # ------------------------------------------------------------------ evidence helpers
    def nontrivial(self, case, obs):
        oks = [o for o in obs["steps"] if o["k"] == "ok"]
        if len(oks) < 2:
            return None
        return C.case_hash([case, obs["steps"]])

    def describe(self, case, obs):
        return {"dgrams": [d if d[0] == "built" else ["raw", bytes(d[1]).decode("latin1")] for d in case["dgrams"][:3]],
                "steps": case["steps"][:8], "observations": obs["steps"][:4]}

    def summarize(self, cases, obss):
        kinds, res, nh = {}, {}, []
        for c, o in zip(cases, obss):
            for d in c["dgrams"]:
                kinds[d[0]] = kinds.get(d[0], 0) + 1
                if d[0] == "built":
                    nh.append(len(d[2]))
            for st in c["steps"]:
                kinds[st[0]] = kinds.get(st[0], 0) + 1
            if isinstance(o, dict) and "steps" in o:
                for s in o["steps"]:
                    key = s["k"] if s["k"] != "err" else s["e"]
                    res[key] = res.get(key, 0) + 1
        return {"by_kind": kinds, "decode_results": res, "headers_per_built_datagram_max": max(nh or [0])}

    def shrink(self, case):
        steps = case["steps"]
        for i in range(len(steps)):
            if len(steps) > 1:
                cand = steps[:i] + steps[i + 1:]
                # keep mutation indices meaningful
                ndec = 0
                ok = True
                for s in cand:
                    if s[0] == "dec":
                        ndec += 1
                    elif s[1] >= ndec:
                        ok = False
                if ok:
                    yield {**case, "steps": cand}
        for di, d in enumerate(case["dgrams"]):
            if d[0] == "built":
                for j in range(len(d[2])):
                    nd = [x for x in case["dgrams"]]
                    nd[di] = ["built", d[1], d[2][:j] + d[2][j + 1:]]
                    yield {**case, "dgrams": nd}
