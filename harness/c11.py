"""C11 — events that race the SUBSCRIBE response are not lost: harness.

Drives the REAL UpnpEventHandler / UpnpService of /repo (built by the real UpnpFactory) through schedules of the
atomic steps of coq/theories/C11/Model.v on a real asyncio event loop that is advanced ONE ITERATION at a time:

  ["notify", msg]            a task running handle_notify(headers, body); one iteration must finish it
  ["start", v]               a task running async_subscribe(service v); one iteration must leave it suspended on the
                             SUBSCRIBE request (a future held by the scripted requester)
  ["resp", v, reaction]      the oldest outstanding request of service v is answered (future result / exception); one
                             iteration must finish the call.  If no call is outstanding it is started first.

After every step the values (value_unchecked) of every variable of every service are read, so "once the subscribe
call has returned" is observed exactly then.  A section that does not finish within its iteration is observed as
"suspended" (the model never produces it).

case = {"svcs": [{"vars": [{"name", "type", "allowed"?, "range"?}, ...]}, ...], "steps": [step, ...]}
msg  = {"nt": str|None, "nts": str|None, "sid": str|None, "text": body text, "hk": "dict"|"ci"}
reaction = ["resp", status, sid|None, timeout header|None] | ["raise", class name]
"""
from __future__ import annotations

import asyncio
import itertools
import json
import logging
import random

from harness import common as C

EVENT_NS = "urn:schemas-upnp-org:event-1-0"
CALLBACK_URL = "http://192.168.1.2:8090/notify"

# --------------------------------------------------------------------------------------------
# variable pools
POOL = [
    {"name": "Volume", "type": "ui2", "range": ["0", "100"]},
    {"name": "Mute", "type": "boolean"},
    {"name": "TransportState", "type": "string", "allowed": ["STOPPED", "PLAYING", "PAUSED_PLAYBACK"]},
    {"name": "CurrentTrack", "type": "ui4"},
    {"name": "CurrentTrackURI", "type": "string"},
    {"name": "VolumeDB", "type": "i2", "range": ["-32768", "32767"]},
    {"name": "LastChange", "type": "string"},
    {"name": "X_Rate", "type": "r4"},
    {"name": "X_When", "type": "dateTime"},
    {"name": "X_Day", "type": "date"},
    {"name": "X_Char", "type": "char"},
    {"name": "X_Small", "type": "i1", "range": ["-5", "5"]},
    {"name": "SystemUpdateID", "type": "ui4"},
    {"name": "ContainerUpdateIDs", "type": "string"},
]
INT_VALUES = ["0", "1", "7", "50", "100", "101", "9999", "-1", "-5", "6", "65536", "abc", "", " 5", "5 ", "+3", "0x10",
              "1_0", "1.0", "4294967296"]
BOOL_VALUES = ["0", "1", "true", "false", "yes", "no", "TRUE", "Yes", "2", "", "on"]
FLOAT_VALUES = ["1.5", "0", "-2", "1e3", "nan", "abc", "", "1,5"]
DATE_VALUES = ["2020-01-02", "2020-01-02T03:04:05", "2020-01-02T03:04:05+01:00", "abc", "", "12345", "2020-13-45"]
STR_VALUES = ["", "x", "PLAYING", "STOPPED", "PAUSED_PLAYBACK", "a b", " lead", "a&b", "<tag>", "q\"uote", "é", "日本語",
              "http://h/x?a=1&b=2", "0:03:21", "1", "]]>", "NOT_IMPLEMENTED"]
UNKNOWN_NAMES = ["Foo", "volume", "VOLUME", "Event", "A_ARG_TYPE_InstanceID", "X_Unknown"]
VAR_NS = [None, None, None, None, "urn:schemas-upnp-org:service:RenderingControl:1", "urn:x", "urn:schemas-upnp-org:metadata-1-0/RCS/", "Volume"]
GOOD_TMO = [None, None, "Second-300", "Second-1800", "Second-infinite", "Second-0", "infinite", "1800"]
BAD_TMO = ["Second-abc", "Second-", "Second-1800.0", "Second--5", "Second-99999999999999999999", "Second-86400000000000"]
REQUESTER_ERRORS = ["UpnpConnectionError", "UpnpConnectionTimeoutError", "UpnpCommunicationError",
                    "UpnpClientResponseError", "TimeoutError", "RuntimeError"]
MALFORMED_BODIES = ["", "<", "<e:propertyset", "<a><b></a>", "garbage", "<e:propertyset xmlns:e=\"urn:schemas-upnp-org:event-1-0\"><e:property><Volume>1</e:property></e:propertyset>",
                    "<!DOCTYPE x [<!ENTITY a \"b\">]><x>&a;</x>", "<x>&bogus;</x>", "\x00<x/>", "<x/><y/>", "<p:x/>"]


def values_for(vdef, rng):
    if vdef is None:
        return rng.choice(STR_VALUES + INT_VALUES)
    t = vdef["type"]
    if vdef.get("allowed") and rng.random() < 0.7:
        return rng.choice(vdef["allowed"])
    if t in ("ui1", "ui2", "ui4", "ui8", "i1", "i2", "i4", "i8", "int"):
        return rng.choice(INT_VALUES)
    if t == "boolean":
        return rng.choice(BOOL_VALUES)
    if t in ("r4", "r8", "number", "float"):
        return rng.choice(FLOAT_VALUES)
    if t in ("date", "dateTime", "dateTime.tz", "time", "time.tz"):
        return rng.choice(DATE_VALUES)
    return rng.choice(STR_VALUES)


# --------------------------------------------------------------------------------------------
# description documents for the real factory
def _esc(s):
    return s.replace("&", "&amp;").replace("<", "&lt;").replace(">", "&gt;")


def device_xml(nsvc):
    svcs = "".join(
        f"<service><serviceType>urn:schemas-upnp-org:service:S{i}:1</serviceType><serviceId>urn:upnp-org:serviceId:S{i}</serviceId>"
        f"<controlURL>/c{i}</controlURL><eventSubURL>/e{i}</eventSubURL><SCPDURL>/s{i}.xml</SCPDURL></service>"
        for i in range(nsvc))
    return ('<?xml version="1.0"?><root xmlns="urn:schemas-upnp-org:device-1-0"><specVersion><major>1</major><minor>0</minor></specVersion>'
            '<device><deviceType>urn:schemas-upnp-org:device:D:1</deviceType><friendlyName>R</friendlyName>'
            '<manufacturer>m</manufacturer><modelName>n</modelName><UDN>uuid:c11</UDN>'
            f'<serviceList>{svcs}</serviceList></device></root>')


def scpd_xml(vars_):
    out = ['<?xml version="1.0"?><scpd xmlns="urn:schemas-upnp-org:service-1-0"><specVersion><major>1</major><minor>0</minor></specVersion>'
           '<actionList/><serviceStateTable>']
    for v in vars_:
        out.append(f'<stateVariable sendEvents="yes"><name>{_esc(v["name"])}</name><dataType>{v["type"]}</dataType>')
        if v.get("allowed"):
            out.append("<allowedValueList>" + "".join(f"<allowedValue>{_esc(a)}</allowedValue>" for a in v["allowed"]) + "</allowedValueList>")
        if v.get("range"):
            out.append(f"<allowedValueRange><minimum>{v['range'][0]}</minimum><maximum>{v['range'][1]}</maximum></allowedValueRange>")
        out.append("</stateVariable>")
    out.append("</serviceStateTable></scpd>")
    return "".join(out)


# --------------------------------------------------------------------------------------------
# renderer: property sets -> NOTIFY body text.  props = [[(ns|None, local, text|None), ...], ...]
def _text(s, rng):
    out = []
    for ch in s:
        if ch == "&":
            out.append(rng.choice(["&amp;", "&#38;"]))
        elif ch == "<":
            out.append(rng.choice(["&lt;", "&#60;"]))
        elif ch == ">":
            out.append(rng.choice(["&gt;", ">"]) if not "".join(out).endswith("]]") else "&gt;")
        elif ord(ch) > 127 and rng.random() < 0.3:
            out.append(f"&#{ord(ch)};")
        else:
            out.append(ch)
    return "".join(out)


def _attr(s):
    return '"' + s.replace("&", "&amp;").replace("<", "&lt;").replace('"', "&quot;") + '"'


def render_body(props, seed, plain=False):
    rng = random.Random(seed)
    if plain:
        parts = [f'<e:propertyset xmlns:e="{EVENT_NS}">']
        for p in props:
            parts.append("<e:property>")
            for ns, local, text in p:
                parts.append(f"<{local}>{_text(text or '', rng)}</{local}>" if ns is None else
                             f"<q:{local} xmlns:q={_attr(ns)}>{_text(text or '', rng)}</q:{local}>")
            parts.append("</e:property>")
        parts.append("</e:propertyset>")
        return "".join(parts)
    default_ns = rng.random() < 0.2          # the event namespace as default namespace of the root
    e = "" if default_ns else rng.choice(["e:", "e:", "ev:", "ns0:"])
    sp = rng.choice(["", "", "\n", "\n  ", " "])
    parts = []
    if rng.random() < 0.3:
        parts.append(rng.choice(['<?xml version="1.0"?>', '<?xml version="1.0" encoding="utf-8"?>']) + rng.choice(["", "\n"]))
    root_attr = f' xmlns="{EVENT_NS}"' if default_ns else f' xmlns:{e[:-1]}="{EVENT_NS}"'
    parts.append(f"<{e}propertyset{root_attr}>")

    def child(ns, local, text):
        if ns is None:
            open_ = f"<{local} xmlns=\"\"" if default_ns else f"<{local}"
            close = f"</{local}>"
        elif rng.random() < 0.5:
            open_, close = f"<q:{local} xmlns:q={_attr(ns)}", f"</q:{local}>"
        else:
            open_, close = f"<{local} xmlns={_attr(ns)}", f"</{local}>"
        if text is None:
            return open_ + rng.choice(["/>", " />"]) if rng.random() < 0.7 else open_ + ">" + close
        body = _text(text, rng)
        if text and "]]>" not in text and rng.random() < 0.08:
            body = "<![CDATA[" + text + "]]>"
        if rng.random() < 0.05:
            body += "<sub>ignored</sub>tail"
        return open_ + ">" + body + close

    def noise():
        r = rng.random()
        if r < 0.80:
            return sp
        if r < 0.86:
            return "<!-- <e:property><Volume>77</Volume></e:property> -->"
        if r < 0.92:      # a property element of another namespace: not an event property
            return '<x:property xmlns:x="urn:other"><Volume>98</Volume><Mute>1</Mute></x:property>'
        if r < 0.96:      # nested deeper: not a child of the root
            return f"<{e}wrapper><{e}property><Volume>97</Volume></{e}property></{e}wrapper>"
        return f"<{e}other><Volume>96</Volume></{e}other>"

    for p in props:
        parts.append(noise())
        if not p and rng.random() < 0.5:
            parts.append(f"<{e}property/>")
            continue
        parts.append(f"<{e}property>")
        for ns, local, text in p:
            parts.append(sp if rng.random() < 0.5 else "")
            parts.append(child(ns, local, text))
        parts.append(f"</{e}property>")
    parts.append(noise())
    parts.append(f"</{e}propertyset>")
    if rng.random() < 0.3:
        parts.append(rng.choice(["\r\n", "\n", " ", "\x00", "\r\n\x00", "\t\n \x00\x00"]))
    return "".join(parts)


def oracle_body(text):
    """What the defused ElementTree parser delivers for a NOTIFY body: the (tag, text) children of the
    event:property children of the root, per property element - or the class of the exception."""
    import defusedxml.ElementTree as DET
    try:
        root = DET.fromstring(text.rstrip(" \t\r\n\0"))
    except Exception as e:  # noqa: BLE001 - the class is the observation
        return ["bad", type(e).__name__]
    return ["props", [[[c.tag, c.text] for c in p] for p in root.findall("./{%s}property" % EVENT_NS)]]


def cands(tag):
    out = [tag]
    if "}" in tag:
        out.append(tag.split("}")[1])
    return out


def value_obs(v, sentinel):
    if v is None:
        return None
    if v is sentinel:
        return ["err"]
    return ["val", repr(v)]


# --------------------------------------------------------------------------------------------
class _Env:
    """A real event handler and a device with the case's services built by the real factory; the requester
    answers GETs from a table and parks every SUBSCRIBE on a future."""

    def __init__(self, svcs):
        from async_upnp_client import exceptions as X
        from async_upnp_client.client import UpnpRequester, UpnpStateVariable
        from async_upnp_client.client_factory import UpnpFactory
        from async_upnp_client.event_handler import UpnpEventHandler, UpnpNotifyServer

        env = self
        self.X = X
        self.sentinel = UpnpStateVariable.UPNP_VALUE_ERROR
        self.loop = asyncio.new_event_loop()
        self.parked = []        # (service index, future) of SUBSCRIBE requests not yet seen by start()
        table = {"http://r:1/d.xml": device_xml(len(svcs))}
        for i, s in enumerate(svcs):
            table[f"http://r:1/s{i}.xml"] = scpd_xml(s["vars"])

        class Req(UpnpRequester):
            async def async_http_request(self, method, url, headers=None, body=None):
                if method == "GET":
                    return 200, {}, table[url]
                fut = env.loop.create_future()
                env.parked.append((url, method, fut))
                return await fut

        class NS(UpnpNotifyServer):
            @property
            def callback_url(self):
                return CALLBACK_URL

        async def build():
            req = Req()
            dev = await UpnpFactory(req).async_create_device("http://r:1/d.xml")
            return dev, UpnpEventHandler(NS(), req)

        self._build = build
        self.dev, self.eh = self.loop.run_until_complete(build())
        self.services = [self.dev.services[f"urn:schemas-upnp-org:service:S{i}:1"] for i in range(len(svcs))]
        self.names = [[v["name"] for v in s["vars"]] for s in svcs]
        self.pending = [[] for _ in svcs]     # per service: [(task, future)] oldest first
        self.renewed = set()

    def tick(self):
        """exactly one iteration of the event loop"""
        self.loop.call_soon(self.loop.stop)
        self.loop.run_forever()

    def drain(self, task):
        for _ in range(50):
            if task.done():
                return
            self.tick()

    def values(self):
        return [[value_obs(s.state_variable(n).value_unchecked, self.sentinel) for n in names]
                for s, names in zip(self.services, self.names)]

    def make_exc(self, name):
        X = self.X
        cls = getattr(X, name, None)
        if cls is None:
            return {"TimeoutError": asyncio.TimeoutError, "KeyError": KeyError, "ValueError": ValueError}.get(name, RuntimeError)("scripted")
        if name == "UpnpClientResponseError":
            import aiohttp
            from multidict import CIMultiDict, CIMultiDictProxy
            from yarl import URL
            info = aiohttp.RequestInfo(URL("http://r:1/e"), "SUBSCRIBE", CIMultiDictProxy(CIMultiDict()), URL("http://r:1/e"))
            return cls(request_info=info, history=(), status=503, message="scripted")
        if name in ("UpnpResponseError", "UpnpActionResponseError"):
            return cls(status=500)
        return cls("scripted")

    def _old_subscription(self, v, sid=None):
        """establish (and let the publisher forget) a subscription of service v under a SID no event of the case
        uses, so that the next SUBSCRIBE for v is the fall-back of a refused renewal"""
        task0 = self.loop.create_task(self.eh.async_subscribe(self.services[v]))
        n0 = len(self.parked)
        self.tick()
        if len(self.parked) != n0 + 1:
            task0.cancel()
            self.tick()
            return False
        _, _, fut = self.parked.pop()
        fut.set_result((200, {"sid": sid or f"uuid:previous-{v}", "timeout": "Second-1800"}, ""))
        self.drain(task0)
        return task0.done() and not task0.cancelled() and task0.exception() is None

    def start(self, v, via_renewal=False, old_sid=None):
        """-> observation of the start step.  With via_renewal the SUBSCRIBE is the one async_resubscribe falls back to
        after the publisher refused the renewal of an earlier subscription (412): the same call as far as the property
        is concerned - events racing ITS response must not be lost either."""
        if via_renewal and not self.pending[v] and v not in self.renewed and self._old_subscription(v, old_sid):
            self.renewed.add(v)
            task = self.loop.create_task(self.eh.async_resubscribe(self.services[v]))
            n0 = len(self.parked)
            self.tick()
            if len(self.parked) == n0 + 1 and self.parked[-1][1] == "SUBSCRIBE":
                _, _, f0 = self.parked.pop()
                f0.set_exception(self.X.UpnpResponseError(status=412))
                for _ in range(10):
                    if task.done() or len(self.parked) == n0 + 1:
                        break
                    self.tick()
        else:
            task = self.loop.create_task(self.eh.async_subscribe(self.services[v]))
            n0 = len(self.parked)
            self.tick()
        if task.done() or len(self.parked) != n0 + 1 or self.parked[-1][1] != "SUBSCRIBE":
            self.drain(task)
            for (_, _, f) in self.parked[n0:]:
                if not f.done():
                    f.cancel()
            del self.parked[n0:]
            task.cancel()
            self.tick()
            return ["suspended"]
        _, _, fut = self.parked.pop()
        self.pending[v].append((task, fut))
        return ["started"]

    def probe_second_handler(self, sids):
        """A second event handler of the same process (a second device object, its own subscriptions) is granted,
        one after the other, the SIDs in `sids` - SIDs that received NOTIFYs at the first handler without ever being
        granted there.  Nothing was ever delivered to the second handler, so its services must stay untouched.
        -> list of (sid, service index, variable, value) that are not None."""
        dev2, eh2 = self.loop.run_until_complete(self._build())
        services2 = [dev2.services[f"urn:schemas-upnp-org:service:S{i}:1"] for i in range(len(self.names))]
        bad = []
        for n, sid in enumerate(sorted(sids)):
            v = n % len(services2)
            task = self.loop.create_task(eh2.async_subscribe(services2[v]))
            n0 = len(self.parked)
            self.tick()
            if len(self.parked) != n0 + 1:
                task.cancel()
                self.tick()
                continue
            _, _, fut = self.parked.pop()
            fut.set_result((200, {"sid": sid, "timeout": "Second-1800"}, ""))
            self.drain(task)
            for name in self.names[v]:
                val = services2[v].state_variable(name).value_unchecked
                if val is not None:
                    bad.append([sid, v, name, repr(val)[:60]])
        return bad

    def close(self):
        for q in self.pending:
            for task, fut in q:
                task.cancel()
        try:
            self.tick()
        finally:
            self.loop.close()


def _result_obs(task):
    from datetime import timedelta
    if task.cancelled():
        return ["sub", "err", "CancelledError"]
    e = task.exception()
    if e is not None:
        return ["sub", "err", type(e).__name__]
    r = task.result()
    if isinstance(r, tuple) and len(r) == 2 and isinstance(r[0], str) and isinstance(r[1], timedelta):
        secs = r[1].days * 86400 + r[1].seconds
        return ["sub", "ok", r[0], secs]
    return ["sub", "err", "BadReturn"]


class Plugin:
    ID = "C11"
    RUN_MODULE = "C11.Run"
    GEN = []
    DEPENDS = []
    CLAUSES = {1: "early_answered_200", 2: "early_events_applied", 3: "ungranted_inert"}
    SHARD = 250
    SEARCH_CASES = 3000
    RULE = ("schedules of NOTIFY deliveries, subscribe starts and SUBSCRIBE responses over 1..3 services built by the real "
            "factory: (a) exhaustive small scope - up to 4 NOTIFYs for the first service's SID, every assignment of the "
            "non-empty subsets of 3 variables to them, every position of the first service's response, a second service's "
            "SUBSCRIBE completing at every position, an early NOTIFY for a SID that is never granted; (b) random schedules "
            "with rendered bodies (namespaces, repeated/unknown/ill-typed variables, noise elements), failing and malformed "
            "responses, SIDs granted twice or to another service, malformed bodies and headers; non-trivial = at least one "
            "NOTIFY arrived before its SID was granted and that SID was granted later; distinct = distinct (schedule, observations)")
    TRUSTED = [
        "Coq 8.16.1 kernel + vm_compute (no native_compute, no extraction)",
        "harness/c11.py: services/descriptions for the real UpnpFactory, body renderer, scripted requester parking every SUBSCRIBE "
        "on a future, one-iteration stepping of a real asyncio loop, observation through value_unchecked / returned statuses / "
        "task results, Gallina printers",
        "atomicity of the two sections (handle_notify; async_subscribe after its request) is CHECKED at every step on the real "
        "loop (one iteration must finish them), not proved; the schedule space of the theorems is the lists of atomic steps",
        "defusedxml/ElementTree (oracle): body text -> (tag, text) children of the event:property children of the root, or the "
        "exception class; computed by the harness with the same four library calls handle_notify makes",
        "UpnpStateVariable.coerce_python / validate_value (oracle, C08's subject): outcome per (service, variable, text), computed "
        "on a separate device; premise of the theorems: they raise ValueError/UpnpValueError only",
        "Python dict/str semantics as modelled in Prelude/PyDict.v (insertion order, update in place), split('}')[1]; int() on ASCII; "
        "timedelta range; weakref: the services are kept alive by the harness (entries never die); on_event is unset",
    ]
    ASSUMPTIONS = [
        "Reading: a NOTIFY of the statement is an event message (NT upnp:event, NTS upnp:propchange, SID present) with a well-formed "
        "XML body; inside one NOTIFY a variable is named by one tag spelling (the last occurrence counts)",
        "Reading: 'the value from the latest NOTIFY that carried it' = the outcome of assigning that text through the normal event "
        "path: stored, UPNP_VALUE_ERROR for text the type cannot read, left alone when validation rejects it (then the next-latest counts)",
        "Reading: a SUBSCRIBE is granted when the response is 200 with a SID and an acceptable TIMEOUT header; the schedule alphabet has no "
        "unsubscribe/renewal (C09/C12)",
        "the model describes the code as repaired by proposed/C11/D18.diff",
    ]
    last_exhaustive = False

    def __init__(self):
        logging.disable(logging.CRITICAL)
        self._intern = {}
        self._oracle_env = {}

    # Every distinct string is defined once per shard file and referred to by name (DESIGN 1.2).
    @property
    def HEADER(self):  # noqa: N802 - attribute name fixed by the driver
        lines = ["Notation nS := (@None str) (only parsing)."]
        for text, name in self._intern.items():
            lines.append(f"Definition {name} : str := {C.c_str(text)}.")
        return "\n".join(lines)

    def _s(self, text):
        if len(text) < 2:
            return C.c_str(text)
        name = self._intern.get(text)
        if name is None:
            name = self._intern[text] = f"z{len(self._intern)}"
        return name

    def _os(self, text):
        return "nS" if text is None else f"(Some {self._s(text)})"

    # ------------------------------------------------------------------ corpus
    def corpus(self):
        out = list(self._builtin_corpus())
        d = C.VERIF / "corpus" / "C11"
        if d.is_dir():
            for f in sorted(d.glob("*.json")):
                data = json.loads(f.read_text())
                out.append(data["case"] if "case" in data else data)
        return out

    @staticmethod
    def _msg(sid, props, seed=0, plain=True, **kw):
        m = {"nt": "upnp:event", "nts": "upnp:propchange", "sid": sid, "hk": "dict",
             "text": render_body(props, seed, plain=plain)}
        m.update(kw)
        return m

    def _builtin_corpus(self):
        rc = {"vars": [POOL[0], POOL[1]]}
        avt = {"vars": [POOL[2], POOL[3]]}
        ok = ["resp", 200, "uuid:1", "Second-300"]
        M = self._msg
        return [
            # D18: NOTIFY{Volume=10} then NOTIFY{Mute=1} before the SUBSCRIBE response: Volume must be 10 afterwards
            {"svcs": [rc], "steps": [["start", 0], ["notify", M("uuid:1", [[(None, "Volume", "10")]])],
                                     ["notify", M("uuid:1", [[(None, "Mute", "1")]])], ["resp", 0, ok]]},
            # the initial full event followed by a change of one variable
            {"svcs": [rc, avt], "steps": [["start", 0], ["start", 1],
                                          ["notify", M("uuid:1", [[(None, "Volume", "10")], [(None, "Mute", "0")]])],
                                          ["notify", M("uuid:1", [[(None, "Volume", "11")]])],
                                          ["notify", M("uuid:2", [[(None, "TransportState", "PLAYING")]])],
                                          ["resp", 1, ["resp", 200, "uuid:2", None]], ["resp", 0, ok]]},
            # three early NOTIFYs, the latest value of every variable; an early NOTIFY for a SID never granted
            {"svcs": [rc], "steps": [["start", 0], ["notify", M("uuid:1", [[(None, "Volume", "1"), (None, "Mute", "1")]])],
                                     ["notify", M("uuid:9", [[(None, "Volume", "99")]])],
                                     ["notify", M("uuid:1", [[(None, "Volume", "2")]])],
                                     ["notify", M("uuid:1", [[(None, "Mute", "0")]])], ["resp", 0, ok],
                                     ["notify", M("uuid:1", [[(None, "Volume", "3")]])]]},
            # a failed subscribe leaves the early NOTIFY alone; the retry picks it up
            {"svcs": [rc], "steps": [["start", 0], ["notify", M("uuid:1", [[(None, "Volume", "5")]])],
                                     ["resp", 0, ["resp", 500, "uuid:1", None]], ["resp", 0, ["raise", "UpnpConnectionError"]],
                                     ["resp", 0, ["resp", 200, None, None]], ["resp", 0, ["resp", 200, "uuid:1", "Second-abc"]],
                                     ["resp", 0, ok]]},
            # outside the statement's domain (compared with the model only): a malformed early body
            {"svcs": [rc], "steps": [["notify", M("uuid:1", [[(None, "Volume", "5")]])],
                                     ["notify", dict(M("uuid:1", []), text="<broken")],
                                     ["notify", M("uuid:1", [[(None, "Mute", "1")]])], ["resp", 0, ok], ["resp", 0, ok]]},
        ]

    # ------------------------------------------------------------------ generation
    def _small_scope(self, max_n):
        """Reading of the quantifier: NOTIFY#0..#k (k <= 3) for the first service's SID, in arrival order, every assignment
        of the non-empty subsets of three variables to them (values distinct per NOTIFY), the response of the first service
        at every position, a second service's SUBSCRIBE completing at every position; the first call started at the very
        beginning or just before its response; optionally one early NOTIFY for a SID that is never granted."""
        s0 = {"vars": [POOL[0], POOL[3], POOL[4]]}       # Volume ui2 0..100, CurrentTrack ui4, CurrentTrackURI string
        s1 = {"vars": [POOL[0], POOL[1]]}
        names = ["Volume", "CurrentTrack", "CurrentTrackURI"]
        subsets = [c for k in (1, 2, 3) for c in itertools.combinations(range(3), k)]
        bodies = {}

        def msg(i, sub):
            key = (i, sub)
            if key not in bodies:
                props = [[(None, names[j], str(10 * (i + 1) + j))] for j in sub]
                bodies[key] = self._msg("uuid:a", props)
            return bodies[key]
        stray = self._msg("uuid:x", [[(None, "Volume", "99")]])
        other = self._msg("uuid:b", [[(None, "Volume", "77")]])
        for n in range(1, max_n + 1):
            for assign in itertools.product(subsets, repeat=n):
                notes = [["notify", msg(i, sub)] for i, sub in enumerate(assign)]
                for pa in range(n + 1):                       # response of service 0 after pa NOTIFYs
                    for pb in range(n + 2):                   # service 1 completes at slot pb of the resulting list
                        seq = notes[:pa] + [["resp", 0, ["resp", 200, "uuid:a", "Second-300"]]] + notes[pa:]
                        variant = (pa + pb + n) % 4
                        b = [["notify", other]] if variant == 1 else []
                        b += [["resp", 1, ["resp", 200, "uuid:b", None]]]
                        seq = seq[:pb] + b + seq[pb:]
                        if variant == 2:
                            seq = [["notify", stray]] + seq
                        if variant != 3:
                            seq = [["start", 0]] + seq
                        yield {"svcs": [s0, s1], "steps": seq}

    def _small_words(self, max_len):
        """Every word of length <= max_len over three fixed messages (two of them about the same variable), so that
        verbatim repetitions occur, with the response at every position."""
        s0 = {"vars": [POOL[0], POOL[1]]}
        alphabet = [self._msg("uuid:AB-1", [[(None, "Volume", "1")]]), self._msg("uuid:AB-1", [[(None, "Volume", "2")]]),
                    self._msg("uuid:AB-1", [[(None, "Mute", "1")], [(None, "Volume", "3")]])]
        for n in range(1, max_len + 1):
            for word in itertools.product(range(3), repeat=n):
                notes = [["notify", alphabet[i]] for i in word]
                for pa in range(n + 1):
                    yield {"svcs": [s0], "steps": [["start", 0]] + notes[:pa] + [["resp", 0, ["resp", 200, "uuid:AB-1", None]]] + notes[pa:]}

    def _svcs(self, rng):
        n = rng.choice([1, 2, 2, 3])
        out = []
        for _ in range(n):
            k = rng.randint(1, 4)
            out.append({"vars": rng.sample(POOL, k)})
        return out

    def _props(self, rng, svc, wild):
        defs = {v["name"]: v for v in svc["vars"]}
        nprop = rng.choice([1, 1, 1, 2, 2, 3, 0]) if wild else rng.choice([1, 1, 2, 3])
        props = []
        used = {}
        for _ in range(nprop):
            nk = rng.choice([1, 1, 1, 2, 0]) if wild else 1
            kids = []
            for _ in range(nk):
                if defs and rng.random() < (0.8 if wild else 0.95):
                    n = rng.choice(sorted(defs))
                else:
                    n = rng.choice(UNKNOWN_NAMES)
                ns = used.get(n, rng.choice(VAR_NS))
                if wild and rng.random() < 0.1:
                    ns = rng.choice(VAR_NS)              # possibly a second spelling (outside the domain)
                used.setdefault(n, ns)
                text = values_for(defs.get(n), rng)
                if rng.random() < 0.05:
                    text = None
                kids.append((ns, n, text))
            props.append(kids)
        return props

    def _random_case(self, rng, wild):
        svcs = self._svcs(rng)
        nsvc = len(svcs)
        nsid = rng.randint(1, 3)
        sids = [rng.choice([f"uuid:{i}", f"uuid:{i}", f"uuid:AB-{i}", f"UUID:{i}e"]) for i in range(nsid)] + ["uuid:never"]
        owner = {s: rng.randrange(nsvc) for s in sids}
        steps = []
        for _ in range(rng.randint(2, 12 if wild else 9)):
            r = rng.random()
            if r < 0.55:
                sid = rng.choice(sids)
                svc = svcs[owner[sid]] if rng.random() < 0.9 else rng.choice(svcs)
                m = {"nt": "upnp:event", "nts": "upnp:propchange", "sid": sid, "hk": rng.choice(["dict", "ci"]),
                     "text": render_body(self._props(rng, svc, wild), rng.randrange(1 << 30))}
                if m["hk"] == "ci":
                    m["sp"] = rng.choice(["upper", "title", "lower"])
                if wild:
                    q = rng.random()
                    if q < 0.08:
                        m["text"] = rng.choice(MALFORMED_BODIES)
                    elif q < 0.12:
                        m[rng.choice(["nt", "nts", "sid"])] = None
                    elif q < 0.16:
                        m[rng.choice(["nt", "nts"])] = rng.choice(["upnp:event", "upnp:propchange", "UPNP:EVENT", ""])
                    elif q < 0.18:
                        m["sid"] = ""
                sent = [st[1] for st in steps if st[0] == "notify"]
                if sent and rng.random() < 0.12:
                    m = dict(rng.choice(sent))          # the publisher repeats an earlier message verbatim
                steps.append(["notify", m])
            elif r < 0.7:
                steps.append(["start", rng.randrange(nsvc)])
            else:
                sid = rng.choice(sids[:-1])
                v = owner[sid] if rng.random() < 0.9 else rng.randrange(nsvc)
                q = rng.random()
                if q < 0.7:
                    rc = ["resp", 200, sid, rng.choice(GOOD_TMO)]
                elif q < 0.8:
                    rc = ["resp", rng.choice([412, 500, 404, 201]), rng.choice([None, sid]), None]
                elif q < 0.86:
                    rc = ["resp", 200, None, None]
                elif q < 0.92:
                    rc = ["resp", 200, sid, rng.choice(BAD_TMO)]
                else:
                    rc = ["raise", rng.choice(REQUESTER_ERRORS)]
                if wild and rng.random() < 0.03:
                    rc = ["resp", 200, "", None]
                steps.append(["resp", v, rc])
        return {"svcs": svcs, "steps": steps}

    def _burst_case(self, rng):
        """A publisher that has a lot to say before the SUBSCRIBE response arrives: 11..16 event messages for one SID
        (their SEQ runs past 9), then the response."""
        svcs = self._svcs(rng)
        v = rng.randrange(len(svcs))
        sid = rng.choice(["uuid:0", "uuid:AB-0"])
        steps = [["start", v]]
        hk = rng.choice(["dict", "ci"])
        for _ in range(rng.randint(11, 16)):
            m = {"nt": "upnp:event", "nts": "upnp:propchange", "sid": sid, "hk": hk,
                 "text": render_body(self._props(rng, svcs[v], False), rng.randrange(1 << 30))}
            if hk == "ci":
                m["sp"] = rng.choice(["upper", "title", "lower"])
            steps.append(["notify", m])
        steps.append(["resp", v, ["resp", 200, sid, rng.choice(GOOD_TMO)]])
        if rng.random() < 0.5:
            steps.append(["notify", {"nt": "upnp:event", "nts": "upnp:propchange", "sid": sid, "hk": hk,
                                     "text": render_body(self._props(rng, svcs[v], False), rng.randrange(1 << 30))}])
        return {"svcs": svcs, "steps": steps}

    def generate(self, rng, tier):
        if tier == "thorough":
            cases = list(self._small_scope(4)) + list(self._small_words(5))
            self.last_exhaustive = True
            n_rand, n_wild = 6000, 3000
        else:
            cases = list(self._small_scope(2)) + list(self._small_words(4))
            cases += rng.sample(list(self._small_scope(3)), 250)
            n_rand, n_wild = 500, 300
        for _ in range(n_rand):
            cases.append(self._random_case(rng, False))
        for _ in range(n_rand // 25):
            cases.append(self._burst_case(rng))
        for _ in range(n_wild):
            cases.append(self._random_case(rng, True))
        # the same histories with every first SUBSCRIBE of a service issued by the renewal fall-back of async_resubscribe
        base = list(cases)
        for c in rng.sample(base, min(len(base), 300 if tier != "thorough" else 3000)):
            cases.append({**c, "via_renewal": rng.choice([True, "same_sid"])})
        return cases

    def impl_search(self, rng, tier):
        """Implementation-only search for the directly observable part of clause 3 across event handlers: NOTIFYs one
        handler received for SIDs it never held must not surface at ANOTHER handler of the same process that is later
        granted such a SID (a backlog shared between handlers would do that).  Never stands in for a theorem."""
        n = 1200 if tier == "thorough" else 120
        found, done = [], 0
        for _ in range(n):
            case = self._random_case(rng, rng.random() < 0.4)
            env = _Env(case["svcs"])
            try:
                for st in case["steps"]:
                    if st[0] == "notify":
                        m = st[1]
                        task = env.loop.create_task(env.eh.handle_notify(self._headers(m), m["text"]))
                        env.tick()
                        env.drain(task)
                sids = {st[1].get("sid") for st in case["steps"] if st[0] == "notify" and st[1].get("sid")}
                sids = {x for x in sids if isinstance(x, str) and env.eh.service_for_sid(x) is None}
                bad = env.probe_second_handler(sids) if sids else []
            except Exception:  # noqa: BLE001 - this search must not abort the check
                bad = []
            finally:
                env.close()
            done += 1
            if bad:
                notify_only = {"svcs": case["svcs"], "steps": [st for st in case["steps"] if st[0] == "notify"]}
                found.append(("ungranted_inert", notify_only, {"second_handler_values": bad},
                              "impl-search: NOTIFYs received by one event handler for a SID it never held were applied "
                              "by a second handler that was later granted that SID"))
                break
        return found, done

    # ------------------------------------------------------------------ implementation
    _seq = {}

    @classmethod
    def _headers(cls, m):
        pairs = [("HOST", "192.168.1.2:8090"), ("CONTENT-TYPE", 'text/xml; charset="utf-8"')]
        for k, f in (("NT", "nt"), ("NTS", "nts"), ("SID", "sid")):
            if m.get(f) is not None:
                pairs.append((k, m[f]))
        # the publisher counts its event messages per subscription, as GENA prescribes (0, 1, 2, ... 10, 11, ...)
        n = cls._seq.get(m.get("sid"), 0)
        cls._seq[m.get("sid")] = n + 1
        pairs.append(("SEQ", str(n)))
        if m.get("hk") == "ci":
            # what aiohttp hands to the handler: a case-insensitive multi-mapping; publishers spell the names as they like
            from multidict import CIMultiDict, CIMultiDictProxy
            sp = {"title": str.title, "lower": str.lower}.get(m.get("sp"), lambda x: x)
            return CIMultiDictProxy(CIMultiDict([(sp(k), v) for k, v in pairs]))
        return dict(pairs)

    def run_impl(self, case):
        type(self)._seq = {}
        env = _Env(case["svcs"])
        # via_renewal == "same_sid": the publisher forgets the earlier subscription and then grants the same SID string
        # again (a rebooted device with counter-style SIDs): the earlier subscription uses the SID the case's first
        # response for that service will carry
        old_sids = {}
        if case.get("via_renewal") == "same_sid":
            first_step = {}
            for idx, st in enumerate(case["steps"]):
                if st[0] != "notify":
                    first_step.setdefault(st[1], idx)
                    if st[0] != "start" and st[2][0] == "resp" and isinstance(st[2][2], str) and st[1] not in old_sids:
                        old_sids[st[1]] = st[2][2]
            for v, sid in list(old_sids.items()):
                # only when no NOTIFY for that SID precedes the service's first SUBSCRIBE (it would be replayed at once
                # by the earlier subscription, which a plain subscribe has no counterpart for) and no other service is
                # given the same SID
                early = any(st[0] == "notify" and st[1].get("sid") == sid for st in case["steps"][:first_step[v]])
                if early or list(old_sids.values()).count(sid) > 1:
                    del old_sids[v]
        try:
            obs = []
            for idx, st in enumerate(case["steps"]):
                if st[0] == "notify":
                    m = st[1]
                    task = env.loop.create_task(env.eh.handle_notify(self._headers(m), m["text"]))
                    env.tick()
                    if not task.done():
                        env.drain(task)
                        if not task.done():
                            task.cancel()
                            env.tick()
                        what = ["suspended"]
                    elif task.cancelled():
                        what = ["notify", "raise", "CancelledError"]
                    elif task.exception() is not None:
                        what = ["notify", "raise", type(task.exception()).__name__]
                    else:
                        r = task.result()
                        try:
                            what = ["notify", "status", int(r)]
                        except Exception:  # noqa: BLE001
                            what = ["notify", "raise", "BadReturn"]
                elif st[0] == "start":
                    what = env.start(st[1], case.get("via_renewal", False), old_sids.get(st[1]))
                else:
                    v, r = st[1], st[2]
                    what = None
                    if not env.pending[v]:
                        w = env.start(v, case.get("via_renewal", False), old_sids.get(v))
                        if w != ["started"]:
                            what = w
                    if what is None:
                        task, fut = env.pending[v].pop(0)
                        if r[0] == "resp":
                            pairs = [("SERVER", "fake/1.0 UPnP/1.0"), ("CONTENT-LENGTH", "0")]
                            if r[2] is not None:
                                pairs.append(("SID", r[2]))
                            if r[3] is not None:
                                pairs.append(("TIMEOUT", r[3]))
                            if idx % 2:
                                from multidict import CIMultiDict, CIMultiDictProxy
                                hdrs = CIMultiDictProxy(CIMultiDict(pairs))
                            else:
                                hdrs = {k.lower(): x for k, x in pairs}
                            fut.set_result((r[1], hdrs, ""))
                        else:
                            fut.set_exception(env.make_exc(r[1]))
                        env.tick()
                        if not task.done():
                            # the values are read NOW: the call has not returned although its section should be atomic
                            vals = env.values()
                            env.drain(task)
                            if not task.done():
                                task.cancel()
                                env.tick()
                            obs.append({"what": ["suspended"], "vals": vals})
                            continue
                        what = _result_obs(task)
                obs.append({"what": what, "vals": env.values()})
            return obs
        finally:
            env.close()

    # ------------------------------------------------------------------ oracles
    def _conv_env(self, svcs):
        key = C.case_hash(svcs)
        if key not in self._oracle_env:
            if len(self._oracle_env) > 48:
                for e in self._oracle_env.values():
                    e.close()
                self._oracle_env.clear()
            self._oracle_env[key] = _Env(svcs)
        return self._oracle_env[key]

    def _oracles(self, case):
        """-> (parsed body per notify step, conv table {(v, name, text): outcome}) from the real parser / coercers,
        computed apart from the observed run."""
        from async_upnp_client.exceptions import UpnpValueError
        env = self._conv_env(case["svcs"])
        parsed = {}
        conv = {}
        for i, st in enumerate(case["steps"]):
            if st[0] != "notify":
                continue
            p = oracle_body(st[1]["text"])
            parsed[i] = p
            if p[0] != "props":
                continue
            for prop in p[1]:
                for tag, text in prop:
                    x = text or ""
                    for v, names in enumerate(env.names):
                        for n in cands(tag):
                            if n in names and (v, n, x) not in conv:
                                sv = env.services[v].state_variable(n)
                                try:
                                    val = sv.coerce_python(x)
                                except ValueError:
                                    conv[(v, n, x)] = ["valueerror"]
                                    continue
                                except Exception as e:  # noqa: BLE001
                                    conv[(v, n, x)] = ["raise", type(e).__name__]
                                    continue
                                try:
                                    sv.validate_value(val)
                                except UpnpValueError:
                                    conv[(v, n, x)] = ["invalid"]
                                    continue
                                except Exception as e:  # noqa: BLE001
                                    conv[(v, n, x)] = ["raise", type(e).__name__]
                                    continue
                                conv[(v, n, x)] = ["set", repr(val)]
        return parsed, conv

    # ------------------------------------------------------------------ printers
    def _vstate(self, v):
        if v is None:
            return "VNone"
        if v[0] == "err":
            return "VError"
        return f"(VVal {self._s(v[1])})"

    def _reaction(self, r):
        if r[0] == "resp":
            return f"(RResp {C.c_N(r[1])} {self._os(r[2])} {self._os(r[3])})"
        return f"(RFail {self._s(r[1])})"

    def _what(self, w):
        if w[0] == "notify":
            return f"(ONotify (NStatus {C.c_N(w[2])}))" if w[1] == "status" else f"(ONotify (NRaise {self._s(w[2])}))"
        if w[0] == "started":
            return "OStarted"
        if w[0] == "sub":
            return f"(OSub (SOk {self._s(w[2])} {C.c_Z(w[3])}))" if w[1] == "ok" else f"(OSub (SErr {self._s(w[2])}))"
        return "OSuspended"

    def to_coq(self, case, obs):
        parsed, conv = self._oracles(case)
        vars_ = C.c_list((C.c_list((self._s(v["name"]) for v in s["vars"]), "str") for s in case["svcs"]), "(list str)")
        ct = []
        for (v, n, x), o in conv.items():
            oc = {"set": lambda: f"OSet {self._s(o[1])}", "valueerror": lambda: "OValueError", "invalid": lambda: "OInvalid",
                  "raise": lambda: f"ORaise {self._s(o[1])}"}[o[0]]()
            ct.append(f"(({C.c_nat(v)}, ({self._s(n)}, {self._s(x)})), {oc})")
        steps = []
        for i, st in enumerate(case["steps"]):
            if st[0] == "notify":
                m, p = st[1], parsed[i]
                if p[0] == "props":
                    body = "BProps " + C.c_list((C.c_list((f"({self._s(t)}, {self._os(x)})" for t, x in prop), "(str * option str)")
                                                 for prop in p[1]), "(list (str * option str))")
                else:
                    body = f"BBad {self._s(p[1])}"
                steps.append(f"Notify (mkMsg {self._os(m.get('nt'))} {self._os(m.get('nts'))} {self._os(m.get('sid'))} ({body}))")
            elif st[0] == "start":
                steps.append(f"SubStart {C.c_nat(st[1])}")
            else:
                steps.append(f"SubResp {C.c_nat(st[1])} {self._reaction(st[2])}")
        inp = f"mkInput {vars_} {C.c_list(ct, '((nat * (str * str)) * outcome)')} {C.c_list(steps, 'step')}"
        so = [f"mkObs {self._what(o['what'])} " + C.c_list((C.c_list((self._vstate(x) for x in sv), "vstate") for sv in o["vals"]), "(list vstate)")
              for o in obs]
        return f"({inp}, {C.c_list(so, 'step_obs')})"

    # ------------------------------------------------------------------ evidence helpers
    @staticmethod
    def _granted(r):
        return r[0] == "resp" and r[1] == 200 and r[2] is not None and (r[3] is None or r[3] in GOOD_TMO)

    def _early_counts(self, case):
        """per SID: number of event NOTIFYs that arrived before its first grant (only SIDs granted later count)"""
        waiting, out = {}, {}
        granted = set()
        for st in case["steps"]:
            if st[0] == "notify":
                m = st[1]
                if m.get("nt") == "upnp:event" and m.get("nts") == "upnp:propchange" and m.get("sid") is not None \
                        and m["sid"] not in granted:
                    waiting[m["sid"]] = waiting.get(m["sid"], 0) + 1
            elif st[0] == "resp" and self._granted(st[2]):
                sid = st[2][2]
                if sid not in granted:
                    granted.add(sid)
                    if waiting.get(sid):
                        out[sid] = waiting[sid]
        return out

    def _in_domain(self, case):
        """the statement's domain as Run.dom / Run.oracle_ok decide it (evidence only; the decision is Coq's)"""
        names = [[v["name"] for v in s["vars"]] for s in case["svcs"]]
        parsed, conv = self._oracles(case)
        if any(o[0] == "raise" for o in conv.values()):
            return False
        for p in parsed.values():
            if p[0] != "props":
                return False
            tags = {t for prop in p[1] for t, _ in prop}
            for ns in names:
                seen = {}
                for t in tags:
                    r = next((c for c in cands(t) if c in ns), None)
                    if r is not None and seen.setdefault(r, t) != t:
                        return False
        return True

    def nontrivial(self, case, obs):
        if not self._early_counts(case):
            return None
        return C.case_hash([case["steps"], obs])

    def describe(self, case, obs):
        def short(st):
            if st[0] == "notify":
                return ["notify", st[1].get("sid"), st[1]["text"][:160]]
            return st
        return {"services": [[v["name"] + ":" + v["type"] for v in s["vars"]] for s in case["svcs"]],
                "steps": [short(s) for s in case["steps"]], "impl_observations": obs}

    def summarize(self, cases, obss):
        s = {"steps": {"notify": 0, "start": 0, "resp": 0}, "schedule_len_max": 0, "early_per_sid": {}, "granted_resp": 0,
             "failed_resp": 0, "malformed_bodies": 0, "non_event_headers": 0, "notify_results": {}, "sub_results": {},
             "services": {}, "suspended": 0, "in_domain": 0, "outside_domain": 0}
        for c, o in zip(cases, obss):
            s["in_domain" if self._in_domain(c) else "outside_domain"] += 1
            s["schedule_len_max"] = max(s["schedule_len_max"], len(c["steps"]))
            k = str(len(c["svcs"]))
            s["services"][k] = s["services"].get(k, 0) + 1
            for n in self._early_counts(c).values():
                s["early_per_sid"][str(n)] = s["early_per_sid"].get(str(n), 0) + 1
            for st in c["steps"]:
                s["steps"][st[0]] += 1
                if st[0] == "resp":
                    s["granted_resp" if self._granted(st[2]) else "failed_resp"] += 1
                elif st[0] == "notify":
                    m = st[1]
                    if m.get("nt") != "upnp:event" or m.get("nts") != "upnp:propchange" or m.get("sid") is None:
                        s["non_event_headers"] += 1
                    if "<" not in m["text"] or m["text"] in MALFORMED_BODIES:
                        s["malformed_bodies"] += 1
            if not isinstance(o, list):
                continue
            for so in o:
                w = so["what"]
                if w[0] == "notify":
                    key = str(w[2])
                    s["notify_results"][key] = s["notify_results"].get(key, 0) + 1
                elif w[0] == "sub":
                    key = "ok" if w[1] == "ok" else w[2]
                    s["sub_results"][key] = s["sub_results"].get(key, 0) + 1
                elif w[0] == "suspended":
                    s["suspended"] += 1
        return s

    def shrink(self, case):
        steps = case["steps"]
        for i in range(len(steps)):
            if len(steps) > 1:
                yield dict(case, steps=steps[:i] + steps[i + 1:])
        if len(case["svcs"]) > 1 and all(st[0] == "notify" or st[1] < len(case["svcs"]) - 1 for st in steps):
            yield dict(case, svcs=case["svcs"][:-1])
        for i, st in enumerate(steps):
            if st[0] == "notify":
                p = oracle_body(st[1]["text"])
                if p[0] == "props":
                    flat = [(t, x) for prop in p[1] for t, x in prop]
                    if len(flat) > 1 and all("}" not in t for t, _ in flat):
                        for j in range(len(flat)):
                            rest = flat[:j] + flat[j + 1:]
                            m = dict(st[1], text=render_body([[(None, t, x)] for t, x in rest], 0, plain=True))
                            yield dict(case, steps=steps[:i] + [["notify", m]] + steps[i + 1:])

    def mutate_case(self, case, rng):
        out = []
        for _ in range(10):
            steps = list(case["steps"])
            rng.shuffle(steps)
            out.append(dict(case, steps=steps))
        return out
