"""C04 — Change notifications fire exactly when something changed, with its snapshot.  Harness.
Shares the history driver with C03; generators put more weight on header values/spellings."""
from __future__ import annotations

from harness import common as C
from harness import ssdp_hist as H
from harness.c03 import Plugin as C03Plugin


class Plugin(C03Plugin):
    ID = "C04"
    RUN_MODULE = "C04.Run"
    GEN = ["Ssdp"]
    DEPENDS = ["C16", "C03"]
    CLAUSES = {1: "notify_exact", 2: "snapshot",
               # C03's clauses on the same observations: the device table the expectation is relative to
               11: "tracker_presence", 12: "tracker_purged", 13: "tracker_byebye_exact", 14: "tracker_invalid_inert", 15: "tracker_valid_to"}
    SHARD = 150
    RULE = ("the history space of C03 with BOOTID/CONFIGID/custom header values and header spellings varied, through the "
            "synchronous and the coroutine callback; non-trivial = at least one 'changed' and one 'alive'/suppressed decision; "
            "distinct = distinct (decoded history, observations)")

    def corpus(self):
        m = lambda via, start, hs, t: ["msg", via, start, hs, t, ["192.168.1.10", 1900]]  # noqa: E731
        T = H.TYPES[0]

        def s(u, t, extra=(), loc=H.GOOD_LOCS[0], st="ST"):
            return m("srch", "HTTP/1.1 200 OK", [[st, T], ["USN", u + "::" + T], ["LOCATION", loc]] + list(extra), t)

        def a(u, t, nts, extra=(), loc=H.GOOD_LOCS[0]):
            return m("adv", "NOTIFY * HTTP/1.1", [["NT", T], ["NTS", nts], ["USN", u + "::" + T], ["LOCATION", loc]] + list(extra), t)
        u = "uuid:dev-1"
        return [
            {"async": False, "ops": [s(u, 0, [["BOOTID.UPNP.ORG", "1"]]), s(u, 1, [["BOOTID.UPNP.ORG", "1"], ["DATE", "x"]]),
                                     s(u, 2, [["bootid.upnp.org", "2"]], st="st"), a(u, 3, "ssdp:alive", [["BOOTID.UPNP.ORG", "2"]]),
                                     a(u, 4, "ssdp:alive", [["BOOTID.UPNP.ORG", "2"], ["SERVER", "y"]]), a(u, 5, "ssdp:alive", [["BOOTID.UPNP.ORG", "3"]]),
                                     a(u, 6, "ssdp:update", [["BOOTID.UPNP.ORG", "3"]]), a(u, 7, "ssdp:byebye"), a(u, 8, "ssdp:byebye")]},
            {"async": True, "ops": [s(u, 0), s(u, 1, loc=H.GOOD_LOCS[1]), s(u, 2, loc=H.GOOD_LOCS[2]), s(u, 3, loc=H.GOOD_LOCS[3]),
                                    s(u, 4, loc=H.GOOD_LOCS[4]), a(u, 5, "ssdp:alive", loc=H.GOOD_LOCS[5])]},
        ]

    def nontrivial(self, case, obs):
        codes = {o["note"][2] for o in obs["obs"] if o["note"]}
        if not codes:
            return None
        return C.case_hash([obs["ops"], obs["obs"]])
