"""C14 — Server description and control interoperate with the library's own client.  Harness.

A case is one server *definition* (tree of devices; services with state variables made by create_state_var /
create_event_var and actions declared with callable_action) plus a list of operations against it:

  ["describe"]                                   the real UpnpFactory builds the client model from what the
                                                 real to_xml handlers serve;
  ["call", svc, action, kwargs, script]          the real client action is called; its POST is routed to the real
                                                 action_handler; the scripted handler method records what it saw;
  ["raw", svc, soapaction, body, script]         a POST built by the harness (the invalid-request classes).

The definition is instantiated as real UpnpServerDevice / UpnpServerService subclasses made with type(...);
requests are aiohttp.test_utils.make_mocked_request objects (no sockets); HTTPBadRequest raised by a handler is
the 400 answer.  The Coq side instantiates the same definition in the model of server.py, serialises it to
trees, runs the client models C05 / C06 / C07 on them, and evaluates the four clauses of C14/Spec.v on the
implementation's observations."""
from __future__ import annotations

import asyncio
import datetime as dt
import json
import warnings

from harness import common as C
from harness import c05 as F    # device dump + printers of the client's object graph (C05.Model.dev_o)
from harness import c08 as V    # value encoders

ALL_TYPES = V.ALL_TYPES
PYTYPE = V.PYTYPE
NS_SOAP = "http://schemas.xmlsoap.org/soap/envelope/"
NS_ENC = "http://schemas.xmlsoap.org/soap/encoding/"
NS_CONTROL = "urn:schemas-upnp-org:control-1-0"
HDR_KEYS, HDR_OPTIONAL = F.HDR_KEYS, F.HDR_OPTIONAL
HDR_FIELDS = ["device_type", "friendly_name", "manufacturer", "manufacturer_url", "model_description", "model_name",
              "model_number", "model_url", "serial_number", "udn", "upc", "presentation_url"]
SEXN = {"ValueError": "EValue", "TypeError": "EType", "KeyError": "EKey", "UpnpError": "EUpnp",
        "UpnpValueError": "EUpnpValue"}


def pyclass(type_name):
    return {"int": int, "float": float, "str": str, "bool": bool, "date": dt.date, "datetime": dt.datetime,
            "time": dt.time}[PYTYPE[type_name]]


def all_svcs(d):
    out = [(d["url"], s) for s in d["svcs"]]
    for x in d["subs"]:
        out += all_svcs(x)
    return out


def all_devs(d):
    out = [d]
    for x in d["subs"]:
        out += all_devs(x)
    return out


def sexn_of(e):
    from async_upnp_client.exceptions import UpnpError, UpnpValueError
    if isinstance(e, UpnpValueError):
        return "EUpnpValue"
    if isinstance(e, UpnpError):
        return "EUpnp"
    for n, cls in (("EKey", KeyError), ("EValue", ValueError), ("EType", TypeError)):
        if isinstance(e, cls):
            return n
    return "EOther"


# ======================================================================================= XML helpers
def esc(s, attr=False):
    s = s.replace("&", "&amp;").replace("<", "&lt;").replace(">", "&gt;").replace("\r", "&#13;")
    if attr:
        s = s.replace('"', "&quot;").replace("\n", "&#10;").replace("\t", "&#9;")
    return s


def render_tree(t):
    """(prefix, local, {prefix: ns} declarations, text, children) -> XML text (harness-made requests)"""
    pfx, local, decls, text, kids = t
    name = f"{pfx}:{local}" if pfx else local
    a = "".join(f' xmlns{":" + p if p else ""}="{esc(n, True)}"' for p, n in decls)
    inner = esc(text or "") + "".join(render_tree(k) for k in kids)
    return f"<{name}{a}>{inner}</{name}>"


def envelope(service_type, action, args, *, body_ns="s", rpc=True, arg_ns=None, extra_bodies=0):
    """the well-formed request shape; args = [(name, text)]"""
    kids = [((arg_ns or ""), n, [], t, []) for n, t in args]
    rpc_el = [("u", action, [("u", service_type)] + ([(arg_ns, "urn:x")] if arg_ns else []), None, kids)] if rpc else []
    body = (body_ns, "Body", [], None, rpc_el)
    return ("s", "Envelope", [("s", NS_SOAP)] + ([("t", "urn:t")] if body_ns == "t" else []), None, [body] * (1 + extra_bodies))


def et_to_xtree(el):
    """an ElementTree element as the server reads it: (ns, local, [(ns, local, value)], el.text or '', children)"""
    def split(tag):
        if isinstance(tag, str) and tag.startswith("{"):
            ns, local = tag[1:].split("}", 1)
            return ns, local
        return "", str(tag)
    ns, local = split(el.tag)
    attrs = [split(k) + (v,) for k, v in el.attrib.items()]
    return (ns, local, attrs, el.text or "", [et_to_xtree(c) for c in el])


def parse_body(text):
    """what _parse_action_body's parser makes of the body: xtree or None"""
    import defusedxml.ElementTree as DET
    try:
        return et_to_xtree(DET.fromstring(text))
    except Exception:  # noqa: BLE001 - any exception is answered 400 by the code under test
        return None


# ======================================================================================= building the real server
class Ctx:
    def __init__(self):
        self.script = None
        self.seen = None
        self.escaped = None
        self.posts = 0


_RESULTS = {}


def react(script):
    from async_upnp_client.exceptions import UpnpActionError, UpnpValueError
    k = script[0]
    if k == "return":
        # a handler may keep its answer around (a status dict, a constant): equal scripted results are ONE dict object
        # for the life of a case, so a server that consumes or edits the mapping it is handed shows on the next call
        key = json.dumps(script[1], sort_keys=True, default=str)
        if key not in _RESULTS:
            _RESULTS[key] = {n: V.dec(j) for n, j in script[1]}
        return _RESULTS[key]
    if k == "error":
        raise UpnpActionError(error_code=script[1], error_desc="scripted")
    if k == "valueerror":
        raise UpnpValueError("scripted", 0)
    raise RuntimeError("scripted crash")


def build_classes(d, ctx):
    """definition -> UpnpServerDevice subclass (classes made with type(...))"""
    import xml.etree.ElementTree as ET
    from async_upnp_client import server as S
    from async_upnp_client.const import DeviceIcon, DeviceInfo, ServiceInfo

    def mk_service(s):
        svars = {}
        for v in s["vars"]:
            rg = None
            if v["range"] is not None:
                rg = {k: t for k, t in zip(("min", "max", "step"), v["range"]) if t is not None}
            kw = {"allowed": v["allowed"], "allowed_range": rg, "default": v["default"]}
            svars[v["name"]] = (S.create_event_var if v["evented"] else S.create_state_var)(v["type"], **kw)
        types = {v["name"]: v["type"] for v in s["vars"]}
        ns = {"SERVICE_DEFINITION": ServiceInfo(service_id=s["id"], service_type=s["type"], control_url=s["control"],
                                                event_sub_url=s["event"], scpd_url=s["scpd"], xml=ET.Element("server_service")),
              "STATE_VARIABLE_DEFINITIONS": svars}
        for i, a in enumerate(s["acts"]):
            async def handler(self, _a=a, **kwargs):   # noqa: ARG001
                ctx.seen = dict(kwargs)
                return react(ctx.script)
            handler.__name__ = handler.__qualname__ = f"a{i:03d}"
            handler.__annotations__ = {n: (pyclass(types[vn]) if vn in types else str) for n, vn in a["ins"]}
            ns[f"a{i:03d}"] = S.callable_action(a["name"], dict(a["ins"]), dict(a["outs"]))(handler)
        return type("Svc_" + s["id"][-8:], (S.UpnpServerService,), ns)

    def mk_device(x):
        h = x["h"]
        info = DeviceInfo(**{f: h[k] for f, k in zip(HDR_FIELDS, HDR_KEYS)}, url=x["url"],
                          icons=[DeviceIcon(i["mime"], i["w"], i["h"], i["d"], i["url"]) for i in x["icons"]],
                          xml=ET.Element("server_device"))
        return type("Dev", (S.UpnpServerDevice,), {"DEVICE_DEFINITION": info, "SERVICES": [mk_service(s) for s in x["svcs"]],
                                                   "EMBEDDED_DEVICES": [mk_device(e) for e in x["subs"]]})
    return mk_device(d)


def mk_request(method, path, headers, body):
    from aiohttp import streams
    from aiohttp.test_utils import make_mocked_request

    class Proto:
        _reading_paused = False

        def pause_reading(self):
            pass

        def resume_reading(self):
            pass
    payload = streams.StreamReader(Proto(), limit=2 ** 20, loop=asyncio.get_event_loop())
    payload.feed_data(body)
    payload.feed_eof()
    return make_mocked_request(method, path, headers=headers, payload=payload)


def response_sig(status, text, escaped):
    """what the server answered, as far as the property speaks about it"""
    import defusedxml.ElementTree as DET
    if escaped is not None:
        return ["esc", escaped]
    if 400 <= status < 500:
        return ["bad", status]
    if status == 200:
        return ["ok"]
    try:
        root = DET.fromstring(text)
        code = root.findtext(".//{%s}errorCode" % NS_CONTROL)
        if root.find(".//{%s}Fault" % NS_SOAP) is not None and code is not None:
            return ["fault", int(code)]
    except Exception:  # noqa: BLE001
        pass
    return ["esc", "EOther"]


class World:
    """the instantiated server device and the routing a running aiohttp application would do (exact path match)"""

    def __init__(self, dev, ctx):
        self.dev, self.ctx = dev, ctx
        self.svcs = list(dev.all_services)
        self.last = None

    async def serve(self, method, path, headers, body: bytes):
        from aiohttp import web
        from async_upnp_client import server as S
        req = mk_request(method, path, headers, body)
        self.ctx.escaped = None
        try:
            r = None
            if method == "GET" and path == self.dev.device_url:
                r = await S.to_xml(self.dev, req)
            else:
                for svc in self.svcs:
                    sd = svc.SERVICE_DEFINITION
                    if method == "GET" and path == sd.scpd_url:
                        r = await S.to_xml(svc, req)
                        break
                    if method == "POST" and path == sd.control_url:
                        r = await S.action_handler(svc, req)
                        break
            if r is None:
                return 404, {}, "404: Not Found"
            body_out = r.body.decode("utf-8") if isinstance(r.body, (bytes, bytearray)) else (r.text or "")
            return r.status, dict(r.headers), body_out
        except web.HTTPException as e:
            return e.status, {}, e.text or ""
        except Exception as e:  # noqa: BLE001 - aiohttp answers 500 and logs the exception
            self.ctx.escaped = sexn_of(e)
            return 500, {}, "500 Internal Server Error\n\nServer got itself in trouble"


def make_requester(world, ctx):
    from urllib.parse import urlsplit
    from async_upnp_client.client import UpnpRequester

    order = {}

    class Requester(UpnpRequester):
        async def async_http_request(self, method, url, headers=None, body=None):
            u = urlsplit(url)
            path = u.path + ("?" + u.query if u.query else "")
            if method == "POST":
                ctx.posts += 1
            st, hd, text = await world.serve(method, path, dict(headers or {}), (body or "").encode("utf-8"))
            if method == "GET":
                # documents come back after a few loop turns, later ones sooner than earlier ones: which SCPD a service
                # is built from must not depend on the order in which the answers arrive
                order.setdefault(url, len(order))
                for _ in range(max(0, 6 - 2 * order[url])):
                    await asyncio.sleep(0)
            if method == "POST":
                world.last = response_sig(st, text, ctx.escaped)
            return st, hd, text
    return Requester()


def classify_client(e):
    from async_upnp_client import exceptions as X
    is_a, is_r = isinstance(e, X.UpnpActionError), isinstance(e, X.UpnpResponseError)
    code = getattr(e, "error_code", None)
    desc = getattr(e, "error_desc", None)
    st = getattr(e, "status", None)
    if is_a and is_r:
        return ["action_response", code, desc, st]
    if is_a:
        return ["action", code, desc]
    if is_r:
        return ["response", st]
    if isinstance(e, X.UpnpXmlParseError):
        return ["xml_parse"]
    if isinstance(e, X.UpnpError):
        return ["upnp_error"]
    return ["raw", V.exn_name(e)]


def enc_dict(d):
    items = []
    for k, v in d.items():
        j = V.enc(v)
        if not isinstance(k, str) or j["t"] == "other" or (j["t"] in ("time", "datetime") and (j["v"][-1] == "frac" or j.get("us"))):
            raise RuntimeError(f"unencodable item {k!r}: {v!r}")
        items.append([k, j])
    return sorted(items, key=lambda kv: kv[0])


# ======================================================================================= generators
BASE_HOSTS = ["http://192.168.1.2:49152", "http://h:1", "http://[fe80::1]:8080"]
TEXTS = ["A", "Acme Corp", "Living Room <TV> & \"Radio\"", "Süßes Gerät 漢字 🎵", " padded ", "a]]>b", "1.0", "x" * 30,
         "line1\nline2", "tab\there"]
CANON_TEXT = {   # spellings in wire format and others the in-coercers accept
    "int": ["0", "1", "-5", "100", "+7", " 12 ", "65535", "1_000", "4294967296", "007"],
    "float": ["0", "1.5", "-2.5e3", "100", "inf", ".5", " 3.25 ", "1e-7", "0.1"],
    "str": ["a", "PLAYING", "STOPPED", "x y", "Ünï", "NOT_IMPLEMENTED", "0", "a<b>&c", "m"],
    "bool": ["1", "0", "true", "false", "yes", "no", "TRUE", "Yes"],
    "date": ["2020-01-02", "1999-12-31", "2024-02-29"],
    "datetime": ["2020-01-02T03:04:05", "1999-12-31T23:59:59", "2020-01-02 03:04:05"],
    "datetime.tz": ["2020-01-02T03:04:05+01:00", "2020-01-02T03:04:05Z", "2020-01-02T03:04:05-0530"],
    "time": ["03:04:05", "23:59:59", "00:00:00"],
    "time.tz": ["03:04:05+01:00", "03:04:05-0530", "03:04:05 +0100"],
}
BAD_TEXT = ["abc", "", " ", "1.5.2", "0x10", "2020-13-01", "25:00:00", "1e", "--1", "12:30", "2020-01-02T03:04:05+0160"]
STRINGS = ["", "x", "a<b>&c\"d'", "line1\r\nline2\rend", "tab\there", " lead and trail ", "Ünï 漢字 🎵", "]]>", "&amp;", "0",
           "\n", "  ", "a" * 60]


def tkind(type_name):
    p = PYTYPE[type_name]
    return p + ".tz" if type_name in ("dateTime.tz", "time.tz") else p


def coerce(type_name, text):
    from async_upnp_client.const import STATE_VARIABLE_TYPE_MAPPING as M
    return M[type_name]["in"](text)


class Gen:
    def __init__(self, rng):
        self.r = rng
        self.n = 0

    def ident(self, stem):
        self.n += 1
        return f"{stem}{self.n}"

    def svar(self, type_name, evented=None):
        r = self.r
        kind, tz = PYTYPE[type_name], type_name.endswith(".tz")
        texts = CANON_TEXT[tkind(type_name)]
        v = {"name": self.ident("Var"), "type": type_name, "evented": r.random() < 0.4 if evented is None else evented,
             "default": None, "range": None, "allowed": None}
        x = r.random()
        if x < 0.35 and not tz and kind in ("int", "float", "str", "date", "datetime", "time"):
            if kind == "int":
                lo, hi = sorted(r.sample([-10, 0, 1, 5, 100, 65535], 2))
                mn, mx = r.choice([str(lo), f" {lo}"]), str(hi)
            elif kind == "float":
                mn, mx = r.choice([("0", "10.5"), ("-1.5", "2.5e3"), ("0.0", "100"), (".5", "1e3")])
            elif kind == "str":
                mn, mx = "a", "n"
            else:
                mn, mx = sorted(r.sample([t for t in texts if " " not in t], 2))
            v["range"] = [mn, mx, r.choice([None, None, "1", "5", "0.5"])]
            if r.random() < 0.5:
                try:
                    lo, hi = coerce(type_name, mn), coerce(type_name, mx)
                    cands = [t for t in texts if lo <= coerce(type_name, t) <= hi]
                    if cands:
                        v["default"] = r.choice(cands)
                except Exception:  # noqa: BLE001
                    pass
        elif x < 0.6 and not tz and kind != "bool":
            v["allowed"] = r.sample(texts, r.randint(1, min(4, len(texts))))
            if r.random() < 0.3:
                v["allowed"].append(v["allowed"][0])            # a repeated allowed value
            if r.random() < 0.5:
                v["default"] = r.choice(v["allowed"])
        elif x < 0.85:
            v["default"] = r.choice(texts)
        return v

    def service(self, n_vars, n_acts, types=None):
        r = self.r
        types = types or [r.choice(ALL_TYPES) for _ in range(n_vars)]
        vs = [self.svar(t) for t in types]
        names = [v["name"] for v in vs]
        acts = []
        for _ in range(n_acts if names else 0):
            ins = [[self.ident("In"), r.choice(names)] for _ in range(r.randint(0, 4))]
            outs = [[self.ident("Out"), r.choice(names)] for _ in range(r.randint(0, 4))]
            if outs and ins and r.random() < 0.2:
                outs[0][0] = ins[0][0]                           # an out-argument named like an in-argument
            acts.append({"name": self.ident("Act"), "ins": ins, "outs": outs})
        sid = self.ident("S")
        return {"type": f"urn:schemas-upnp-org:service:{sid}:{r.randint(1, 3)}", "id": f"urn:upnp-org:serviceId:{sid}",
                "scpd": f"/{sid}/scpd.xml", "control": f"/upnp/control/{sid}", "event": f"/upnp/event/{sid}",
                "vars": vs, "acts": acts}

    def device(self, depth, budget, url="/device.xml"):
        r = self.r
        did = self.ident("D")
        opt = lambda f, p=0.5: f() if r.random() < p else None  # noqa: E731
        text = lambda: r.choice(TEXTS)  # noqa: E731
        h = {"type": f"urn:schemas-upnp-org:device:{did}:1", "friendly": text(), "manufacturer": text(),
             "manufacturer_url": opt(lambda: "http://example.org/m"), "model_desc": opt(text), "model_name": text(),
             "model_number": opt(text), "model_url": opt(lambda: "/model"), "serial": opt(text), "udn": f"uuid:{did}-0000",
             "upc": opt(lambda: "123456789012"), "presentation": opt(lambda: "/p/index.html")}
        icons = [{"mime": r.choice(["image/png", "image/jpeg"]), "w": r.choice([0, 16, 48, 120]), "h": r.choice([16, 48]),
                  "d": r.choice([8, 24]), "url": r.choice(["/icons/%s.png", "icons/%s.png", "http://cdn.example/%s.png"]) % self.ident("i")}
                 for _ in range(r.choice([0, 0, 1, 2]))]
        n_svc = min(budget[0], r.randint(1 if depth == budget[2] else 0, 3))
        budget[0] -= n_svc
        svcs = [self.service(r.randint(0, 6), r.randint(0, 4)) for _ in range(n_svc)]
        subs = []
        for _ in range(r.choice([0, 1, 1, 2]) if depth > 0 else 0):
            if budget[1] <= 0:
                break
            budget[1] -= 1
            subs.append(self.device(depth - 1, budget, url=r.choice(["/device.xml", "/sub/" + self.ident("e") + ".xml"])))
        return {"h": h, "url": url, "icons": icons, "svcs": svcs, "subs": subs}


def malform(rng, d):
    """one malformation of the definition (outside the theorems' domain; the model must still say what the code does)"""
    svcs = [s for _, s in all_svcs(d) if s["vars"]]
    if not svcs:
        return
    s = rng.choice(svcs)
    v = rng.choice(s["vars"])
    kind = PYTYPE[v["type"]]
    m = rng.randrange(6)
    if m == 0 and kind in ("int", "float") and not v["type"].endswith(".tz"):      # default outside its own range
        v["range"], v["allowed"], v["default"] = ["0", "10", None], None, "11"
    elif m == 1:                                                                       # create_state_var: unknown data type
        v["type"] = rng.choice(["ui3", "String", "bin.base32"])
        v["range"] = v["allowed"] = v["default"] = None
    elif m == 2 and kind not in ("str", "bool"):                                       # unparseable default
        v["default"] = rng.choice(["abc", "1.5.2", "--1"])
    elif m == 3 and kind in ("int", "float") and not v["type"].endswith(".tz"):        # a range without maximum
        v["range"], v["allowed"], v["default"] = ["0", None, rng.choice([None, "1"])], None, None
    elif m == 4 and s["acts"]:                                                         # an argument without state variable
        a = rng.choice(s["acts"])
        (a["ins"] if rng.random() < 0.5 else a["outs"]).append([f"Arg{rng.randint(100, 999)}", "NoSuchVariable"])
    elif m == 5 and kind not in ("str", "bool") and not v["type"].endswith(".tz"):     # unparseable allowed value
        v["range"], v["default"], v["allowed"] = None, None, [rng.choice(CANON_TEXT[tkind(v["type"])]), "abc"]


def valid_value(rng, v):
    """a python value (encoded) the variable's declaration accepts, or None"""
    tn, kind = v["type"], PYTYPE[v["type"]]
    tz = tn.endswith(".tz")
    if v["allowed"]:
        return V.enc(coerce(tn, rng.choice(v["allowed"])))
    if v["range"]:
        lo, hi = coerce(tn, v["range"][0]), coerce(tn, v["range"][1])
        if kind == "int":
            val = rng.choice([lo, hi, rng.randint(lo, hi)])
            return V.enc(rng.choice([val, val]) if val not in (0, 1) or rng.random() < 0.7 else bool(val))
        if kind == "float":
            return V.enc(rng.choice([lo, hi, lo + (hi - lo) * rng.random()]))
        if kind == "str":
            return V.enc(rng.choice(["a", "b", "hello", "m", "n"]))
        return V.enc(rng.choice([lo, hi]))
    if kind == "int":
        return V.enc(rng.choice([0, 1, -1, 42, 65535, 2 ** 40, -10 ** 20, True, False]))
    if kind == "float":
        return V.enc(rng.choice([0.0, 1.5, -2.25, 0.1, 1 / 3, 1e300, 5e-324, float("inf"), float("-inf"), rng.uniform(-1e6, 1e6)]))
    if kind == "str":
        return V.enc(rng.choice(STRINGS))
    if kind == "bool":
        return V.enc(rng.random() < 0.5)
    mk = lambda m: None if m is None else dt.timezone(dt.timedelta(minutes=m))  # noqa: E731
    off = rng.choice([0, 60, -330, 1439, -1439]) if tz else rng.choice([None, None, 120])
    d = (rng.choice([1, 1999, 2024, 9999]), rng.randint(1, 12), rng.randint(1, 28))
    t = (rng.randint(0, 23), rng.randint(0, 59), rng.randint(0, 59))
    if kind == "date":
        return V.enc(dt.date(*d))
    if kind == "time":
        return V.enc(dt.time(*t, tzinfo=mk(off)))
    return V.enc(dt.datetime(*d, *t, tzinfo=mk(off)))


def invalid_value(rng, v):
    """a python value of the right type the declaration refuses (out of range / not allowed / no tz), or None"""
    tn, kind = v["type"], PYTYPE[v["type"]]
    if v["allowed"]:
        return {"int": V.enc(987654), "float": V.enc(987.654), "str": V.enc("not-allowed")}.get(kind)
    if v["range"]:
        lo, hi = coerce(tn, v["range"][0]), coerce(tn, v["range"][1])
        if kind == "int":
            return V.enc(rng.choice([lo - 1, hi + 1, hi + 10 ** 9]))
        if kind == "float":
            return V.enc(rng.choice([lo - 0.5, hi + 0.5]))
        if kind == "str":
            return V.enc("zzz")
        if kind == "date":
            return V.enc(dt.date(9999, 12, 31))
        return None
    if tn == "dateTime.tz":
        return V.enc(dt.datetime(2020, 1, 2, 3, 4, 5))
    if tn == "time.tz":
        return V.enc(dt.time(3, 4, 5))
    return None


def wire(type_name, j):
    """the library's own wire text of a value (used to write raw requests)"""
    from async_upnp_client.const import STATE_VARIABLE_TYPE_MAPPING as M
    val = V.dec(j)
    if isinstance(val, bool) and PYTYPE[type_name] == "int":
        val = int(val)
    return M[type_name]["out"](val)


def mk_script(rng, s, a, kind=None):
    vars_ = {v["name"]: v for v in s["vars"]}
    kind = kind or rng.choice(["return"] * 6 + ["error", "error", "valueerror"])
    if kind == "return":
        outs, names = [], set()
        for n, vn in a["outs"]:
            if n in names or rng.random() < 0.12:
                continue
            names.add(n)
            outs.append([n, valid_value(rng, vars_[vn])])
        return ["return", outs]
    if kind == "error":
        return ["error", rng.choice([401, 402, 501, 600, 601, 602, 701, 714, 799, 1, 65535, None, 0])]
    return [kind]


def call_ops(rng, k, s, n):
    vars_ = {v["name"]: v for v in s["vars"]}
    ops = []
    for _ in range(n):
        if not s["acts"]:
            break
        a = rng.choice(s["acts"])
        kw, seen = [], set()
        for an, vn in a["ins"]:
            if an in seen:
                continue
            seen.add(an)
            kw.append([an, valid_value(rng, vars_[vn])])
        x = rng.random()
        if x < 0.08 and kw:                                       # the client refuses: an argument left out
            kw.pop(rng.randrange(len(kw)))
        elif x < 0.16 and kw:                                     # the client refuses: a value it does not accept
            i = rng.randrange(len(kw))
            bad = invalid_value(rng, vars_[dict(a["ins"])[kw[i][0]]])
            if bad is not None:
                kw[i][1] = bad
        elif x < 0.2:
            kw.append(["Extra", V.enc(1)])                        # ignored by the client
        rng.shuffle(kw)
        ops.append(["call", k, a["name"], kw, mk_script(rng, s, a)])
        if rng.random() < 0.25:
            # the same action again, the handler answering with the very same result (see react: one dict object)
            ops.append(["call", k, a["name"], [list(p) for p in kw], ops[-1][4]])
    return ops


RAW_KINDS = ["valid", "valid", "missing", "duplicate", "duplicate_bad_first", "unknown", "unparseable", "out_of_range",
             "unknown_action", "not_xml", "no_body", "empty_body", "foreign_body", "no_header", "bad_header", "two_hashes",
             "ns_arg", "empty_text", "reordered", "unquoted_header", "other_rpc_name"]


def raw_op(rng, k, s, kind):
    """one harness-made POST of the named class -> op (or None when the service cannot express it)"""
    vars_ = {v["name"]: v for v in s["vars"]}
    st = s["type"]
    if not s["acts"]:
        if kind not in ("unknown_action", "not_xml"):
            return None
        a = {"name": "Nope", "ins": [], "outs": []}
    else:
        a = rng.choice(s["acts"])
    ins, seen = [], set()
    for an, vn in a["ins"]:
        if an not in seen:
            seen.add(an)
            ins.append((an, vn))
    args = [[an, wire(vars_[vn]["type"], valid_value(rng, vars_[vn]))] for an, vn in ins]
    hdr = f'"{st}#{a["name"]}"'
    body = None
    script = mk_script(rng, s, a, kind=rng.choice(["return"] * 5 + ["error"]))
    if kind == "missing":
        if not args:
            return None
        args.pop(rng.randrange(len(args)))
    elif kind == "duplicate":
        if not args:
            return None
        i = rng.randrange(len(args))
        args.insert(rng.randrange(len(args) + 1), list(args[i]))
    elif kind == "duplicate_bad_first":
        cands = [i for i, (an, vn) in enumerate(ins) if invalid_value(rng, vars_[vn]) is not None]
        if not cands:
            return None
        i = rng.choice(cands)
        v = vars_[ins[i][1]]
        args.insert(i, [args[i][0], wire(v["type"], invalid_value(rng, v))])
    elif kind == "unknown":
        args.insert(rng.randrange(len(args) + 1), [rng.choice(["Bogus", "bogus1"] + [o for o, _ in a["outs"] if o not in seen][:1]), "1"])
    elif kind == "unparseable":
        cands = [i for i, (an, vn) in enumerate(ins) if PYTYPE[vars_[vn]["type"]] not in ("str", "bool")]
        if not cands:
            return None
        i = rng.choice(cands)
        args[i][1] = rng.choice(BAD_TEXT)
    elif kind == "out_of_range":
        cands = [i for i, (an, vn) in enumerate(ins) if invalid_value(rng, vars_[vn]) is not None]
        if not cands:
            return None
        i = rng.choice(cands)
        v = vars_[ins[i][1]]
        args[i][1] = wire(v["type"], invalid_value(rng, v))
    elif kind == "unknown_action":
        hdr = f'"{st}#{rng.choice(["NoSuchAction", a["name"] + "x", a["name"].lower(), ""])}"'
    elif kind == "not_xml":
        body = {"text": rng.choice(["", "garbage", "<a><b></a>", "<?xml version=\"1.0\"?>", "<s:Envelope>", "\x00\x01",
                                     "<!DOCTYPE x [<!ENTITY e \"v\">]><x>&e;</x>"])}
    elif kind == "no_body":
        body = {"tree": ("s", "Envelope", [("s", NS_SOAP)], None, [("s", "Header", [], None, [])])}
    elif kind == "empty_body":
        body = {"tree": envelope(st, a["name"], [], rpc=False)}
    elif kind == "foreign_body":
        body = {"tree": envelope(st, a["name"], args, body_ns="t")}
    elif kind == "no_header":
        hdr = None
    elif kind == "bad_header":
        hdr = rng.choice(["", "nohash", '""', st, '"' + a["name"] + '"'])
    elif kind == "two_hashes":
        hdr = f'"{st}#x#{a["name"]}"'
    elif kind == "ns_arg":
        if not args:
            return None
        body = {"tree": envelope(st, a["name"], args, arg_ns="n")}
    elif kind == "empty_text":
        if not args:
            return None
        args[rng.randrange(len(args))][1] = ""
    elif kind == "reordered":
        rng.shuffle(args)
    elif kind == "unquoted_header":
        hdr = f'{st}#{a["name"]}'
    elif kind == "other_rpc_name":
        body = {"tree": envelope(st, "SomethingElse", args)}
    if body is None:
        body = {"tree": envelope(st, a["name"], args, extra_bodies=1 if rng.random() < 0.05 else 0)}
    return ["raw", k, hdr, body, script, kind]


def mk_case(rng, d, n_calls=3, n_raw=5, host=None):
    host = host or rng.choice(BASE_HOSTS)
    svcs = all_svcs(d)
    vars_ = [v for _, s in svcs for v in s["vars"]]
    rng.shuffle(vars_)
    ops = [["describe"]]
    for k, (_, s) in enumerate(svcs):
        ops += call_ops(rng, k, s, n_calls)
        for _ in range(n_raw):
            op = raw_op(rng, k, s, rng.choice(RAW_KINDS))
            if op is not None:
                ops.append(op)
    return {"base": host + d["url"], "probes": F.probes_for(rng, [{**v, "range": v["range"] and list(v["range"])} for v in vars_]),
            "def": d, "ops": ops}


def type_sweep(rng):
    """every data type x {plain, default, range + step, allowed list} x {evented or not}: one service, one action echoing
    the variable, called once with a valid value, plus one raw request per invalid class (deterministic)"""
    out, i = [], 0
    gen = Gen(rng)
    for tn in ALL_TYPES:
        for feat in ("plain", "default", "range", "allowed"):
            tz, kind = tn.endswith(".tz"), PYTYPE[tn]
            if feat in ("range", "allowed") and (tz or kind == "bool"):
                continue
            texts = CANON_TEXT[tkind(tn)]
            v = {"name": f"V{i}", "type": tn, "evented": i % 2 == 0, "default": None, "range": None, "allowed": None}
            if feat == "default":
                v["default"] = texts[i % len(texts)]
            elif feat == "range":
                a, b = {"int": ("0", "100"), "float": ("0.5", "10"), "str": ("a", "n")}.get(kind) or tuple(sorted([t for t in texts if " " not in t][:2]))
                v["range"] = [a, b, "1" if i % 2 else None]
            elif feat == "allowed":
                v["allowed"] = texts[:3]
            s = {"type": "urn:schemas-upnp-org:service:T:1", "id": "urn:upnp-org:serviceId:T", "scpd": "/t.xml", "control": "/c",
                 "event": "/e", "vars": [v], "acts": [{"name": "Echo", "ins": [["In", v["name"]]], "outs": [["Out", v["name"]]]}]}
            d = gen.device(0, [0, 0, 99])
            d["svcs"] = [s]
            ops = [["describe"]] + call_ops(rng, 0, s, 2)
            for kind_ in ("valid", "missing", "duplicate", "unknown", "unparseable", "out_of_range", "unknown_action", "not_xml", "empty_body"):
                op = raw_op(rng, 0, s, kind_)
                if op is not None:
                    ops.append(op)
            out.append({"base": "http://h:1/device.xml", "probes": F.probes_for(rng, [{**v, "range": v["range"] and list(v["range"])}]),
                        "def": d, "ops": ops})
            i += 1
    return out


def small_scope(rng, max_len):
    """EVERY request whose action element carries 0..max_len argument elements drawn from eight (name, text) pairs - both
    in-arguments with a valid / unparseable / out-of-range / empty / not-allowed text, an unknown name, an out-argument's
    name - against one fixed service (a ui1 in-argument with range 0..10 and a string one with an allowed list)"""
    import itertools
    s = {"type": "urn:schemas-upnp-org:service:X:1", "id": "urn:upnp-org:serviceId:X", "scpd": "/X/scpd.xml", "control": "/X/control",
         "event": "/X/event",
         "vars": [{"name": "VA", "type": "ui1", "evented": True, "default": "3", "range": ["0", "10", "1"], "allowed": None},
                  {"name": "VB", "type": "string", "evented": False, "default": None, "range": None, "allowed": ["on", "off"]}],
         "acts": [{"name": "Set", "ins": [["A", "VA"], ["B", "VB"]], "outs": [["R", "VA"]]}]}
    alphabet = [("A", "5"), ("A", "abc"), ("A", "11"), ("A", ""), ("B", "on"), ("B", "zz"), ("C", "1"), ("R", "1")]
    hdr = '"%s#Set"' % s["type"]
    script = ["return", [["R", V.enc(7)]]]
    ops = []
    for n in range(max_len + 1):
        for seq in itertools.product(alphabet, repeat=n):
            ops.append(["raw", 0, hdr, {"tree": envelope(s["type"], "Set", [list(x) for x in seq])}, script, "small_scope"])
    gen = Gen(rng)
    cases = []
    for i in range(0, len(ops), 45):
        d = gen.device(0, [0, 0, 99])
        d["svcs"], d["icons"] = [s], []
        cases.append({"base": "http://h:1/device.xml", "probes": [], "def": d, "ops": ([["describe"]] if i == 0 else []) + ops[i:i + 45]})
    return cases


# ======================================================================================= the plugin
class Plugin:
    ID = "C14"
    RUN_MODULE = "C14.Run"
    GEN = ["Types", "DateMatchers"]
    DEPENDS = ["C05", "C06", "C07", "C08"]
    CLAUSES = {1: "description_roundtrip", 2: "call_roundtrip", 3: "fault_roundtrip", 4: "bad_request_handled"}
    SHARD = 24
    SEARCH_CASES = 300
    RULE = ("cases = (server definition: device tree depth 0..2 with 1..3 services, 0..6 state variables over all 26 data types "
            "with default / range+step / allowed list / evented, 0..4 actions with 0..4 in and out arguments; then operations: "
            "the description fetched by the real UpnpFactory, calls through the real client action with valid and refused "
            "keyword arguments incl. markup-laden Unicode strings and a scripted handler (typed results / UpnpActionError / "
            "UpnpValueError), and harness-made POSTs of 21 classes: valid, reordered, missing, duplicate, unknown, unparseable, "
            "out of range / not allowed, unknown action, not XML, no / empty / foreign Body, missing / malformed SOAPAction, ...), "
            "plus a sweep of every data type x {plain, default, range+step, allowed list} and (thorough: exhaustive) every request "
            "with 0..3 argument elements over eight (name, text) pairs against a fixed two-argument action; "
            "non-trivial = the device was instantiated and at least one request reached action_handler; distinct = distinct "
            "(case, observation)")
    TRUSTED = [
        "Coq 8.16.1 kernel + vm_compute (no native_compute)",
        "tools/gen/types.py, tools/gen/datematchers.py (const.py / utils.py -> Gen/Types.v, Gen/DateMatchers.v)",
        "the client-side models C05 (factory on trees), C06 (request building, Gallina XML reader), C07 (response decoding), "
        "C08 (data types): each tied to the code by its own check; here they are run against the server model and the "
        "composition is compared with the real client talking to the real handlers",
        "oracles: ET.tostring + expat/defusedxml (a tree the server serialises is the tree the client parses, an empty text "
        "reads back as None; for harness-made requests the tree the real parser produced is shipped), urllib.parse.urljoin "
        "(table per case), float repr / float() (tables per case), iteration order of a Python set (unobservable through the "
        "client's model; identity in the run, any order with the same elements in the theorems)",
        "harness/c14.py: classes built with type(...) from the definition, the scripted handler method, the router that stands "
        "for aiohttp's application (exact path match, HTTPException -> its status, any other exception -> 500 without fault), "
        "make_mocked_request, the dump of the client's object graph (harness/c05.py), Gallina printers",
        "aiohttp's own plumbing around the handlers (routing, turning HTTPBadRequest into the 400 answer) is not modelled",
    ]
    ASSUMPTIONS = [
        "reading: definitions whose texts (default, bounds, allowed values) are non-empty spellings of values of C08's "
        "round-trip domain; ranges name both bounds; no range / allowed list on time-zone aware types (C08's ordering)",
        "reading: the three URLs of a service are absolute paths (resolving them against the device url is the identity); "
        "every service has its own URLs; distinct device / service types among siblings (the server's UpnpDevice is keyed by "
        "type, cf. C05's D32/D33)",
        "reading: an absent optional device element is reported as None or ''",
        "reading: 'same typed value' is Python equality (True == 1 for integer arguments, C06/D26)",
        "reading: of a repeated argument element the last occurrence counts (keyword-argument semantics); every occurrence "
        "must be known and parseable",
        "reading: the handler method behaves - typed results for its own out-arguments, or UpnpActionError / UpnpValueError",
        "texts of the description contain no CR and no characters XML 1.0 cannot carry; argument / result strings consist of "
        "XML-legal characters (CR included)",
    ]
    last_exhaustive = False

    def __init__(self):
        self.pr = F.Printer()
        self._loop = None

    @property
    def HEADER(self):  # noqa: N802
        return self.pr.header()

    # ------------------------------------------------------------------ corpus / generation
    def corpus(self):
        out = []
        d = C.VERIF / "corpus" / "C14"
        if d.is_dir():
            for p in sorted(d.glob("*.json")):
                data = json.loads(p.read_text())
                out.append(data["case"] if "case" in data else data)
        return out

    def generate(self, rng, tier):
        n = 6000 if tier == "thorough" else 60
        cases = type_sweep(rng) + small_scope(rng, 3 if tier == "thorough" else 2)
        self.last_exhaustive = tier == "thorough"
        gen = Gen(rng)
        for _ in range(n):
            depth = rng.choice([0, 0, 0, 1, 1, 2])
            d = gen.device(depth, [rng.randint(1, 3), rng.randint(0, 3), depth])
            if not all_svcs(d):
                d["svcs"].append(gen.service(rng.randint(1, 5), rng.randint(1, 3)))
            c = mk_case(rng, d, n_calls=rng.randint(1, 3), n_raw=rng.randint(2, 5))
            if rng.random() < 0.08:
                malform(rng, c["def"])
            cases.append(c)
        return cases

    # ------------------------------------------------------------------ implementation
    def run_impl(self, case):
        _RESULTS.clear()
        if self._loop is None:
            self._loop = asyncio.new_event_loop()
            # event tasks of a service whose __init__ failed half-way die on their own (C15's business): keep stderr quiet
            self._loop.set_exception_handler(lambda loop, ctx: None)
        with warnings.catch_warnings():
            warnings.simplefilter("ignore")
            return self._loop.run_until_complete(self._run(case))

    async def _run(self, case):
        from async_upnp_client import server as S
        from async_upnp_client.client_factory import UpnpFactory
        ctx = Ctx()
        d = case["def"]
        try:
            cls = build_classes(d, ctx)
            dev = cls(S.NopRequester(), case["base"].rsplit(d["url"], 1)[0] or case["base"])
        except Exception as e:  # noqa: BLE001 - the definition cannot be instantiated: an observation
            return [["initfailed", sexn_of(e)] for _ in case["ops"]]
        await asyncio.sleep(0)
        world = World(dev, ctx)
        requester = make_requester(world, ctx)
        svc_defs = all_svcs(d)
        client = None          # (device | exception), created on first need
        obs = []
        for op in case["ops"]:
            kind = op[0]
            if kind == "describe" or (kind == "call" and client is None):
                try:
                    client = ("ok", await UpnpFactory(requester).async_create_device(case["base"]))
                except Exception as e:  # noqa: BLE001 - exceptions are observations
                    client = ("err", e)
            if kind == "describe":
                if client[0] == "err":
                    obs.append(["describe", F.exn_obs(client[1]), []])
                else:
                    cd = client[1]
                    steps = []
                    for svc in cd.all_services:
                        for sv in svc.state_variables.values():
                            rg = sv._state_variable_info.type_info.allowed_value_range  # noqa: SLF001 - no public getter
                            steps.append([svc.service_type, sv.name, rg.get("step") if rg else None])
                    obs.append(["describe", {"ok": F.dump_device(cd, None, case["probes"])}, steps])
                continue
            k = op[1]
            if k >= len(svc_defs):
                obs.append(["noservice"])
                continue
            sdef = svc_defs[k][1]
            ctx.script, ctx.seen, ctx.escaped, world.last = op[4], None, None, None
            if kind == "call":
                csvc = None
                if client[0] == "ok":
                    csvc = next((x for x in client[1].all_services if x.service_type == sdef["type"]), None)
                action = csvc.actions.get(op[2]) if csvc is not None else None
                if action is None:
                    obs.append(["call", ["noaction"]])
                    continue
                posts0 = ctx.posts
                try:
                    ret = await action.async_call(**{n: V.dec(j) for n, j in op[3]})
                    out = ["ret", enc_dict(dict(ret))]
                except Exception as e:  # noqa: BLE001
                    if isinstance(e, RuntimeError) and str(e).startswith("unencodable"):
                        raise
                    if ctx.posts == posts0:
                        from async_upnp_client.exceptions import UpnpError, UpnpValueError
                        cls_ = "EUpnpValueError" if isinstance(e, UpnpValueError) else "EUpnpError" if isinstance(e, UpnpError) \
                            else "EForeign:" + V.exn_name(e)
                        obs.append(["call", ["refused", cls_]])
                        continue
                    out = ["err"] + classify_client(e)
                obs.append(["call", ["done", None if ctx.seen is None else enc_dict(ctx.seen), world.last, out]])
            else:
                body = op[3]
                text = body["text"] if "text" in body else '<?xml version="1.0"?>' + render_tree(body["tree"])
                headers = {"Content-Type": 'text/xml; charset="utf-8"'}
                if op[2] is not None:
                    headers["SOAPAction"] = op[2]
                st, _, rtext = await world.serve("POST", sdef["control"], headers, text.encode("utf-8", "surrogatepass"))
                obs.append(["raw", None if ctx.seen is None else enc_dict(ctx.seen), response_sig(st, rtext, ctx.escaped)])
        await asyncio.sleep(0)
        return obs

    # ------------------------------------------------------------------ printers
    def _svar(self, v):
        pr = self.pr
        rg = "None" if v["range"] is None else "(Some (%s, %s, %s))" % tuple(pr.os(t) for t in v["range"])
        al = "None" if v["allowed"] is None else f"(Some {C.c_list((pr.s(a) for a in v['allowed']), 'pystr')})"
        return f"(mkVar {pr.s(v['name'])} {pr.s(v['type'])} {C.c_bool(v['evented'])} {pr.os(v['default'])} {rg} {al})"

    def _sact(self, a):
        pr = self.pr
        pairs = lambda l: C.c_list((f"({pr.s(n)}, {pr.s(vn)})" for n, vn in l), "(pystr * pystr)")  # noqa: E731
        return f"(mkAct {pr.s(a['name'])} {pairs(a['ins'])} {pairs(a['outs'])})"

    def _ssvc(self, s):
        pr = self.pr
        return (f"(mkSvc {pr.s(s['type'])} {pr.s(s['id'])} {pr.s(s['scpd'])} {pr.s(s['control'])} {pr.s(s['event'])} "
                f"{C.c_list((self._svar(v) for v in s['vars']), 'svar')} {C.c_list((self._sact(a) for a in s['acts']), 'sact')})")

    def _sdev(self, d):
        pr = self.pr
        h = d["h"]
        hdr = ("{| h_type := %s; h_friendly := %s; h_manufacturer := %s; h_manufacturer_url := %s; h_model_desc := %s; "
               "h_model_name := %s; h_model_number := %s; h_model_url := %s; h_serial := %s; h_udn := %s; h_upc := %s; "
               "h_presentation := %s |}" % tuple((pr.os(h[k]) if k in HDR_OPTIONAL else pr.s(h[k])) for k in HDR_KEYS))
        icons = C.c_list(("{| ic_mime := %s; ic_w := %s; ic_h := %s; ic_d := %s; ic_url := %s |}" %
                          (pr.s(i["mime"]), C.c_Z(i["w"]), C.c_Z(i["h"]), C.c_Z(i["d"]), pr.s(i["url"])) for i in d["icons"]), "icon_def")
        return "(SDev %s %s %s %s %s)" % (hdr, pr.s(d["url"]), icons, C.c_list((self._ssvc(s) for s in d["svcs"]), "ssvc"),
                                          C.c_list((self._sdev(x) for x in d["subs"]), "sdev"))

    def _kw(self, items):
        return C.c_list((f"({self.pr.s(n)}, {V.val_coq(j)})" for n, j in items), "(pystr * pyval)")

    def _script(self, sc):
        if sc[0] == "return":
            return f"(HReturn {self._kw(sc[1])})"
        if sc[0] == "error":
            return f"(HActionError {C.c_opt(sc[1], C.c_Z, 'Z')})"
        return {"valueerror": "HValueError"}.get(sc[0], "HCrash")

    def _xtree(self, t):
        pr = self.pr
        ns, local, attrs, text, kids = t
        at = C.c_list((f"({pr.s(a)}, {pr.s(b)}, {pr.s(c)})" for a, b, c in attrs), "(pystr * pystr * pystr)")
        return f"(XE {pr.s(ns)} {pr.s(local)} {at} {pr.s(text)} {C.c_list((self._xtree(k) for k in kids), 'xtree')})"

    def _op(self, op):
        pr = self.pr
        if op[0] == "describe":
            return "OpDescribe"
        if op[0] == "call":
            return f"(OpCall {C.c_nat(op[1])} {pr.s(op[2])} {self._kw(op[3])} {self._script(op[4])})"
        body = op[3]
        text = body["text"] if "text" in body else '<?xml version="1.0"?>' + render_tree(body["tree"])
        t = parse_body(text)
        return (f"(OpRaw {C.c_nat(op[1])} {pr.os(op[2])} {'(@None xtree)' if t is None else '(Some ' + self._xtree(t) + ')'} "
                f"{self._script(op[4])})")

    def _seen(self, s):
        return "(@None (dict pystr pyval))" if s is None else f"(Some {self._kw(s)})"

    def _resp(self, r):
        if r is None:
            return "(REsc EOther)"
        if r[0] == "ok":
            return "(ROk [])"
        if r[0] == "bad":
            return "(RBad 0)"
        if r[0] == "fault":
            return f"(RFault {C.c_Z(r[1])})"
        return f"(REsc {r[1] if r[1] in SEXN.values() else 'EOther'})"

    def _outcome(self, out):
        pr = self.pr
        oz = lambda c: C.c_opt(c, C.c_Z, "Z")  # noqa: E731
        if out[0] == "ret":
            return f"(C07.Model.Returned {self._kw(out[1])})"
        k = out[1]
        if k == "upnp_error":
            return "(C07.Model.Raised C07.Model.EUpnpError)"
        if k == "xml_parse":
            return "(C07.Model.Raised C07.Model.EXmlParse)"
        if k == "response":
            return f"(C07.Model.Raised (C07.Model.EResponse {C.c_Z(out[2])}))"
        if k == "action":
            return f"(C07.Model.Raised (C07.Model.EAction {oz(out[2])} {pr.os(out[3])}))"
        if k == "action_response":
            return f"(C07.Model.Raised (C07.Model.EActionResponse {oz(out[2])} {pr.os(out[3])} {C.c_Z(out[4])}))"
        n = out[2] if out[2] in V.EXN else "OtherError"
        return f"(C07.Model.Raised (C07.Model.ERaw {n}))"

    def _obs(self, o):
        k = o[0]
        if k == "initfailed":
            return f"(ObInitFailed {o[1]})"
        if k == "noservice":
            return "ObNoService"
        if k == "describe":
            steps = C.c_list((f"({self.pr.s(a)}, {self.pr.s(b)}, {self.pr.os(c)})" for a, b, c in o[2]), "(pystr * pystr * option pystr)")
            return f"(ObDescribe {self.pr.obs(o[1])} {steps})"
        if k == "call":
            c = o[1]
            if c[0] == "noaction":
                return "(ObCall CNoAction)"
            if c[0] == "refused":
                e = c[1]
                if e.startswith("EForeign"):
                    n = e.split(":", 1)[1]
                    return f"(ObCall (CRefused (C06.Model.EForeign {n if n in V.EXN else 'OtherError'})))"
                return f"(ObCall (CRefused C06.Model.{e}))"
            return f"(ObCall (CDone {self._seen(c[1])} {self._resp(c[2])} {self._outcome(c[3])}))"
        return f"(ObRaw {self._seen(o[1])} {self._resp(o[2])})"

    def _oracles(self, case):
        import urllib.parse
        pr = self.pr
        d, base = case["def"], case["base"]
        urls = {""}
        bases = {base}
        for dev in all_devs(d):
            bases.add(dev["url"])
            urls.update(i["url"] for i in dev["icons"])
            for s in dev["svcs"]:
                urls.update([s["scpd"], s["control"], s["event"]])
        for b in list(bases):
            for u in list(urls):
                urls.add(urllib.parse.urljoin(b, u))
        uj = [f"({pr.s(b)}, {pr.s(u)}, {pr.s(urllib.parse.urljoin(b, u))})" for b in sorted(bases) for u in sorted(urls)]
        texts, floats = set(), set()
        for _, s in all_svcs(d):
            for v in s["vars"]:
                if PYTYPE.get(v["type"]) == "float":
                    texts.update(t for t in [v["default"]] + (v["range"] or [])[:2] + (v["allowed"] or []) if t is not None)

        def val(j):
            if j is not None and j["t"] == "float":
                floats.add(V.dec(j))
        for op in case["ops"]:
            if op[0] == "call":
                for _, j in op[3]:
                    val(j)
            if op[0] in ("call", "raw") and op[4][0] == "return":
                for _, j in op[4][1]:
                    val(j)
            if op[0] == "raw" and "tree" in op[3]:
                def walk(t):
                    if t[3] is not None:
                        texts.add(t[3])
                    for k in t[4]:
                        walk(k)
                walk(op[3]["tree"])
        for _ in range(2):
            for t in list(texts):
                try:
                    floats.add(float(t))
                except ValueError:
                    pass
            for f in list(floats):
                texts.add(repr(f))
        keyf = lambda f: (f != f, f if f == f else 0.0, str(f))  # noqa: E731
        fs = [f"({V.fl_coq(f)}, {pr.s(repr(f))})" for f in sorted(floats, key=keyf)]
        fp = []
        for t in sorted(texts):
            try:
                fp.append(f"({pr.s(t)}, Some {V.fl_coq(float(t))})")
            except ValueError:
                fp.append(f"({pr.s(t)}, @None fl)")
        return C.c_list(uj, "(pystr * pystr * pystr)"), C.c_list(fs, "(fl * pystr)"), C.c_list(fp, "(pystr * option fl)")

    def to_coq(self, case, obs):
        pr = self.pr
        pr.intern = {}
        uj, fs, fp = self._oracles(case)
        inp = ("{| i_base := %s; i_probes := %s; i_urljoin := %s; i_fstr := %s; i_fparse := %s; i_def := %s; i_ops := %s |}" %
               (pr.s(case["base"]), C.c_list((V.val_coq(p) for p in case["probes"]), "pyval"), uj, fs, fp,
                self._sdev(case["def"]), C.c_list((self._op(o) for o in case["ops"]), "op")))
        ob = C.c_list((self._obs(o) for o in obs), "obs1")
        return pr.wrap(f"({inp}, {ob})")

    # ------------------------------------------------------------------ evidence helpers
    def nontrivial(self, case, obs):
        if not obs or obs[0][0] == "initfailed":
            return None
        if not any(o[0] in ("call", "raw") for o in obs):
            return None
        return C.case_hash([case, obs])

    def describe(self, case, obs):
        d = case["def"]
        return {"case": {"base": case["base"], "devices": len(all_devs(d)),
                         "services": [[s["type"], len(s["vars"]), len(s["acts"])] for _, s in all_svcs(d)],
                         "ops": [o[:3] if o[0] != "describe" else o for o in case["ops"]][:12]},
                "impl_observation": [o if o[0] != "describe" else ["describe", "ok" if "ok" in o[1] else o[1]] for o in obs][:12]}

    def summarize(self, cases, obss):
        kinds, raw_kinds, results, types, feats = {}, {}, {}, {}, {}
        n_svc = n_act = 0

        def bump(d, k):
            d[k] = d.get(k, 0) + 1
        for c, o in zip(cases, obss):
            for _, s in all_svcs(c["def"]):
                n_svc += 1
                n_act += len(s["acts"])
                for v in s["vars"]:
                    bump(types, v["type"])
                    for f in ("default", "range", "allowed"):
                        if v[f] is not None:
                            bump(feats, f)
                    if v["evented"]:
                        bump(feats, "evented")
            for op, ob in zip(c["ops"], o if isinstance(o, list) else []):
                bump(kinds, op[0])
                if op[0] == "raw":
                    bump(raw_kinds, op[5] if len(op) > 5 else "?")
                    bump(results, "raw:" + (ob[2][0] if ob[0] == "raw" and ob[2] else ob[0]))
                elif op[0] == "call":
                    bump(results, "call:" + (ob[1][0] if ob[0] == "call" else ob[0]) +
                         (":" + ob[1][3][0] + (":" + str(ob[1][3][1]) if ob[1][3][0] == "err" else "") if ob[0] == "call" and ob[1][0] == "done" else ""))
                else:
                    bump(results, "describe:" + ("ok" if ob[0] == "describe" and "ok" in ob[1] else "failed"))
        return {"operations_by_kind": kinds, "raw_requests_by_class": raw_kinds, "results": results, "services": n_svc,
                "actions": n_act, "state_variables_by_type": types, "state_variable_features": feats}

    # ------------------------------------------------------------------ shrinking
    def shrink(self, case):
        """most aggressive candidates first (the driver keeps the first one that still fails): the operations are
        independent of each other, so a single operation is tried first, then a single service, then pieces of it"""
        ops, d = case["ops"], case["def"]
        if len(ops) > 1:
            for i in range(len(ops)):
                yield {**case, "ops": [ops[i]]}
            h = len(ops) // 2
            yield {**case, "ops": ops[:h]}
            yield {**case, "ops": ops[h:]}
            return
        svcs = all_svcs(d)
        used = {o[1] for o in ops if o[0] != "describe"}

        def reindex(k):
            return [o if o[0] == "describe" else [o[0], k] + list(o[2:]) for o in ops]
        if len(used) == 1 and (len(svcs) > 1 or d["subs"] or d["icons"]):
            (k,) = used
            if k < len(svcs):                               # the service alone, directly under the root device
                yield {**case, "def": {**d, "icons": [], "svcs": [svcs[k][1]], "subs": []}, "ops": reindex(0)}
        if not used:
            for k in range(len(svcs)):
                yield {**case, "def": {**d, "icons": [], "svcs": [svcs[k][1]], "subs": []}}

        def variants(x, offset):
            # pieces of the definition no remaining operation refers to
            for i in range(len(x["subs"])):
                n_before = offset + len(x["svcs"]) + sum(len(all_svcs(y)) for y in x["subs"][:i])
                if not any(n_before <= u for u in used):
                    yield {**x, "subs": x["subs"][:i] + x["subs"][i + 1:]}
            if x["icons"]:
                yield {**x, "icons": []}
            for i, s in enumerate(x["svcs"]):
                k = offset + i
                if not any(k <= u for u in used) and (len(x["svcs"]) > 1 or offset > 0):
                    yield {**x, "svcs": x["svcs"][:i] + x["svcs"][i + 1:]}
                for j, a in enumerate(s["acts"]):
                    if not any(o[0] == "call" and o[1] == k and o[2] == a["name"] for o in ops) and \
                            not any(o[0] == "raw" and o[1] == k and o[2] and o[2].strip('"').endswith("#" + a["name"]) for o in ops):
                        s2 = {**s, "acts": s["acts"][:j] + s["acts"][j + 1:]}
                        yield {**x, "svcs": x["svcs"][:i] + [s2] + x["svcs"][i + 1:]}
                for j, v in enumerate(s["vars"]):
                    if not any(vn == v["name"] for a in s["acts"] for _, vn in a["ins"] + a["outs"]):
                        s2 = {**s, "vars": s["vars"][:j] + s["vars"][j + 1:]}
                        yield {**x, "svcs": x["svcs"][:i] + [s2] + x["svcs"][i + 1:]}
                for j, v in enumerate(s["vars"]):
                    for key in ("default", "range", "allowed"):
                        if v[key] is not None:
                            s2 = {**s, "vars": s["vars"][:j] + [{**v, key: None}] + s["vars"][j + 1:]}
                            yield {**x, "svcs": x["svcs"][:i] + [s2] + x["svcs"][i + 1:]}
        for v in variants(d, 0):
            yield {**case, "def": v}
        if case["probes"]:
            yield {**case, "probes": []}

    def mutate_case(self, case, rng):
        return []
