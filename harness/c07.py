"""C07 — SOAP responses and faults are decoded faithfully.  Harness.

A case is an action (service type, name, declared arguments with the data type of their related state
variable, strict/non-strict) and a short history of control responses (status, body text) handed to
`UpnpAction.async_call` of ONE action object through a scripted requester.  The bodies are rendered
here from a response model (status x {success, fault, neither, garbage} x out-argument subsets and
values of all 26 data types x serialisation choices: prefixes, default namespaces, argument order,
whitespace, comments, CDATA / character references, XML declaration, leading / trailing padding incl.
NUL) plus a malformed stream (mutated and truncated documents).

XML text -> tree is the real parser: the harness wraps defusedxml.ElementTree.fromstring (and the
stdlib spelling) in its own process, records the text it was called with and its answer, and ships
both to Coq; the model strips the body itself and asks that recorded oracle, so a different
stripping, a second parse, or a parse of something else shows up as a disagreement."""
from __future__ import annotations

import asyncio
import json
import warnings
import xml.etree.ElementTree as _ET

import defusedxml.ElementTree as _DET

from harness import common as C
from harness.c08 import ALL_TYPES, PYTYPE, enc, fl_coq, val_coq
from harness.c08 import Plugin as _P8

# ---------------------------------------------------------------------- the parse-oracle recorder
_REC = {"on": False, "calls": [], "depth": 0}


def _tree_json(el, depth=0):
    if depth > 60:
        raise RuntimeError("tree too deep for the harness")
    tag = el.tag if isinstance(el.tag, str) else "<!" + type(el.tag).__name__ + ">"
    text = el.text if (el.text is None or isinstance(el.text, str)) else str(el.text)
    return [tag, text, [_tree_json(c, depth + 1) for c in list(el)]]


def _wrap(orig):
    def wrapper(text, *a, **k):
        if not _REC["on"] or _REC["depth"]:
            return orig(text, *a, **k)
        _REC["depth"] += 1
        try:
            try:
                r = orig(text, *a, **k)
            except _ET.ParseError:
                _REC["calls"].append((text, "perr", None))
                raise
            except Exception:  # noqa: BLE001 - defusedxml's policy exceptions etc.
                _REC["calls"].append((text, "raised", None))
                raise
            _REC["calls"].append((text, "tree", _tree_json(r)))
            return r
        finally:
            _REC["depth"] -= 1
    wrapper._c07_wrapped = True  # noqa: SLF001
    wrapper._c07_orig = orig  # noqa: SLF001
    return wrapper


_ORIG_FROMSTRING = getattr(_DET.fromstring, "_c07_orig", _DET.fromstring)
for _mod in (_DET, _ET):
    for _name in ("fromstring", "XML"):
        _f = getattr(_mod, _name)
        if not getattr(_f, "_c07_wrapped", False):
            setattr(_mod, _name, _wrap(_f))

SOAP = "http://schemas.xmlsoap.org/soap/envelope/"
CONTROL = "urn:schemas-upnp-org:control-1-0"
NSS = "urn:schemas-upnp-org:service-1-0"
PAD = " \t\r\n\0"

SERVICE_TYPES = ["urn:schemas-upnp-org:service:RenderingControl:1", "urn:schemas-upnp-org:service:AVTransport:2",
                 "urn:dial-multiscreen-org:service:dial:1", "urn:x:y", "urn:schemas-upnp-org:service:WANIPConnection:1"]
ACTIONS = ["GetVolume", "GetInfo", "X_Custom", "A", "GetExternalIPAddress"]
ARG_NAMES = ["CurrentVolume", "Name", "A_ARG", "NewValue", "x", "Result", "Count", "When", "Flag", "Ratio"]
WS = ["", "", "", "\n", "\n  ", "\r\n", "\t", " "]

EXN_EXACT = {"ValueError": ValueError, "TypeError": TypeError, "AttributeError": AttributeError, "IndexError": IndexError}


# ---------------------------------------------------------------------- rendering responses
def _esc(rng, s):
    out = []
    for ch in s:
        if ch == "<":
            out.append("&lt;")
        elif ch == "&":
            out.append("&amp;")
        elif ch == ">":
            out.append(rng.choice([">", "&gt;"]))
        elif ch in "\r":
            out.append("&#13;")
        elif rng.random() < 0.04:
            out.append(rng.choice([f"&#{ord(ch)};", f"&#x{ord(ch):x};"]))
        else:
            out.append(ch)
    return "".join(out)


def _el(rng, qname, text, attrs=""):
    """text None -> empty element"""
    if text is None:
        return rng.choice([f"<{qname}{attrs}/>", f"<{qname}{attrs}></{qname}>"])
    if text and "]]>" not in text and "\r" not in text and rng.random() < 0.08:
        return f"<{qname}{attrs}><![CDATA[{text}]]></{qname}>"
    return f"<{qname}{attrs}>{_esc(rng, text)}</{qname}>"


def _envelope(rng, inner_fn, plain=False):
    sp = "s" if plain else rng.choice(["s", "s", "s", "SOAP-ENV", "soap", "env", ""])
    w = (lambda: "") if plain else (lambda: rng.choice(WS) + (rng.choice(["<!-- c -->", "<?pi x?>"]) if rng.random() < 0.03 else ""))
    decl = "" if plain else rng.choice(['<?xml version="1.0"?>', '<?xml version="1.0" encoding="utf-8"?>',
                                        '<?xml version="1.0" encoding="UTF-8" standalone="yes"?>', "", ""])
    if decl and rng.random() < 0.3:
        decl += "\n"
    q = (lambda n: f"{sp}:{n}") if sp else (lambda n: n)
    xmlns = f' xmlns:{sp}="{SOAP}"' if sp else f' xmlns="{SOAP}"'
    enc_style = ""
    if sp and not plain and rng.random() < 0.5:
        enc_style = f' {sp}:encodingStyle="http://schemas.xmlsoap.org/soap/encoding/"'
    header = ""
    if not plain:
        header = rng.choice(["", "", "", f"<{q('Header')}/>",
                             f"<{q('Header')}><j:Junk xmlns:j='urn:junk'>j</j:Junk></{q('Header')}>"])
    inner = inner_fn(sp, q, w)
    return (f"{decl}<{q('Envelope')}{xmlns}{enc_style}>{w()}{header}{w()}<{q('Body')}>{w()}{inner}{w()}"
            f"</{q('Body')}>{w()}</{q('Envelope')}>")


def _response_inner(rng, st, action, children, ns_mode, w, env_default_ns):
    """children: list of (name, text|None, style) ; ns_mode: exact | foreign | none | default | default_reset"""
    local = action + "Response"
    reset = ' xmlns=""' if (env_default_ns or ns_mode == "default_reset") else ""
    if ns_mode in ("default", "default_reset"):
        open_, close = f'<{local} xmlns="{st}">', f"</{local}>"
        if ns_mode == "default":
            reset = ""
    elif ns_mode == "none":
        open_, close = (f'<{local} xmlns="">', f"</{local}>") if env_default_ns else (f"<{local}>", f"</{local}>")
    else:
        up = rng.choice(["u", "u", "m", "ns1"])
        ns = st if ns_mode == "exact" else rng.choice(["urn:other", st + "x", st[:-1] + "9", st.lower() if st.lower() != st else st + "Z"])
        open_, close = f'<{up}:{local} xmlns:{up}="{ns}">', f"</{up}:{local}>"
    parts = [open_]
    for (name, text, style) in children:
        parts.append(w())
        if style == "prefixed":
            parts.append(_el(rng, f"q:{name}", text, ' xmlns:q="urn:q"'))
        elif style == "nested":
            inner = rng.choice(["i", "i"] + [c[0] for c in children])
            parts.append(f"<{name}{reset}>{_esc(rng, text or '')}<{inner}>1</{inner}></{name}>")
        else:
            parts.append(_el(rng, name, text, reset))
    parts.append(w())
    parts.append(close)
    return "".join(parts)


def _fault_inner(rng, q, w, code, desc, variant):
    """code/desc: None = element absent, "" = empty element, else text"""
    if variant == "childless":
        return rng.choice([f"<{q('Fault')}/>", f"<{q('Fault')}></{q('Fault')}>", f"<{q('Fault')}>oops</{q('Fault')}>"])
    ctl = CONTROL if variant != "wrong_ns" else rng.choice(["urn:schemas-upnp-org:control-1-1", "urn:schemas-upnp-org:control"])
    if variant == "prefixed":
        uo, uc, cq = f'<e:UPnPError xmlns:e="{ctl}">', "</e:UPnPError>", (lambda n: f"e:{n}")
    elif variant == "prefixed_bare_children":
        uo, uc, cq = f'<e:UPnPError xmlns:e="{ctl}">', "</e:UPnPError>", (lambda n: n)
    else:
        uo, uc, cq = f'<UPnPError xmlns="{ctl}">', "</UPnPError>", (lambda n: n)
    fields = []
    if code is not None:
        fields.append(_el(rng, cq("errorCode"), code or None))
    if desc is not None:
        fields.append(_el(rng, cq("errorDescription"), desc or None))
    if variant == "desc_first":
        fields.reverse()
    detail = "" if variant == "no_detail" else f"<detail>{w()}{uo}{w()}{w().join(fields)}{w()}{uc}{w()}</detail>"
    reset = ' xmlns=""' if q("x") == "x" else ""
    return (f"<{q('Fault')}>{w()}<faultcode{reset}>{q('Client')}</faultcode>{w()}<faultstring{reset}>UPnPError</faultstring>"
            f"{w()}{detail.replace('<detail>', f'<detail{reset}>') if reset else detail}{w()}</{q('Fault')}>")


class Plugin:
    ID = "C07"
    RUN_MODULE = "C07.Run"
    GEN = ["Types", "DateMatchers"]
    DEPENDS = ["C08"]
    CLAUSES = {1: "success_args", 2: "fault", 3: "other_status", 4: "not_xml", 5: "strictness"}
    SHARD = 60
    SEARCH_CASES = 1500
    RULE = ("one case = an action (service type, name, 0-6 declared arguments of the 26 data types, strict or not) and "
            "1-3 control responses decoded by the same UpnpAction object; a step is non-trivial when the XML parser was "
            "reached; distinct = distinct (configuration, step, observation)")
    TRUSTED = [
        "Coq 8.16.1 kernel + vm_compute",
        "tools/gen/types.py, tools/gen/datematchers.py (source -> Gen/Types.v, Gen/DateMatchers.v), C08's model of the in-coercers",
        "expat / defusedxml.ElementTree.fromstring as the text -> tree oracle (recorded per call by the harness; theorems "
        "quantify over every oracle); the tree abstraction keeps tag, text, children (attributes and tails are not read by the code)",
        "float() as an oracle recorded per case",
        "ElementPath queries ('.//{ns}a/{ns}b', './/{ns}a', './/{*}a', './'), Element truthiness (len), str.strip/rstrip, "
        "int(), dict insertion as modelled in C07/Model.v",
        "harness/c07.py: scripted requester, oracle recorder, exception classification by isinstance, response renderer",
    ]
    ASSUMPTIONS = [
        "service type / action name are non-empty words over letters, digits and ':._-' (ElementPath query syntax is not modelled beyond that)",
        "the parser answers with a tree or a ParseError (defusedxml's EntitiesForbidden etc. escape as raised: outside the domain, still compared)",
        "out-argument and errorCode texts contain no non-ASCII decimal digits (as C08)",
        "Element truthiness is len(element) != 0 (CPython 3.12)",
    ]
    last_exhaustive = False

    def __init__(self):
        self._p8 = _P8()
        self._loop = None

    # ------------------------------------------------------------------ corpus
    def corpus(self):
        extra = []
        d = C.VERIF / "corpus" / "C07"
        if d.is_dir():
            for f in sorted(d.glob("*.json")):
                data = json.loads(f.read_text())
                extra += data if isinstance(data, list) else [data]
        return extra

    # ------------------------------------------------------------------ generators
    def _config(self, rng):
        n_out = rng.choice([0, 1, 1, 2, 2, 3, 4, 6])
        names = rng.sample(ARG_NAMES, n_out)
        args = [[n, "out", rng.choice(ALL_TYPES)] for n in names]
        if args and rng.random() < 0.08:          # a second declaration of the same out-argument: the first wins
            args.append([args[0][0], "out", rng.choice(ALL_TYPES)])
        if rng.random() < 0.3:                     # in-arguments, possibly sharing a name with an out-argument
            nm = rng.choice(names) if names and rng.random() < 0.5 else "InArg"
            args.insert(rng.randint(0, len(args)), [nm, "in", "string"])
        return {"st": rng.choice(SERVICE_TYPES), "action": rng.choice(ACTIONS), "args": args,
                "non_strict": rng.random() < 0.45}

    def _valid_text(self, rng, tn):
        pyt = PYTYPE[tn]
        if pyt == "int":
            return rng.choice(["0", "5", "-1", "65535", "4294967295", " 7 ", "+3", "007", str(rng.randint(-10**12, 10**12)), "\n12\n"])
        if pyt == "float":
            return rng.choice(["1.5", "-2.25", "1e3", "0", " 2.5 ", "inf", "nan", ".5", repr(rng.uniform(-1e6, 1e6))])
        if pyt == "bool":
            return rng.choice(["1", "0", "true", "false", "yes", "no", "True", "YES", "TRUE", ""])
        if pyt == "str":
            alphabet = "ab Z<>&\"'\t\nÉß漢🎵%_0-9;]"
            return "".join(rng.choice(alphabet) for _ in range(rng.randint(0, 10)))
        d = "%04d-%02d-%02d" % (rng.choice([1, 1999, 2020, 9999]), rng.randint(1, 12), rng.randint(1, 28))
        t = "%02d:%02d:%02d" % (rng.randint(0, 23), rng.randint(0, 59), rng.randint(0, 59))
        z = rng.choice(["", "", "Z", "z", "+0000", "+05:30", "-0100", " +0100"])
        if tn == "date":
            return d
        if tn in ("time", "time.tz"):
            return t + rng.choice(["", "", "+0100", "-05:30", " +0000"])
        sep = rng.choice(["T", "T", " "])
        return d + sep + t + (z if sep == "T" else "")

    def _arg_text(self, rng, tn):
        r = rng.random()
        if r < 0.72:
            return self._valid_text(rng, tn)
        if r < 0.80:
            return None                                   # <Name/>
        return self._p8._rand_text(rng, tn)               # noqa: SLF001 - C08's mixed valid / malformed spellings

    def _success(self, rng, cfg, plain=False, ns_mode=None, unknown=None):
        outs = [a for a in cfg["args"] if a[1] == "out"]
        present = [a for a in outs if rng.random() < 0.7]
        rng.shuffle(present)
        children = []
        for a in present:
            tn = next(x[2] for x in cfg["args"] if x[0] == a[0] and x[1] == "out")
            txt = self._arg_text(rng, tn) if not plain else self._valid_text(rng, tn)
            style = "plain"
            if not plain:
                r = rng.random()
                style = "prefixed" if r < 0.03 else "nested" if r < 0.07 else "plain"
            children.append((a[0], txt, style))
        if present and not plain and rng.random() < 0.06:      # the same argument twice: the later one counts
            a = rng.choice(present)
            tn = next(x[2] for x in cfg["args"] if x[0] == a[0] and x[1] == "out")
            children.insert(rng.randint(0, len(children)), (a[0], self._valid_text(rng, tn), "plain"))
        if unknown is None:
            unknown = rng.random() < 0.15
        if unknown:
            nm = rng.choice(["Unknown", "X_Extra", "InArg"] + [a[0].lower() for a in outs] + [a[0] for a in cfg["args"] if a[1] == "in"])
            children.insert(rng.randint(0, len(children)), (nm, rng.choice(["1", "zzz", None]), "plain"))
        if ns_mode is None:
            ns_mode = rng.choice(["exact"] * 14 + ["foreign", "foreign", "none", "default", "default_reset", "absent"])
        if ns_mode == "absent":
            other = rng.choice([a for a in ACTIONS if a != cfg["action"]])
            return _envelope(rng, lambda sp, q, w: _response_inner(rng, cfg["st"], other, children, "exact", w, not sp), plain)
        return _envelope(rng, lambda sp, q, w: _response_inner(rng, cfg["st"], cfg["action"], children, ns_mode, w, not sp), plain)

    def _fault(self, rng, plain=False, variant=None, code="unset", desc="unset"):
        if variant is None:
            variant = rng.choice(["std"] * 8 + ["prefixed", "prefixed_bare_children", "desc_first", "no_detail", "childless", "wrong_ns"])
        if code == "unset":
            code = rng.choice(["401", "402", "501", "600", "714", " 402 ", "\n718\n", "-1", "0", "+7", "1_0", "99999999999999999999",
                               "", None, "abc", "4 02", "402.0"] if not plain else ["402"])
        if desc == "unset":
            desc = rng.choice(["Invalid Args", "Action Failed", "", None, "a < b & c", "  padded  ", "Ünïcode 漢"] if not plain else ["Invalid Args"])
        return _envelope(rng, lambda sp, q, w: _fault_inner(rng, q, w, code, desc, variant), plain)

    def _neither(self, rng, cfg):
        k = rng.randrange(7)
        if k == 0:
            return _envelope(rng, lambda sp, q, w: "")
        if k == 1:
            return "<html><body><h1>500 Internal Server Error</h1></body></html>"
        if k == 2:      # a Fault that is not inside Body
            return (f'<s:Envelope xmlns:s="{SOAP}"><s:Fault><faultcode>x</faultcode></s:Fault><s:Body/></s:Envelope>')
        if k == 3:      # the response element / a fault as the document root (never seen: './/' is below the root)
            return rng.choice([f'<u:{cfg["action"]}Response xmlns:u="{cfg["st"]}"><Name>1</Name></u:{cfg["action"]}Response>',
                               f'<s:Body xmlns:s="{SOAP}"><s:Fault><faultcode>x</faultcode></s:Fault></s:Body>'])
        if k == 4:      # Body in the wrong namespace
            return f'<s:Envelope xmlns:s="urn:not-soap"><s:Body><s:Fault><a/></s:Fault></s:Body></s:Envelope>'
        if k == 5:
            return "<root/>"
        return _envelope(rng, lambda sp, q, w: f"<other>{w()}<thing>1</thing></other>")

    def _both(self, rng, cfg):
        """fault and response element in one document (the fault wins), two faults, nested bodies"""
        k = rng.randrange(4)
        succ = self._success(rng, cfg, plain=True, ns_mode="exact", unknown=False)
        resp = succ[succ.index("<s:Body>") + 8: succ.index("</s:Body>")]
        f1 = _fault_inner(rng, lambda n: f"s:{n}", lambda: "", "402", "Invalid Args", "std")
        f2 = _fault_inner(rng, lambda n: f"s:{n}", lambda: "", "501", "Action Failed", "std")
        e = lambda inner: f'<s:Envelope xmlns:s="{SOAP}">{inner}</s:Envelope>'  # noqa: E731
        if k == 0:
            return e(f"<s:Body>{resp}{f1}</s:Body>")
        if k == 1:
            return e(f"<s:Body><s:Fault/>{f2}</s:Body>")       # first Fault is childless: not seen as a fault
        if k == 2:
            return e(f"<s:Header><s:Body>{f1}</s:Body></s:Header><s:Body>{f2}</s:Body>")
        return e(f"<s:Body><wrap><s:Body>{f1}</s:Body></wrap>{resp}</s:Body>")

    def _garbage(self, rng, cfg):
        k = rng.randrange(9)
        if k == 0:
            return rng.choice(["", " ", "\0\0", "\r\n"])
        if k == 1:
            return rng.choice(["not xml", "OK", "500 Internal Server Error", "<", "&", "{}"])
        if k == 2:
            b = self._success(rng, cfg)
            return b[:rng.randint(0, len(b) - 1)]
        if k == 3:
            return "<a><b></a>"
        if k == 4:
            b = self._fault(rng)
            i = rng.randrange(len(b))
            return b[:i] + rng.choice(["\0", "<", "&", "\x01"]) + b[i:]
        if k == 5:
            return "<a/><b/>"
        if k == 6:      # refused by defusedxml (entity declaration): escapes as EntitiesForbidden
            return '<!DOCTYPE x [<!ENTITY a "b">]>' + self._success(rng, cfg, plain=True)
        if k == 7:      # a DOCTYPE without entities is accepted
            return "<!DOCTYPE x>" + self._success(rng, cfg, plain=True)
        b = self._success(rng, cfg)
        i = rng.randrange(len(b))
        return b[:i] + b[i + 1:]

    def _pad(self, rng, body):
        r = rng.random()
        if r < 0.45:
            return body
        trail = "".join(rng.choice(PAD) for _ in range(rng.randint(1, 4))) if r < 0.9 else ""
        lead = "".join(rng.choice(PAD[:4]) for _ in range(rng.randint(1, 2))) if r >= 0.85 else ""
        return lead + body + trail

    def _step(self, rng, cfg):
        r = rng.random()
        if r < 0.5:
            kind, body = "success", self._success(rng, cfg)
            status = rng.choice([200] * 12 + [500, 404, 201])
        elif r < 0.72:
            kind, body = "fault", self._fault(rng)
            status = rng.choice([500] * 6 + [200, 200, 400, 401, 412, 503, 599, 1000, 0])
        elif r < 0.80:
            kind, body = "neither", self._neither(rng, cfg)
            status = rng.choice([200, 200, 500, 404, 301, 204])
        elif r < 0.86:
            kind, body = "both", self._both(rng, cfg)
            status = rng.choice([200, 200, 500])
        elif r < 0.98:
            kind, body = "garbage", self._garbage(rng, cfg)
            status = rng.choice([200, 200, 500, 404, 502])
        else:
            return {"kind": "nobody", "status": rng.choice([200, 500, 204]), "body": None}
        return {"kind": kind, "status": status, "body": self._pad(rng, body)}

    def _exhaustive(self):
        """status x kind x strictness x padding, plain serialisation (small scope, complete)"""
        import random
        rng = random.Random(7)
        cases = []
        base = {"st": SERVICE_TYPES[0], "action": "GetVolume",
                "args": [["CurrentVolume", "out", "ui2"], ["Name", "out", "string"], ["Channel", "in", "string"]]}
        st, ac = base["st"], "GetVolume"
        e = lambda inner: f'<?xml version="1.0"?><s:Envelope xmlns:s="{SOAP}"><s:Body>{inner}</s:Body></s:Envelope>'  # noqa: E731
        r = lambda ns, kids: f'<u:{ac}Response xmlns:u="{ns}">{kids}</u:{ac}Response>'  # noqa: E731
        std_fault = _fault_inner(rng, lambda n: f"s:{n}", lambda: "", "402", "Invalid Args", "std")
        bodies = {
            "success": e(r(st, "<CurrentVolume>5</CurrentVolume><Name>n</Name>")),
            "success_reordered": e(r(st, "<Name>n</Name><CurrentVolume>5</CurrentVolume>")),
            "success_subset": e(r(st, "<Name/>")),
            "success_foreign": e(r("urn:other", "<CurrentVolume>5</CurrentVolume>")),
            "success_unknown": e(r(st, "<CurrentVolume>5</CurrentVolume><Extra>1</Extra>")),
            "success_inarg_name": e(r(st, "<Channel>Master</Channel>")),
            "success_nested": e(r(st, "<Name>n<CurrentVolume>9</CurrentVolume></Name>")),
            "success_nested_unknown": e(r(st, "<CurrentVolume>5<i>z</i></CurrentVolume>")),
            "fault": e(std_fault),
            "fault_no_detail": e("<s:Fault><faultcode>s:Client</faultcode></s:Fault>"),
            "fault_childless": e("<s:Fault/>"),
            "neither": e(""),
            "garbage": "not xml",
            "empty": "",
            "nobody": None,
        }
        for kind, body in bodies.items():
            for status in (200, 500, 404):
                for ns in (False, True):
                    for lead in ("", " "):
                        for trail in ("", "\0", "\n\0 "):
                            b = None if body is None else lead + body + trail
                            if body is None and (lead or trail):
                                continue
                            cases.append({**base, "non_strict": ns, "steps": [{"kind": "x:" + kind, "status": status, "body": b}]})
        return cases

    def generate(self, rng, tier):
        n = 12000 if tier == "thorough" else 420
        cases = self._exhaustive()
        self.last_exhaustive = True
        for _ in range(n):
            cfg = self._config(rng)
            steps = [self._step(rng, cfg) for _ in range(rng.choice([1, 1, 2, 2, 3]))]
            cases.append({**cfg, "steps": steps})
        return cases

    def impl_search(self, rng, tier):
        """Implementation-only volume (never a proof): the metamorphic reading of C07_padding_irrelevant needs no
        Coq evaluation - the same response with and without padding must be decoded to the same observation."""
        n = 6000 if tier == "thorough" else 250
        found, done = [], 0

        def outs(case):
            o = self.run_impl(case)["steps"][0]["out"]
            return ["ret", sorted(o[1])] if o[0] == "ret" else o
        for _ in range(n):
            cfg = self._config(rng)
            st = self._step(rng, cfg)
            if st["body"] is None:
                continue
            core = st["body"].strip(PAD)
            status = st["status"]
            base = {**cfg, "steps": [{"kind": st["kind"], "status": status, "body": core}]}
            trail = "".join(rng.choice(PAD) for _ in range(rng.randint(1, 5)))
            lead = "".join(rng.choice(PAD) for _ in range(rng.randint(0, 2))) if status != 200 else ""
            padded = {**cfg, "steps": [{"kind": st["kind"], "status": status, "body": lead + core + trail}]}
            done += 2
            a, b = outs(base), outs(padded)
            if a != b:
                found.append(("padding_irrelevant", padded, self.run_impl(padded),
                              f"impl-search: same response without padding gives {json.dumps(a)[:300]}"))
                break
        return found, done

    def mutate_case(self, case, rng):
        out = []
        for s in case["steps"]:
            for status in (200, 500):
                out.append({**case, "steps": [{**s, "status": status}]})
        return out

    def shrink(self, case):
        if len(case["steps"]) > 1:
            for i in range(len(case["steps"])):
                yield {**case, "steps": [case["steps"][i]]}
            for i in range(len(case["steps"])):
                yield {**case, "steps": case["steps"][:i] + case["steps"][i + 1:]}
        for i in range(len(case["args"])):
            yield {**case, "args": case["args"][:i] + case["args"][i + 1:]}
        for i, s in enumerate(case["steps"]):
            b = s["body"]
            if b and b != b.strip(PAD):
                yield {**case, "steps": case["steps"][:i] + [{**s, "body": b.strip(PAD)}] + case["steps"][i + 1:]}

    # ------------------------------------------------------------------ implementation
    def _build(self, case):
        import xml.etree.ElementTree as ET
        from async_upnp_client.client import UpnpDevice, UpnpRequester, UpnpService
        from async_upnp_client.client_factory import UpnpFactory
        from async_upnp_client.const import DeviceInfo, ServiceInfo

        class Scripted(UpnpRequester):
            resp = None
            requests = 0

            async def async_do_http_request(self, *a, **k):  # pragma: no cover - not reached
                raise AssertionError("async_http_request is scripted")

            async def async_http_request(self, method, url, headers=None, body=None):
                self.requests += 1
                return self.resp

        factory = UpnpFactory(requester=None, non_strict=case["non_strict"])
        svs = []
        act = ET.Element(f"{{{NSS}}}action")
        ET.SubElement(act, f"{{{NSS}}}name").text = case["action"]
        al = ET.SubElement(act, f"{{{NSS}}}argumentList")
        for i, (name, direction, ty) in enumerate(case["args"]):
            el = ET.Element(f"{{{NSS}}}stateVariable", {"sendEvents": "no"})
            ET.SubElement(el, f"{{{NSS}}}name").text = f"SV{i}"
            ET.SubElement(el, f"{{{NSS}}}dataType").text = ty
            svs.append(factory._create_state_variable(el))  # noqa: SLF001
            a = ET.SubElement(al, f"{{{NSS}}}argument")
            ET.SubElement(a, f"{{{NSS}}}name").text = name
            ET.SubElement(a, f"{{{NSS}}}direction").text = direction
            ET.SubElement(a, f"{{{NSS}}}relatedStateVariable").text = f"SV{i}"
        action = factory._create_action(act, svs)  # noqa: SLF001
        req = Scripted()
        svc = UpnpService(req, ServiceInfo("sid", case["st"], "/ctl", "/ev", "/scpd", ET.Element("x")), svs, [action])
        UpnpDevice(req, DeviceInfo("dt", "fn", "m", None, None, "mn", None, None, None, "uuid:x", None, None,
                                   "http://h/desc.xml", [], ET.Element("x")), [svc], [])
        return action, req

    def _oracle(self, text):
        try:
            return ["tree", _tree_json(_ORIG_FROMSTRING(text))]
        except _ET.ParseError:
            return ["perr", None]
        except Exception:  # noqa: BLE001
            return ["raised", None]

    def _classify(self, e):
        from async_upnp_client import exceptions as X
        is_a, is_r = isinstance(e, X.UpnpActionError), isinstance(e, X.UpnpResponseError)

        def attrs_ok():
            code, desc = getattr(e, "error_code", "missing"), getattr(e, "error_desc", "missing")
            if not (code is None or (isinstance(code, int) and not isinstance(code, bool))):
                return None
            if not (desc is None or isinstance(desc, str)):
                return None
            return [None if code is None else str(code), desc]
        st = getattr(e, "status", "missing")
        st_ok = isinstance(st, int) and not isinstance(st, bool)
        if is_a and is_r:
            a = attrs_ok()
            return ["action_response", a[0], a[1], st] if a and st_ok else ["bad_attrs", type(e).__name__]
        if is_a:
            a = attrs_ok()
            return ["action", a[0], a[1]] if a and st in ("missing", None) else ["bad_attrs", type(e).__name__]
        if is_r:
            return ["response", st] if st_ok else ["bad_attrs", type(e).__name__]
        if isinstance(e, X.UpnpXmlParseError):
            return ["xml_parse"]
        if isinstance(e, X.UpnpError):      # "are errors in strict mode": any other error of the library's family
            return ["upnp_error"]
        for n, cls in EXN_EXACT.items():
            if type(e) is cls:
                return ["raw", n]
        return ["raw", "OtherError:" + type(e).__name__]

    def run_impl(self, case):
        if self._loop is None:
            self._loop = asyncio.new_event_loop()
        action, req = self._build(case)
        kwargs = {name: "v" for (name, direction, _ty) in case["args"] if direction == "in"}
        steps = []
        with warnings.catch_warnings():
            warnings.simplefilter("ignore")
            for s in case["steps"]:
                req.resp = (s["status"], {}, s["body"])
                _REC["calls"], _REC["on"] = [], True
                try:
                    try:
                        ret = self._loop.run_until_complete(action.async_call(**kwargs))
                        if not isinstance(ret, dict) and hasattr(ret, "items"):
                            ret = dict(ret.items())
                        items = []
                        for k, v in ret.items():
                            j = enc(v)
                            if not isinstance(k, str) or j["t"] == "other" or (j["t"] in ("time", "datetime") and (j["v"][-1] == "frac" or j.get("us"))):
                                raise RuntimeError(f"unencodable result item {k!r}: {v!r}")
                            items.append([k, j])
                        out = ["ret", items]
                    except Exception as e:  # noqa: BLE001 - exceptions are observations
                        if isinstance(e, RuntimeError) and str(e).startswith("unencodable"):
                            raise
                        out = ["err"] + self._classify(e)
                finally:
                    _REC["on"] = False
                calls = _REC["calls"]
                if len(calls) > 1:
                    raise RuntimeError(f"the XML parser was called {len(calls)} times for one response")
                orc = []
                body = s["body"]
                if calls:
                    text, kind, tree = calls[0]
                    if not isinstance(text, str) or not isinstance(body, str):
                        raise RuntimeError("the XML parser was given something that is not the body text")
                    a = body.find(text)
                    if a < 0:
                        raise RuntimeError("the XML parser was given a text that is not a slice of the body")
                    orc.append([a, len(body) - a - len(text), 0, kind, tree])
                if isinstance(body, str):
                    # the document the specification speaks about, parsed by the same (unwrapped) parser
                    doc = body.rstrip(PAD) if s["status"] == 200 else body.strip(PAD)
                    a = len(body) - len(body.lstrip(PAD)) if s["status"] != 200 and doc else 0
                    z = len(body) - a - len(doc)
                    ref = self._oracle(doc)
                    if orc and orc[0][0] == a and orc[0][1] == z and orc[0][3:] == ref:
                        orc[0][2] = 2
                    else:
                        orc.append([a, z, 1] + ref)
                steps.append({"out": out, "orc": orc, "parser_called": len(calls)})
        return {"steps": steps, "requests": req.requests}

    # ------------------------------------------------------------------ printers
    def _tree_coq(self, t):
        tag, text, kids = t
        return f"(Elem {C.c_str(tag)} {C.c_opt(text, C.c_str, 'pystr')} {C.c_list((self._tree_coq(k) for k in kids), 'xml')})"

    def _float_table(self, case, obs):
        ftypes = {a[0] for a in case["args"] if PYTYPE.get(a[2]) == "float" and a[1] == "out"}
        texts = []

        def walk(t):
            tag, text, kids = t
            if tag in ftypes:
                texts.append(text or "")
            for k in kids:
                walk(k)
        if ftypes:
            for s in obs["steps"]:
                for ent in s["orc"]:
                    if ent[3] == "tree":
                        walk(ent[4])
        rows, seen = [], set()
        for s in texts:
            if s in seen:
                continue
            seen.add(s)
            try:
                rows.append(f"({C.c_str(s)}, Some {fl_coq(float(s))})")
            except ValueError:
                rows.append(f"({C.c_str(s)}, @None fl)")
        return C.c_list(rows, "(pystr * option fl)")

    def _out_coq(self, out):
        oz = lambda c: "None" if c is None else f"(Some {C.c_Z(int(c))})"  # noqa: E731
        if out[0] == "ret":
            return "(Returned " + C.c_list((f"({C.c_str(k)}, {val_coq(j)})" for k, j in out[1]), "(pystr * pyval)") + ")"
        k = out[1]
        if k == "upnp_error":
            return "(Raised EUpnpError)"
        if k == "xml_parse":
            return "(Raised EXmlParse)"
        if k == "response":
            return f"(Raised (EResponse {C.c_Z(out[2])}))"
        if k == "action":
            return f"(Raised (EAction {oz(out[2])} {C.c_opt(out[3], C.c_str, 'pystr')}))"
        if k == "action_response":
            return f"(Raised (EActionResponse {oz(out[2])} {C.c_opt(out[3], C.c_str, 'pystr')} {C.c_Z(out[4])}))"
        if k == "raw":
            n = out[2] if out[2] in EXN_EXACT else "OtherError"
            return f"(Raised (ERaw {n}))"
        return "OracleMiss"     # bad_attrs: an exception of the family whose attributes have the wrong type; never equals a model outcome

    def to_coq(self, case, obs):
        args = C.c_list((f"(mkArg {C.c_str(n)} {C.c_str(d)} {C.c_str(t)})" for n, d, t in case["args"]), "arg")
        cfg = f"(mkConfig {C.c_str(case['st'])} {C.c_str(case['action'])} {args} {C.c_bool(case['non_strict'])})"
        steps, outs = [], []
        for s, o in zip(case["steps"], obs["steps"]):
            ents = []
            for (a, z, src, kind, tree) in o["orc"]:
                r = {"perr": "PParseError", "raised": "PRaised"}.get(kind) or f"(PTree {self._tree_coq(tree)})"
                ents.append(f"({C.c_nat(a)}, {C.c_nat(z)}, {C.c_N(src)}, {r})")
            orc = C.c_list(ents, "(nat * nat * N * parsed)")
            steps.append(f"(mkStep {C.c_Z(s['status'])} {C.c_opt(s['body'], C.c_str, 'pystr')} {orc})")
            outs.append(self._out_coq(o["out"]))
        return f"(({cfg}, {self._float_table(case, obs)}, {C.c_list(steps, 'step')}), {C.c_list(outs, 'outcome')})"

    # ------------------------------------------------------------------ evidence helpers
    def nontrivial(self, case, obs):
        if not isinstance(obs, dict) or "steps" not in obs or not any(s.get("parser_called") for s in obs["steps"]):
            return None
        return C.case_hash([case["st"], case["action"], case["args"], case["non_strict"],
                            [[s["status"], s["body"]] for s in case["steps"]], [s["out"] for s in obs["steps"]]])

    def describe(self, case, obs):
        o = obs if isinstance(obs, dict) and "steps" in obs else {"steps": []}
        return {"case": {**case, "steps": [{**s, "body": (s["body"][:400] if s["body"] else s["body"])} for s in case["steps"]]},
                "impl_observation": [s["out"] for s in o["steps"]]}

    def summarize(self, cases, obss):
        kinds, statuses, outs, strict, nsteps, types = {}, {}, {}, {}, {}, {}
        for c, o in zip(cases, obss):
            strict["non_strict" if c["non_strict"] else "strict"] = strict.get("non_strict" if c["non_strict"] else "strict", 0) + 1
            nsteps[len(c["steps"])] = nsteps.get(len(c["steps"]), 0) + 1
            for a in c["args"]:
                types[a[2]] = types.get(a[2], 0) + 1
            for s in c["steps"]:
                kinds[s.get("kind", "?").split(":")[0]] = kinds.get(s.get("kind", "?").split(":")[0], 0) + 1
                statuses[s["status"]] = statuses.get(s["status"], 0) + 1
            if isinstance(o, dict) and "steps" in o:
                for s in o["steps"]:
                    k = s["out"][0] if s["out"][0] == "ret" else s["out"][1] + (":" + s["out"][2] if s["out"][1] == "raw" else "")
                    outs[k] = outs.get(k, 0) + 1
        return {"steps_by_kind": kinds, "steps_by_status": statuses, "observations": outs, "clients": strict,
                "steps_per_case": nsteps, "declared_argument_types": types}
