"""C05 — Description documents produce a faithful device model.  Harness.

A case is a *world*: a description URL, a device definition (abstract syntax of a well-formed UPnP
description: tree of devices, services, state variables, actions, icons) with a rendering choice and a
corruption flag per service document - or raw, possibly malformed documents -, the factory mode, and
probe values for validate_value.  The implementation side renders the definition to XML *text* (several
serialisations), serves it through a scripted requester to the real UpnpFactory and dumps the public
attribute graph.  The Coq side renders the same definition to XML *trees* (Def.to_tree), runs the model,
and evaluates the specification clauses on the implementation's dump."""
from __future__ import annotations

import asyncio
import copy
import json

from harness import common as C
from harness import c08 as V   # value encoders shared with C08 (enc/dec/val_coq/fl_coq)

NS_DEVICE = "urn:schemas-upnp-org:device-1-0"
NS_SERVICE = "urn:schemas-upnp-org:service-1-0"
NS_FOREIGN = "urn:x"

ALL_TYPES = V.ALL_TYPES
PYTYPE = V.PYTYPE
COQ_PYTYPE = {"int": "TInt", "float": "TFloat", "str": "TStr", "bool": "TBool", "date": "TDate", "datetime": "TDateTime",
              "time": "TTime"}
CORRUPT = {"none": "CNone", "unparseable": "CUnparseable", "tag": "CForeignTag", "rootns": "CForeignRootNs", "ns": "CForeignNs",
           "notable": "CNoTable"}
HDR_KEYS = ["type", "friendly", "manufacturer", "manufacturer_url", "model_desc", "model_name", "model_number", "model_url",
            "serial", "udn", "upc", "presentation"]
HDR_TAGS = ["deviceType", "friendlyName", "manufacturer", "manufacturerURL", "modelDescription", "modelName", "modelNumber",
            "modelURL", "serialNumber", "UDN", "UPC", "presentationURL"]
HDR_OPTIONAL = {"manufacturer_url", "model_desc", "model_number", "model_url", "serial", "upc", "presentation"}


# ======================================================================================= rendering (mirror of Def.v)
def perm_of(k, l):
    l = list(l)
    if k == 0 or not l:
        return l
    if k == 1:
        return l[::-1]
    n = (k - 1) % len(l)
    return l[n:] + l[:n]


def leaf(ns, local, text):
    return (ns, local, [], text if text else None, [])


class Renderer:
    """def -> tuple trees (ns, local, attrs, text, children), exactly as Def.v does with r_ctext = None."""

    def __init__(self, r):
        self.k, self.pad, self.spec, self.empty = r["perm"], r["pad"], r["spec"], r["empty"]

    def record(self, ns, local, attrs, fields, subs):
        cs = [leaf(ns, n, t) for n, t in fields if t is not None]
        cs += [(ns, n, [], None, ch) for n, ch in subs if ch is not None]
        return (ns, local, attrs, None, perm_of(self.k, cs))

    def list_sub(self, f, l):
        if not l:
            return [] if self.empty else None
        return [f(x) for x in l]

    def sv_tree(self, ns, v):
        name = ("\x20\n" + v["name"] + "\t\x20") if self.pad else v["name"]
        yn = "yes" if v["evented"] else "no"
        fields = [("name", name), ("dataType", v["type"]), ("sendEventsAttribute", None if v["attr"] else yn),
                  ("defaultValue", v["default"])]
        rg = None
        if v["range"] is not None:
            mn, mx, st = v["range"]
            rg = perm_of(self.k, [leaf(ns, n, t) for n, t in (("minimum", mn), ("maximum", mx), ("step", st)) if t is not None])
        al = None if v["allowed"] is None else [leaf(ns, "allowedValue", a) for a in v["allowed"]]
        return self.record(ns, "stateVariable", [("sendEvents", yn)] if v["attr"] else [], fields,
                           [("allowedValueRange", rg), ("allowedValueList", al)])

    def arg_tree(self, ns, a):
        return self.record(ns, "argument", [],
                           [("name", a["name"]), ("direction", "in" if a["in"] else "out"),
                            ("retval", "" if a["retval"] else None), ("relatedStateVariable", a["rsv"])], [])

    def action_tree(self, ns, a):
        return self.record(ns, "action", [], [("name", a["name"])],
                           [("argumentList", self.list_sub(lambda g: self.arg_tree(ns, g), a["args"]))])

    def spec_sub(self, ns):
        return [leaf(ns, "major", "1"), leaf(ns, "minor", "0")] if self.spec else None

    def scpd_tree(self, s):
        c = s["corrupt"]
        if c == "unparseable":
            return None
        ns = NS_FOREIGN if c == "ns" else NS_SERVICE
        root = "notscpd" if c == "tag" else "scpd"
        table = None if c == "notable" else [self.sv_tree(ns, v) for v in s["vars"]]
        t = self.record(ns, root, [], [],
                        [("specVersion", self.spec_sub(ns)),
                         ("actionList", self.list_sub(lambda a: self.action_tree(ns, a), s["actions"])),
                         ("serviceStateTable", table)])
        return (NS_FOREIGN,) + t[1:] if c == "rootns" else t

    def service_tree(self, s):
        return self.record(NS_DEVICE, "service", [],
                           [("serviceType", s["type"]), ("serviceId", s["id"]), ("SCPDURL", s["scpd"]),
                            ("controlURL", s["control"]), ("eventSubURL", s["event"])], [])

    def icon_tree(self, i):
        return self.record(NS_DEVICE, "icon", [],
                           [("mimetype", i["mime"]), ("width", str(i["w"])), ("height", str(i["h"])), ("depth", str(i["d"])),
                            ("url", i["url"])], [])

    def dev_tree(self, d):
        fields = [(t, d["h"][k]) for k, t in zip(HDR_KEYS, HDR_TAGS)]
        return self.record(NS_DEVICE, "device", [], fields,
                           [("iconList", self.list_sub(self.icon_tree, d["icons"])),
                            ("serviceList", self.list_sub(self.service_tree, d["svcs"])),
                            ("deviceList", self.list_sub(self.dev_tree, d["subs"]))])

    def root_tree(self, d):
        return self.record(NS_DEVICE, "root", [], [], [("specVersion", self.spec_sub(NS_DEVICE)), ("device", self.dev_tree(d)[4])])


def xml_escape(s, attr=False):
    s = s.replace("&", "&amp;").replace("<", "&lt;").replace(">", "&gt;")
    if attr:
        s = s.replace('"', "&quot;").replace("\n", "&#10;").replace("\t", "&#9;")
    return s


def serialise(tree, style):
    """tuple tree -> XML text.  style: prefix (namespace prefix vs default namespace), pretty (indentation inside
    elements that have children), cdata (CDATA sections instead of entities), decl, comments, trail."""
    root_ns = tree[0]
    prefix = style.get("prefix", False)
    out = []

    def qname(ns, local, cur_default):
        if prefix and ns == root_ns and ns:
            return "p:" + local, None
        if ns == cur_default:
            return local, None
        return local, ns      # needs an xmlns declaration

    def text_of(t):
        if style.get("cdata") and any(ch in t for ch in "<&>") and "]]>" not in t:
            return "<![CDATA[" + t + "]]>"
        return xml_escape(t)

    def emit(el, depth, cur_default, is_root):
        ns, local, attrs, text, children = el
        name, decl_ns = qname(ns, local, cur_default)
        a = ""
        if is_root and prefix and ns:
            a += f' xmlns:p="{ns}"'
        if decl_ns is not None:
            a += f' xmlns="{decl_ns}"'
            cur_default = decl_ns
        for k, v in attrs:
            a += f' {k}="{xml_escape(v, attr=True)}"'
        ind = ("\n" + "  " * (depth + 1)) if style.get("pretty") and children else ""
        if not children and text is None:
            out.append(f"<{name}{a}/>" if style.get("selfclose", True) else f"<{name}{a}></{name}>")
            return
        out.append(f"<{name}{a}>")
        if text is not None and not children:
            out.append(text_of(text))
        for i, c in enumerate(children):
            out.append(ind)
            if style.get("comments") and i == 0:
                out.append("<!-- c -->")
            emit(c, depth + 1, cur_default, False)
        if children and style.get("pretty"):
            out.append("\n" + "  " * depth)
        out.append(f"</{name}>")

    emit(tree, 0, "", True)
    body = "".join(out)
    if style.get("decl"):
        # the document reaches the factory as text (already decoded by the requester): whatever encoding the
        # declaration names must not change how that text is read
        body = f'<?xml version="1.0" encoding="{style.get("decl_enc", "utf-8")}"?>\n' + body
    return body + style.get("trail", "")


def et_to_tuple(el):
    tag = el.tag
    if isinstance(tag, str) and tag.startswith("{"):
        ns, local = tag[1:].split("}", 1)
    else:
        ns, local = "", str(tag)
    return (ns, local, [(k, v) for k, v in el.attrib.items()], el.text, [et_to_tuple(c) for c in el])


def parse_text(body):
    """what client_factory._async_get does with a 200 response body: (tuple tree | None)"""
    import defusedxml.ElementTree as DET
    from xml.etree import ElementTree as ET
    try:
        return et_to_tuple(DET.fromstring((body or "").rstrip(" \t\r\n\0")))
    except ET.ParseError:
        return None


def trees_equal(a, b):
    """equality up to the character data of elements that have children"""
    if a is None or b is None:
        return a is b
    if (a[0], a[1], list(a[2])) != (b[0], b[1], list(b[2])) or len(a[4]) != len(b[4]):
        return False
    if not a[4] and a[3] != b[3]:
        return False
    return all(trees_equal(x, y) for x, y in zip(a[4], b[4]))


def all_services(d):
    out = list(d["svcs"])
    for s in d["subs"]:
        out += all_services(s)
    return out


def all_devices(d):
    out = [d]
    for s in d["subs"]:
        out += all_devices(s)
    return out


# ======================================================================================= the world of a case
def urljoin(base, u):
    import urllib.parse
    return urllib.parse.urljoin(base, u)


def build_world(case):
    """-> (desc (status, body), {url: (status, body)}, parsed trees for the Coq side)"""
    base = case["base"]
    if case["kind"] == "raw":
        scpds = {}
        for url, doc in case["scpds"]:
            scpds.setdefault(url, (doc["status"], doc["body"]))
        return (case["desc"]["status"], case["desc"]["body"]), scpds
    r = Renderer(case["render"])
    style = case["render"].get("style", {})
    desc = serialise(r.root_tree(case["def"]), style)
    scpds = {}
    for s in all_services(case["def"]):
        t = r.scpd_tree(s)
        body = "<scpd><unclosed>" if t is None else serialise(t, style)
        scpds.setdefault(urljoin(base, s["scpd"]), (200, body))
    return (200, desc), scpds


def exn_obs(e):
    from async_upnp_client.exceptions import UpnpError, UpnpResponseError, UpnpXmlContentError, UpnpXmlParseError
    if isinstance(e, UpnpResponseError):
        return {"raise": "ResponseError", "status": int(e.status)}
    if isinstance(e, UpnpXmlParseError):
        return {"raise": "XmlParseError"}
    if isinstance(e, UpnpXmlContentError):
        return {"raise": "XmlContentError"}
    if isinstance(e, UpnpError):
        return {"raise": "UpnpErr", "cls": type(e).__name__}
    for n, cls in (("KeyErr", KeyError), ("ValueErr", ValueError), ("TypeErr", TypeError)):
        if isinstance(e, cls):
            return {"raise": n, "msg": str(e)[:120]}
    return {"raise": "OtherErr", "cls": type(e).__name__, "msg": str(e)[:120]}


def getter(f):
    try:
        return ["ok", f()]
    except Exception as e:  # noqa: BLE001 - a raising getter is an observation
        return ["err", V.exn_name(e)]


def dump_sv(sv, svc, probes):
    from async_upnp_client.exceptions import UpnpValueError

    def probe(p):
        try:
            sv.validate_value(V.dec(p))
            return True
        except UpnpValueError:
            return False
    allowed = getter(lambda: sorted((V.enc(x) for x in sv.allowed_values), key=lambda j: json.dumps(j, sort_keys=True)))
    return {"name": sv.name, "dtype": sv.data_type, "pytype": getattr(sv.data_type_python, "__name__", "?"),
            "events": bool(sv.send_events),
            "min": getter(lambda: V.enc(sv.min_value)), "max": getter(lambda: V.enc(sv.max_value)),
            "allowed": allowed, "default": getter(lambda: V.enc(sv.default_value)),
            "probes": [probe(p) for p in probes], "bound": sv.service is svc}


def dump_action(ac, svc):
    args = []
    for a in ac.arguments:
        rsv = a.related_state_variable
        args.append({"name": a.name, "direction": a.direction, "rsv": rsv.name,
                     "bound": svc.state_variables.get(rsv.name) is rsv})
    return {"name": ac.name, "args": args, "bound": ac.service is svc}


def dump_service(s, dev, probes):
    return {"type": s.service_type, "id": s.service_id, "scpd": s.scpd_url, "control": s.control_url,
            "event": s.event_sub_url,
            "vars": [[k, dump_sv(v, s, probes)] for k, v in s.state_variables.items()],
            "actions": [[k, dump_action(a, s)] for k, a in s.actions.items()],
            "bound": s.device is dev}


def dump_device(d, parent, probes, root=None):
    root = d if root is None else root
    info = {"type": d.device_type, "friendly": d.friendly_name, "manufacturer": d.manufacturer,
            "manufacturer_url": d.manufacturer_url, "model_desc": d.model_description, "model_name": d.model_name,
            "model_number": d.model_number, "model_url": d.model_url, "serial": d.serial_number, "udn": d.udn,
            "upc": d.upc, "presentation": d.presentation_url, "url": d.device_url}
    assert d.name == d.friendly_name
    return {"info": info,
            "icons": [{"mime": i.mimetype, "w": i.width, "h": i.height, "d": i.depth, "url": i.url} for i in d.icons],
            "services": [[k, dump_service(s, d, probes)] for k, s in d.services.items()],
            "embedded": [[k, dump_device(e, d, probes, root)] for k, e in d.embedded_devices.items()],
            # bound to its place in the tree: the parent it hangs under AND the root it reports
            "bound": d.parent_device is parent and d.root_device is root}


# ======================================================================================= Coq printers
class Printer:
    def __init__(self):
        self.intern = {}

    def s(self, text):
        if len(text) < 3:
            return C.c_str(text)
        name = self.intern.get(text)
        if name is None:
            name = self.intern[text] = f"z{len(self.intern)}"
        return name

    def os(self, t):
        return "nS" if t is None else f"(Some {self.s(t)})"

    def header(self):
        return "\n".join(["Notation nS := (@None pystr) (only parsing).",
                          f"Definition nsD : pystr := {C.c_str(NS_DEVICE)}.", f"Definition nsS : pystr := {C.c_str(NS_SERVICE)}."])

    def wrap(self, term):
        """strings are bound once per case (elaborating literals is what costs time, DESIGN 1.2)"""
        lets = "".join(f"let {name} : pystr := {C.c_str(text)} in\n" for text, name in self.intern.items())
        self.intern = {}
        return f"({lets}{term})"

    # ---- definitions
    def sv_def(self, v):
        rg = "None" if v["range"] is None else "(Some (%s, %s, %s))" % tuple(self.os(t) for t in v["range"])
        al = "None" if v["allowed"] is None else f"(Some {C.c_list((self.s(a) for a in v['allowed']), 'pystr')})"
        return ("{| sd_name := %s; sd_type := %s; sd_attr := %s; sd_evented := %s; sd_default := %s; sd_range := %s; "
                "sd_allowed := %s |}" % (self.s(v["name"]), self.s(v["type"]), C.c_bool(v["attr"]), C.c_bool(v["evented"]),
                                         self.os(v["default"]), rg, al))

    def action_def(self, a):
        args = C.c_list(("{| ag_name := %s; ag_in := %s; ag_retval := %s; ag_rsv := %s |}" %
                         (self.s(g["name"]), C.c_bool(g["in"]), C.c_bool(g["retval"]), self.s(g["rsv"])) for g in a["args"]), "arg_def")
        return "{| ad_name := %s; ad_args := %s |}" % (self.s(a["name"]), args)

    def service_def(self, s):
        return ("{| s_type := %s; s_id := %s; s_scpd := %s; s_control := %s; s_event := %s; s_vars := %s; s_actions := %s; "
                "s_corrupt := %s |}" % (self.s(s["type"]), self.s(s["id"]), self.s(s["scpd"]), self.s(s["control"]), self.s(s["event"]),
                                        C.c_list((self.sv_def(v) for v in s["vars"]), "sv_def"),
                                        C.c_list((self.action_def(a) for a in s["actions"]), "action_def"), CORRUPT[s["corrupt"]]))

    def device_def(self, d):
        h = d["h"]
        hdr = ("{| h_type := %s; h_friendly := %s; h_manufacturer := %s; h_manufacturer_url := %s; h_model_desc := %s; "
               "h_model_name := %s; h_model_number := %s; h_model_url := %s; h_serial := %s; h_udn := %s; h_upc := %s; "
               "h_presentation := %s |}" % tuple((self.os(h[k]) if k in HDR_OPTIONAL else self.s(h[k])) for k in HDR_KEYS))
        icons = C.c_list(("{| ic_mime := %s; ic_w := %s; ic_h := %s; ic_d := %s; ic_url := %s |}" %
                          (self.s(i["mime"]), C.c_Z(i["w"]), C.c_Z(i["h"]), C.c_Z(i["d"]), self.s(i["url"])) for i in d["icons"]), "icon_def")
        return "(DeviceDef %s %s %s %s)" % (hdr, icons, C.c_list((self.service_def(s) for s in d["svcs"]), "service_def"),
                                            C.c_list((self.device_def(x) for x in d["subs"]), "device_def"))

    def xml(self, t):
        ns, local, attrs, text, children = t
        nsn = "nsD" if ns == NS_DEVICE else "nsS" if ns == NS_SERVICE else self.s(ns)
        at = C.c_list((f"({self.s(k)}, {self.s(v)})" for k, v in attrs), "(pystr * pystr)")
        return f"(Elem {nsn} {self.s(local)} {at} {self.os(text)} {C.c_list((self.xml(c) for c in children), 'xml')})"

    # ---- observations
    def res(self, r, f):
        if r[0] == "ok":
            return f"(Ok {f(r[1])})"
        return f"(Raise {r[1] if r[1] in V.EXN else 'OtherError'})"

    def oval(self, j):
        return "(@None pyval)" if j["t"] == "none" else f"(Some {V.val_coq(j)})"

    def sv_o(self, o):
        return ("{| vo_name := %s; vo_dtype := %s; vo_pytype := %s; vo_events := %s; vo_min := %s; vo_max := %s; vo_allowed := %s; "
                "vo_default := %s; vo_probes := %s; vo_bound := %s |}" % (
                    self.s(o["name"]), self.s(o["dtype"]), COQ_PYTYPE.get(o["pytype"], "TStr"), C.c_bool(o["events"]),
                    self.res(o["min"], self.oval), self.res(o["max"], self.oval),
                    self.res(o["allowed"], lambda l: C.c_list((V.val_coq(x) for x in l), "pyval")),
                    self.res(o["default"], self.oval), C.c_list((C.c_bool(b) for b in o["probes"]), "bool"), C.c_bool(o["bound"])))

    def action_o(self, o):
        args = C.c_list(("{| ao_name := %s; ao_direction := %s; ao_rsv := %s; ao_bound := %s |}" %
                         (self.s(a["name"]), self.s(a["direction"]), self.s(a["rsv"]), C.c_bool(a["bound"])) for a in o["args"]), "arg_o")
        return "{| co_name := %s; co_args := %s; co_bound := %s |}" % (self.s(o["name"]), args, C.c_bool(o["bound"]))

    def service_o(self, o):
        return ("{| so_type := %s; so_id := %s; so_scpd := %s; so_control := %s; so_event := %s; so_vars := %s; so_actions := %s; "
                "so_bound := %s |}" % (self.s(o["type"]), self.s(o["id"]), self.s(o["scpd"]), self.s(o["control"]), self.s(o["event"]),
                                       C.c_list((f"({self.s(k)}, {self.sv_o(v)})" for k, v in o["vars"]), "(pystr * sv_o)"),
                                       C.c_list((f"({self.s(k)}, {self.action_o(a)})" for k, a in o["actions"]), "(pystr * action_o)"),
                                       C.c_bool(o["bound"])))

    def dev_o(self, o):
        i = o["info"]
        info = ("{| di_type := %s; di_friendly := %s; di_manufacturer := %s; di_manufacturer_url := %s; di_model_desc := %s; "
                "di_model_name := %s; di_model_number := %s; di_model_url := %s; di_serial := %s; di_udn := %s; di_upc := %s; "
                "di_presentation := %s; di_url := %s |}" % (
                    self.s(i["type"]), self.s(i["friendly"]), self.s(i["manufacturer"]), self.os(i["manufacturer_url"]),
                    self.os(i["model_desc"]), self.s(i["model_name"]), self.os(i["model_number"]), self.os(i["model_url"]),
                    self.os(i["serial"]), self.s(i["udn"]), self.os(i["upc"]), self.os(i["presentation"]), self.s(i["url"])))
        icons = C.c_list(("{| io_mimetype := %s; io_width := %s; io_height := %s; io_depth := %s; io_url := %s |}" %
                          (self.s(c["mime"]), C.c_Z(c["w"]), C.c_Z(c["h"]), C.c_Z(c["d"]), self.s(c["url"])) for c in o["icons"]), "icon_o")
        return "(DevO %s %s %s %s %s)" % (
            info, icons, C.c_list((f"({self.s(k)}, {self.service_o(s)})" for k, s in o["services"]), "(pystr * service_o)"),
            C.c_list((f"({self.s(k)}, {self.dev_o(e)})" for k, e in o["embedded"]), "(pystr * dev_o)"), C.c_bool(o["bound"]))

    def obs(self, o):
        if "raise" in o:
            if o["raise"] == "ResponseError":
                return f"(FRaise (ResponseError {C.c_Z(o['status'])}))"
            return f"(@FRaise dev_o {o['raise']})"
        return f"(FOk {self.dev_o(o['ok'])})"


def leaf_texts(t, acc):
    if t is None:
        return acc
    if t[3] is not None:
        acc.append(t[3])
    for k, v in t[2]:
        acc.append(v)
    for c in t[4]:
        leaf_texts(c, acc)
    return acc


# ======================================================================================= generators
BASES = ["http://192.168.1.2:49152/desc/root.xml", "http://h/d.xml", "https://dev.example:8443/a/b/desc.xml?x=1",
         "http://[fe80::1]:80/upnp/desc"]
REL_URLS = ["/svc/%s.xml", "svc/%s", "../%s/scpd.xml", "%s.xml", "/a/b/../%s", "./%s", "%s?q=1", "//h2:81/%s", "httpd/%s", "https.d/%s.x",
            "/proxy/%s?target=http://10.0.0.7:49152/ctl", "%s?next=https://h/x", "../%s#frag://y", "%s;p=a://b"]
ABS_URLS = ["http://192.168.1.2:49152/x/%s", "http://other.example/%s.xml", "https://h2:444/%s"]
TEXTS = ["", "A", "Acme Corp", "Living Room <TV> & \"Radio\"", "Süßes Gerät 漢字 🎵", " padded ", "a]]>b", "1.0", "x" * 40,
         "line1\nline2", "tab\there"]
VALID_TEXT = {
    "int": ["0", "1", "-5", "100", "+7", " 12 ", "65535", "1_000", "4294967296",
            "18446744073709551615", "9223372036854775807", "-9223372036854775807", "9007199254740993"],
    "float": ["0", "1.5", "-2.5e3", "100", "inf", ".5", " 3.25 "],
    "str": ["a", "PLAYING", "STOPPED", "x y", "Ünï", "NOT_IMPLEMENTED", "0"],
    "bool": ["1", "0", "true", "false", "yes", "no", "TRUE", "Yes"],
    "date": ["2020-01-02", "1999-12-31", "2024-02-29"],
    "datetime": ["2020-01-02T03:04:05", "1999-12-31T23:59:59", "2020-01-02"],
    "datetime.tz": ["2020-01-02T03:04:05+01:00", "2020-01-02T03:04:05Z", "2020-01-02T03:04:05-0530", "2020-01-02T03:04:05"],
    "time": ["03:04:05", "23:59:59", "00:00:00"],
    "time.tz": ["03:04:05+01:00", "03:04:05-0530", "03:04:05Z", "03:04:05"],
}
BAD_TEXT = ["abc", "", " ", "1.5.2", "0x10", "2020-13-01", "25:00:00", "yes!", "1e", "--1"]
PROBES = [V.enc(x) for x in (0, 1, -5, 7, 100, 101, 65535, 10 ** 12, True, False, 0.0, 1.5, 100.0, -2500.0, float("inf"),
                             "a", "PLAYING", "x y", "zzz", "", None)]


def text_kind(type_name):
    p = PYTYPE[type_name]
    if type_name in ("dateTime.tz", "time.tz"):
        return p + ".tz"
    return p


def valid_text(rng, type_name):
    return rng.choice(VALID_TEXT[text_kind(type_name)])


def probes_for(rng, case_vars):
    import datetime as dt
    ps = rng.sample(PROBES, 6)
    ps += [V.enc(dt.date(2020, 1, 2)), V.enc(dt.datetime(2020, 1, 2, 3, 4, 5)), V.enc(dt.time(3, 4, 5)),
           V.enc(dt.time(3, 4, 5, tzinfo=dt.timezone(dt.timedelta(minutes=60)))),
           V.enc(dt.datetime(2021, 6, 1, 0, 0, 0, tzinfo=dt.timezone.utc))][: rng.randint(0, 5)]
    # boundary values of the declared ranges / allowed lists
    from async_upnp_client.const import STATE_VARIABLE_TYPE_MAPPING as M
    for v in case_vars[:6]:
        cands = []
        if v.get("range"):
            cands += [t for t in v["range"][:2] if t]
        if v.get("allowed"):
            cands += v["allowed"][:2]
        for t in cands[:3]:
            try:
                val = M[v["type"]]["in"](t)
            except Exception:  # noqa: BLE001
                continue
            j = V.enc(val)
            if j["t"] != "other" and not (j["t"] in ("time", "datetime") and j["v"][-1] == "frac"):
                ps.append(j)
                if j["t"] == "int":
                    ps += [V.enc(val - 1), V.enc(val + 1)]
    out, seen = [], set()
    for p in ps:
        k = json.dumps(p, sort_keys=True)
        if k not in seen:
            seen.add(k)
            out.append(p)
    return out[:14]


class Gen:
    def __init__(self, rng):
        self.rng = rng
        self.n = 0

    def ident(self, stem):
        self.n += 1
        return f"{stem}{self.n}"

    def opt(self, f, p=0.5):
        return f() if self.rng.random() < p else None

    def text(self):
        return self.rng.choice(TEXTS)

    def url(self, stem):
        r = self.rng
        if r.random() < 0.25:
            return r.choice(ABS_URLS) % stem
        return r.choice(REL_URLS) % stem

    def sv(self, type_name, malformed=False):
        r = self.rng
        kind = PYTYPE[type_name]
        tz = type_name.endswith(".tz")
        v = {"name": self.ident("Var"), "type": type_name, "attr": r.random() < 0.6, "evented": r.random() < 0.5,
             "default": None, "range": None, "allowed": None}
        if r.random() < 0.45:
            v["default"] = valid_text(r, type_name)
        if r.random() < 0.4 and not tz and kind in ("int", "float", "str", "date", "datetime", "time"):
            if kind == "int":
                lo, hi = sorted(r.sample([-10, 0, 1, 5, 100, 65535], 2))
                mn, mx = str(lo), str(hi)
                if r.random() < 0.25:
                    # bounds that are present but falsy as Python values
                    mn, mx = r.choice([("0", "0"), ("0", None), (None, "0"), ("-0", "0"), ("00", "0")])
            elif kind == "float":
                mn, mx = r.choice([("0", "10.5"), ("-1.5", "2.5e3"), ("0.0", "100")])
            elif kind == "str":
                mn, mx = "a", "m"
            else:
                a, b = sorted(r.sample(VALID_TEXT[text_kind(type_name)], 2))
                mn, mx = a, b
            v["range"] = [mn if mn is not None and r.random() < 0.9 else None, mx if mx is not None and r.random() < 0.9 else None,
                          self.opt(lambda: "1", 0.5)]
        elif r.random() < 0.35 and not tz:
            k = r.randint(1, 4)
            v["allowed"] = [valid_text(r, type_name) for _ in range(k)]
        if malformed:
            m = r.randrange(7)
            if tz and m in (1, 2):       # ranges / allowed lists on aware times: outside C08's modelled ordering
                m = 0
            if m == 0:
                v["default"] = r.choice(BAD_TEXT)
            elif m == 1:
                v["range"] = [r.choice(BAD_TEXT), valid_text(r, type_name), None]
            elif m == 2:
                v["allowed"] = [valid_text(r, type_name), r.choice(BAD_TEXT)]
            elif m == 3:
                v["type"] = r.choice(["ui3", "String", "", "bin.base32"])
            elif m == 4:
                v["name"] = r.choice(["", " spaced name ", "Dup"])
            elif m == 5:
                v["allowed"] = []
            else:
                v["range"] = [None, None, None]
        return v

    def service(self, stem, n_vars, n_actions, types=None, malformed=False):
        r = self.rng
        types = types or [r.choice(ALL_TYPES) for _ in range(n_vars)]
        vs = [self.sv(t, malformed and r.random() < 0.3) for t in types]
        names = [v["name"] for v in vs]
        actions = []
        for _ in range(n_actions):
            args = []
            for _ in range(r.randint(0, 3) if names else 0):
                args.append({"name": self.ident("Arg"), "in": r.random() < 0.6, "retval": r.random() < 0.15, "rsv": r.choice(names)})
            actions.append({"name": self.ident("Act"), "args": args})
        sid = self.ident("S")
        s = {"type": f"urn:schemas-upnp-org:service:{stem}{sid}:{r.randint(1, 3)}", "id": f"urn:upnp-org:serviceId:{sid}",
             "scpd": self.url(sid + "scpd"), "control": self.url(sid + "ctl"), "event": self.url(sid + "evt"),
             "vars": vs, "actions": actions, "corrupt": "none"}
        if malformed:
            m = r.randrange(6)
            if m == 0 and actions and actions[0]["args"]:
                actions[0]["args"][0]["rsv"] = "Missing"
            elif m == 1 and len(vs) > 1:
                vs[1]["name"] = vs[0]["name"]
            elif m == 2 and len(actions) > 1:
                actions[1]["name"] = actions[0]["name"]
            elif m == 3:
                s["control"] = "http:relative"
        return s

    def device(self, depth, budget, malformed=False):
        r = self.rng
        did = self.ident("D")
        h = {"type": f"urn:schemas-upnp-org:device:{did}:1", "friendly": self.text(), "manufacturer": self.text(),
             "manufacturer_url": self.opt(lambda: self.url("m")), "model_desc": self.opt(self.text),
             "model_name": self.text(), "model_number": self.opt(self.text), "model_url": self.opt(lambda: self.url("mo")),
             "serial": self.opt(self.text), "udn": f"uuid:{did}-0000", "upc": self.opt(lambda: "123456789012"),
             "presentation": self.opt(lambda: self.url("p"))}
        icons = [{"mime": r.choice(["image/png", "image/jpeg", ""]), "w": r.choice([0, 16, 48, 120]), "h": r.choice([16, 48, 120]),
                  "d": r.choice([8, 24, 32]), "url": self.url(self.ident("icon"))} for _ in range(r.choice([0, 0, 1, 2]))]
        n_svc = min(budget[0], r.randint(0, 4))
        budget[0] -= n_svc
        svcs = [self.service("Svc", r.randint(0, 5), r.randint(0, 3), malformed=malformed and r.random() < 0.5) for _ in range(n_svc)]
        subs = []
        if depth > 0:
            for _ in range(r.choice([0, 1, 1, 2, 3]) if depth else 0):
                if budget[1] <= 0:
                    break
                budget[1] -= 1
                subs.append(self.device(depth - 1, budget, malformed))
        return {"h": h, "icons": icons, "svcs": svcs, "subs": subs}


def rand_render(rng, ship=False):
    style = {"prefix": rng.random() < 0.3, "pretty": rng.random() < 0.5, "cdata": rng.random() < 0.3, "decl": rng.random() < 0.6,
             "comments": rng.random() < 0.2, "selfclose": rng.random() < 0.7,
             "decl_enc": rng.choice(["utf-8", "utf-8", "UTF-8", "ISO-8859-1", "windows-1252", "us-ascii"]),
             "trail": rng.choice(["", "", "\n", "\0", "\r\n \0\0", " \t"])}
    return {"perm": rng.choice([0, 0, 1, 2, 3, 5]), "pad": rng.random() < 0.3, "spec": rng.random() < 0.7, "empty": rng.random() < 0.4,
            "style": style, "ship": ship}


def share_scpd(rng, d):
    """Two services (of different types) described by one SCPD document at one URL - common on real gateways
    (WANIPConnection / WANPPPConnection).  Each service must still get its own actions and state variables."""
    svcs = all_services(d)
    if len(svcs) < 2:
        return
    a, b = rng.sample(range(len(svcs)), 2)
    src, dst = svcs[a], svcs[b]
    for k in ("scpd", "vars", "actions", "corrupt"):
        dst[k] = copy.deepcopy(src[k])


def mk_case(rng, d, strict, render, base=None):
    if rng.random() < 0.3:
        share_scpd(rng, d)
    twin = rng.choice([None, None, None, None, "before", "concurrent", "concurrent2"])
    vars_ = [v for s in all_services(d) for v in s["vars"]]
    rng.shuffle(vars_)
    case = {"kind": "def", "strict": strict, "base": base or rng.choice(BASES), "probes": probes_for(rng, vars_),
            "def": d, "render": render}
    if twin:
        case["twin"] = twin
    lat = rng.choice([None, None, None, "reversed", "mixed"])
    if lat:
        case["latency"] = lat
    return case


# ---- raw (malformed) documents: tree-level mutations of a rendered definition
def mutate_tree(rng, t):
    """returns a mutated copy of the tuple tree"""
    nodes = []

    def walk(path, el):
        nodes.append(path)
        for i, c in enumerate(el[4]):
            walk(path + [i], c)
    walk([], t)
    t = copy.deepcopy(t)

    def get(path):
        el = t
        for i in path:
            el = el[4][i]
        return el

    def setel(path, new):
        nonlocal t
        if not path:
            t = new
            return
        parent = get(path[:-1])
        parent[4][path[-1]] = new
    path = rng.choice(nodes)
    el = get(path)
    m = rng.randrange(8)
    if m == 0 and path:                                   # delete
        del get(path[:-1])[4][path[-1]]
    elif m == 1 and path:                                 # duplicate
        get(path[:-1])[4].insert(path[-1], copy.deepcopy(el))
    elif m == 2:                                          # change text
        setel(path, (el[0], el[1], el[2], rng.choice(["", None, "abc", " 5 ", "yes", "no", "string", "ui4", "7", "in", "out"]), el[4]))
    elif m == 3:                                          # rename
        setel(path, (el[0], rng.choice(["name", "x" + el[1], "dataType", "device", "service"]), el[2], el[3], el[4]))
    elif m == 4:                                          # foreign namespace for this element only
        setel(path, (rng.choice(["", NS_FOREIGN, NS_DEVICE, NS_SERVICE]), el[1], el[2], el[3], el[4]))
    elif m == 5:                                          # attribute games
        setel(path, (el[0], el[1], rng.choice([[], [("sendEvents", "maybe")], [("sendEvents", "yes")], [("sendEvents", "no"), ("multicast", "yes")],
                                                [("{%s}sendEvents" % NS_SERVICE, "yes")]]), el[3], el[4]))
    elif m == 6 and el[4]:                                # drop all children
        setel(path, (el[0], el[1], el[2], el[3], []))
    else:                                                 # move the element to the front of its parent
        if path:
            par = get(path[:-1])
            x = par[4].pop(path[-1])
            par[4].insert(0, x)
    return t


def raw_case(rng, gen):
    d = gen.device(rng.choice([0, 0, 1]), [2, 1], malformed=False)
    if not all_services(d):
        d["svcs"].append(gen.service("Svc", 2, 1))
    render = rand_render(rng)
    base = rng.choice(BASES)
    r = Renderer(render)
    style = dict(render["style"], cdata=False)
    desc_t = r.root_tree(d)
    docs = []
    for s in all_services(d):
        docs.append([urljoin(base, s["scpd"]), r.scpd_tree(s)])
    which = rng.randrange(len(docs) + 1)
    for _ in range(rng.randint(1, 2)):
        if which == 0:
            desc_t = mutate_tree(rng, desc_t)
        else:
            docs[which - 1][1] = mutate_tree(rng, docs[which - 1][1])
    desc = {"status": 200, "body": serialise(desc_t, style)}
    scpds = [[u, {"status": 200, "body": serialise(t, style)}] for u, t in docs]
    x = rng.random()
    if x < 0.08:
        desc["status"] = rng.choice([404, 500, 301])
    elif x < 0.16 and scpds:
        scpds[rng.randrange(len(scpds))][1]["status"] = rng.choice([404, 500])
    elif x < 0.24 and scpds:
        scpds[rng.randrange(len(scpds))][1]["body"] = rng.choice(["", "garbage", "<scpd>", "<a></b>", "\0\0"])
    elif x < 0.28:
        desc["body"] = rng.choice(["", "<root>", "nope"])
    elif x < 0.32 and scpds:
        del scpds[rng.randrange(len(scpds))]
    vars_ = [v for s in all_services(d) for v in s["vars"]]
    return {"kind": "raw", "strict": rng.random() < 0.6, "base": base, "probes": probes_for(rng, vars_), "desc": desc, "scpds": scpds}


def type_sweep(rng):
    """every data type x {plain, default, range, allowed list} x notation x mode, one service each (deterministic)"""
    out = []
    gen = Gen(rng)
    i = 0
    for tn in ALL_TYPES:
        for feat in ("plain", "default", "range", "allowed"):
            tz = tn.endswith(".tz")
            if feat in ("range", "allowed") and tz:
                continue
            if feat == "range" and PYTYPE[tn] == "bool":
                continue
            v = {"name": "V" + str(i), "type": tn, "attr": i % 2 == 0, "evented": i % 3 == 0, "default": None, "range": None, "allowed": None}
            texts = VALID_TEXT[text_kind(tn)]
            if feat == "default":
                v["default"] = texts[i % len(texts)]
            elif feat == "range":
                a, b = (texts[0], texts[1])
                if PYTYPE[tn] == "int":
                    a, b = "0", "100"
                elif PYTYPE[tn] == "float":
                    a, b = "0.5", "10"
                elif PYTYPE[tn] == "str":
                    a, b = "a", "m"
                else:
                    a, b = sorted([texts[0], texts[1]])
                v["range"] = [a, b, "1" if i % 2 else None]
            elif feat == "allowed":
                v["allowed"] = texts[:3]
            s = {"type": "urn:schemas-upnp-org:service:T:1", "id": "urn:upnp-org:serviceId:T", "scpd": "/t.xml", "control": "/c",
                 "event": "http://h/e", "vars": [v],
                 "actions": [{"name": "Get", "args": [{"name": "x", "in": False, "retval": True, "rsv": v["name"]}]}], "corrupt": "none"}
            d = gen.device(0, [0, 0])
            d["svcs"] = [s]
            render = {"perm": i % 4, "pad": i % 5 == 0, "spec": True, "empty": False, "style": {"decl": True, "pretty": i % 2 == 0}, "ship": False}
            out.append(mk_case(rng, d, strict=(i % 3 != 0), render=render, base="http://h/d.xml"))
            i += 1
    return out


def corruption_sweep(rng, full):
    """a fixed tree (root with two services, one embedded device with one service) under every assignment of the six
    document states to its three service documents, in both modes (full), or every single corruption (quick)"""
    import itertools
    gen = Gen(rng)
    kinds = list(CORRUPT)

    def tree(assign):
        root = gen.device(0, [0, 0])
        sub = gen.device(0, [0, 0])
        root["icons"], sub["icons"] = [], []
        svcs = []
        for i, c in enumerate(assign):
            v = {"name": f"V{i}", "type": ["ui2", "string", "boolean"][i], "attr": i != 1, "evented": i == 0, "default": None,
                 "range": ["0", "9", None] if i == 0 else None, "allowed": ["a", "b"] if i == 1 else None}
            svcs.append({"type": f"urn:schemas-upnp-org:service:C{i}:1", "id": f"urn:upnp-org:serviceId:C{i}", "scpd": f"/c{i}.xml",
                         "control": f"ctl{i}", "event": f"http://h/e{i}", "vars": [v],
                         "actions": [{"name": "Get", "args": [{"name": "x", "in": False, "retval": False, "rsv": f"V{i}"}]},
                                     {"name": "Ping", "args": []}], "corrupt": c})
        root["svcs"], sub["svcs"] = svcs[:2], svcs[2:]
        root["subs"] = [sub]
        return root
    assigns = list(itertools.product(kinds, repeat=3)) if full else \
        [tuple(c if j == i else "none" for j in range(3)) for i in range(3) for c in kinds[1:]]
    out = []
    for a in assigns:
        for strict in (True, False):
            render = {"perm": len(out) % 4, "pad": False, "spec": True, "empty": False, "style": {"pretty": len(out) % 2 == 0}, "ship": False}
            out.append(mk_case(rng, tree(a), strict, render, base="http://h/d.xml"))
    return out


class Plugin:
    ID = "C05"
    RUN_MODULE = "C05.Run"
    GEN = ["Types", "DateMatchers"]
    DEPENDS = ["C08"]
    CLAUSES = {1: "mirrors", 2: "strict_refuses", 3: "mirrors_collapsed"}
    SHARD = 40
    SEARCH_CASES = 600
    RULE = ("worlds = (description URL, device definition: tree depth 0..3, 0..4 services per device, state variables over all "
            "26 data types with default / range / allowed list / either sendEvents notation, actions with in/out arguments, icons, "
            "relative and absolute URLs; rendering: child order, indentation, prefix vs default namespace, CDATA vs entities, "
            "XML declaration, comments, trailing NUL/blank bytes; a corruption per service document; strict / non-strict) plus raw "
            "documents obtained by tree mutations, bad statuses and garbage; non-trivial = a device object was returned with at "
            "least one service, or a library error was raised; distinct = distinct (case, observation)")
    TRUSTED = [
        "Coq 8.16.1 kernel + vm_compute (no native_compute)",
        "tools/gen/types.py, tools/gen/datematchers.py (const.py / utils.py -> Gen/Types.v, Gen/DateMatchers.v)",
        "oracles, recorded per case from the real libraries: expat/defusedxml (XML text -> tree; the harness ships trees, and "
        "for definitions checks its own renderer against Def.to_tree on the first cases of a run), urllib.parse.urljoin "
        "(table of the URLs of the case), float() (table of the texts of the case)",
        "C08's model of the data-type coercers, of voluptuous All/In/Range and of parse_date_time (checked by C08's own run)",
        "harness/c05.py: renderer/serialiser, scripted requester, dump of the public attribute graph, Gallina printers",
        "CPython dict-comprehension semantics (later key wins, first position stays) as Prelude/PyDict.dset",
    ]
    ASSUMPTIONS = [
        "reading: every state variable states sendEvents explicitly, in one of the two notations (absence - UDA default yes, "
        "library default no - is outside 'either sendEvents notation'; it is exercised only by the raw stream)",
        "reading: URLs are written absolute (http:// or https://, unchanged by RFC 3986 resolution) or relative (not starting "
        "with http: / https:); resolution itself is urllib's urljoin (oracle)",
        "reading: an absent optional device element is reported as None or ''",
        "reading: a degraded service (non-strict) keeps identity and URLs, has no state variables and nothing bound to one; for a "
        "foreign root element in non-strict mode the statement asks nothing about the body",
        "well-formed: state-variable and action names unique per service, arguments name existing variables, default / bounds / "
        "allowed values are non-empty spellings of values of the type; one document per SCPD URL: services whose SCPD URLs "
        "resolve to one URL have the same state variables, actions and corruption (Spec.wf_desc), no SCPD URL is the description URL",
        "allowed lists / ranges on aware date-times are outside C08's modelled ordering and are not generated",
        "texts contain no CR and no characters XML 1.0 cannot carry",
    ]
    last_exhaustive = False

    def __init__(self):
        self.pr = Printer()
        self._loop = None

    @property
    def HEADER(self):  # noqa: N802
        return self.pr.header()

    # ------------------------------------------------------------------ corpus / generation
    def corpus(self):
        out = []
        d = C.VERIF / "corpus" / "C05"
        if d.is_dir():
            for p in sorted(d.glob("*.json")):
                data = json.loads(p.read_text())
                out.append(data["case"] if "case" in data else data)
        return out

    def generate(self, rng, tier):
        n = 9000 if tier == "thorough" else 230
        cases = type_sweep(rng) + corruption_sweep(rng, tier == "thorough")
        self.last_exhaustive = tier == "thorough"
        gen = Gen(rng)
        shipped = 0
        for i in range(n):
            x = rng.random()
            if x < 0.22:
                cases.append(raw_case(rng, gen))
                continue
            depth = rng.choice([0, 0, 1, 1, 2, 3])
            malformed = 0.22 <= x < 0.34
            d = gen.device(depth, [rng.randint(1, 7), rng.randint(0, 5)], malformed=malformed)
            svcs = all_services(d)
            if 0.34 <= x < 0.42:                      # same-type siblings (known findings D32 / D33)
                devs = [v for v in all_devices(d) if len(v["subs"]) > 1]
                if devs and rng.random() < 0.5:
                    v = rng.choice(devs)
                    v["subs"][1]["h"]["type"] = v["subs"][0]["h"]["type"]
                else:
                    devs = [v for v in all_devices(d) if len(v["svcs"]) > 1]
                    if devs:
                        v = rng.choice(devs)
                        v["svcs"][1]["type"] = v["svcs"][0]["type"]
            if 0.42 <= x < 0.66 and svcs:             # corrupted service documents
                for s in rng.sample(svcs, rng.randint(1, min(3, len(svcs)))):
                    s["corrupt"] = rng.choice(["unparseable", "tag", "rootns", "ns", "notable"])
            ship = shipped < (40 if tier == "thorough" else 12) and len(svcs) <= 3
            shipped += ship
            strict = rng.random() < 0.55
            cases.append(mk_case(rng, d, strict, rand_render(rng, ship)))
        return cases

    # ------------------------------------------------------------------ implementation
    def _run(self, coro):
        if self._loop is None:
            self._loop = asyncio.new_event_loop()
        return self._loop.run_until_complete(coro)

    def run_impl(self, case):
        from async_upnp_client.client import UpnpRequester
        from async_upnp_client.client_factory import UpnpFactory
        desc, scpds = build_world(case)
        base = case["base"]
        if case["kind"] == "def" and case["render"].get("ship"):
            # the harness's renderer against the real parser (and, inside Coq, against Def.to_tree)
            r = Renderer(case["render"])
            assert trees_equal(parse_text(desc[1]), r.root_tree(case["def"])), "renderer/parser disagree (description)"
            for s in all_services(case["def"]):
                got = parse_text(scpds[urljoin(base, s["scpd"])][1])
                assert trees_equal(got, r.scpd_tree(s)), "renderer/parser disagree (scpd)"

        # a second description handled by the same factory - before, or interleaved with, the one under test: the
        # definition itself with every service document healthy, served from another host.  What the factory
        # builds for the case must not depend on it.
        twin = case.get("twin") if case["kind"] == "def" else None
        tbase, tdesc, tscpds = None, None, {}
        if twin:
            tcase = copy.deepcopy(case)
            for sv in all_services(tcase["def"]):
                sv["corrupt"] = "none"
            tbase = tcase["base"] = "http://twin.example:8088/t/desc.xml"
            tdesc, tscpds = build_world(tcase)
        docs = dict(tscpds)
        docs.update(scpds)

        seen_urls = {}

        class Requester(UpnpRequester):
            async def async_http_request(self, method, url, headers=None, body=None):  # noqa: ARG002
                assert method == "GET"
                if twin in ("concurrent", "concurrent2"):
                    await asyncio.sleep(0)
                if case.get("latency"):
                    # a transport that really suspends, and answers later requests earlier than earlier ones (the n-th
                    # distinct document waits fewer loop turns): which document a service gets must not depend on it
                    seen_urls.setdefault(url, len(seen_urls))
                    for _ in range(max(0, 6 - 2 * seen_urls[url]) if case["latency"] == "reversed" else seen_urls[url] % 3):
                        await asyncio.sleep(0)
                if url == base:
                    return desc[0], {}, desc[1]
                if url == tbase:
                    return tdesc[0], {}, tdesc[1]
                st, bd = docs.get(url, (404, ""))
                return st, {}, bd

        factory = UpnpFactory(Requester(), non_strict=not case["strict"])

        async def both():
            # either one may be started first; each runs whenever the other waits for a document
            order = [tbase, base] if twin == "concurrent" else [base, tbase]
            res = await asyncio.gather(*(factory.async_create_device(u) for u in order), return_exceptions=True)
            mine = res[order.index(base)]
            if isinstance(mine, BaseException):
                raise mine
            return mine
        try:
            if twin == "before":
                try:
                    self._run(factory.async_create_device(tbase))
                except Exception:  # noqa: BLE001
                    pass
            dev = self._run(both() if twin in ("concurrent", "concurrent2") else factory.async_create_device(base))
        except Exception as e:  # noqa: BLE001 - exceptions are observations
            return exn_obs(e)
        return {"ok": dump_device(dev, None, case["probes"])}

    # ------------------------------------------------------------------ printers
    def _oracles(self, case):
        base = case["base"]
        urls, ftexts = [""], []
        if case["kind"] == "def":
            d = case["def"]
            for dev in all_devices(d):
                urls += [i["url"] for i in dev["icons"]]
            for s in all_services(d):
                urls += [s["scpd"], s["control"], s["event"]]
                for v in s["vars"]:
                    ftexts += [t for t in [v["default"]] + (v["range"] or [])[:2] + (v["allowed"] or []) if t is not None]
        else:
            t = parse_text(case["desc"]["body"]) if case["desc"]["status"] == 200 else None
            urls += leaf_texts(t, [])
            for _, doc in case["scpds"]:
                ftexts += leaf_texts(parse_text(doc["body"]) if doc["status"] == 200 else None, [])
        seen, uj = set(), []
        for u in urls:
            if u not in seen:
                seen.add(u)
                uj.append(f"({self.pr.s(u)}, {self.pr.s(urljoin(base, u))})")
        seen, fp = set(), []
        for t in ftexts:
            if t in seen:
                continue
            seen.add(t)
            try:
                fp.append(f"({self.pr.s(t)}, Some {V.fl_coq(float(t))})")
            except ValueError:
                fp.append(f"({self.pr.s(t)}, @None fl)")
        return C.c_list(uj, "(pystr * pystr)"), C.c_list(fp, "(pystr * option fl)")

    def to_coq(self, case, obs):
        pr = self.pr
        pr.intern = {}
        uj, fp = self._oracles(case)
        if case["kind"] == "def":
            rd = case["render"]
            parsed = "None"
            if rd.get("ship"):
                desc, scpds = build_world(case)
                items = []
                for url, (_, body) in scpds.items():
                    t = parse_text(body)
                    items.append(f"({pr.s(url)}, {'(@None xml)' if t is None else '(Some ' + pr.xml(t) + ')'})")
                parsed = f"(Some ({pr.xml(parse_text(desc[1]))}, {C.c_list(items, '(pystr * option xml)')}))"
            doc = (f"(IDef {pr.device_def(case['def'])} {C.c_N(rd['perm'])} nS {C.c_bool(rd['pad'])} {C.c_bool(rd['spec'])} "
                   f"{C.c_bool(rd['empty'])} {parsed})")
        else:
            def fx(doc):
                if doc["status"] != 200:
                    return f"(XStatus {C.c_Z(doc['status'])})"
                t = parse_text(doc["body"])
                return "XParseError" if t is None else f"(XDoc {pr.xml(t)})"
            dd = case["desc"]
            if dd["status"] != 200:
                root = f"(RStatus {C.c_Z(dd['status'])})"
            else:
                t = parse_text(dd["body"])
                root = "RParseError" if t is None else f"(RDoc {pr.xml(t)})"
            # the requester answers the description URL with the description, whoever asks
            seen, items = {case["base"]}, [f"({pr.s(case['base'])}, {fx(dd)})"]
            for url, doc in case["scpds"]:
                if url not in seen:
                    seen.add(url)
                    items.append(f"({pr.s(url)}, {fx(doc)})")
            doc = f"(IRaw {root} {C.c_list(items, '(pystr * fetched_x)')})"
        inp = ("{| i_strict := %s; i_base := %s; i_probes := %s; i_urljoin := %s; i_fparse := %s; i_doc := %s |}" %
               (C.c_bool(case["strict"]), pr.s(case["base"]), C.c_list((V.val_coq(p) for p in case["probes"]), "pyval"), uj, fp, doc))
        return pr.wrap(f"({inp}, {pr.obs(obs)})")

    # ------------------------------------------------------------------ evidence helpers
    def nontrivial(self, case, obs):
        if "ok" in obs and not obs["ok"]["services"] and not obs["ok"]["embedded"]:
            return None
        if "raise" in obs and obs["raise"] in ("OtherErr",):
            return None
        return C.case_hash([case, obs])

    def describe(self, case, obs):
        if case["kind"] == "def":
            d = case["def"]
            summ = {"kind": "def", "strict": case["strict"], "base": case["base"], "devices": len(all_devices(d)),
                    "services": [[s["type"], s["corrupt"], len(s["vars"]), len(s["actions"])] for s in all_services(d)],
                    "render": case["render"]}
        else:
            summ = {"kind": "raw", "strict": case["strict"], "desc": case["desc"]["body"][:300], "scpds": [u for u, _ in case["scpds"]]}
        o = {"raise": obs["raise"]} if "raise" in obs else {"device": obs["ok"]["info"]["udn"], "services": [k for k, _ in obs["ok"]["services"]],
                                                                "embedded": [k for k, _ in obs["ok"]["embedded"]]}
        return {"case": summ, "impl_observation": o}

    def summarize(self, cases, obss):
        kinds, outcomes, types, corrupt, depth, strict = {}, {}, {}, {}, {}, {}
        n_sv = n_svc = 0

        def dep(d):
            return 0 if not d["subs"] else 1 + max(dep(x) for x in d["subs"])
        for c, o in zip(cases, obss):
            kinds[c["kind"]] = kinds.get(c["kind"], 0) + 1
            strict[str(c["strict"])] = strict.get(str(c["strict"]), 0) + 1
            k = o.get("raise", "device") if isinstance(o, dict) else "?"
            outcomes[k] = outcomes.get(k, 0) + 1
            if c["kind"] == "def":
                dp = dep(c["def"])
                depth[dp] = depth.get(dp, 0) + 1
                for s in all_services(c["def"]):
                    n_svc += 1
                    corrupt[s["corrupt"]] = corrupt.get(s["corrupt"], 0) + 1
                    for v in s["vars"]:
                        n_sv += 1
                        types[v["type"]] = types.get(v["type"], 0) + 1
        return {"cases_by_kind": kinds, "by_mode_strict": strict, "outcomes": outcomes, "tree_depth": depth, "services": n_svc,
                "service_documents_by_corruption": corrupt, "state_variables": n_sv, "state_variables_by_type": types}

    # ------------------------------------------------------------------ shrinking
    def shrink(self, case):
        if case["kind"] != "def":
            for i in range(len(case["scpds"])):
                yield {**case, "scpds": case["scpds"][:i] + case["scpds"][i + 1:]}
            return
        if case.get("twin"):
            yield {k: v for k, v in case.items() if k != "twin"}
        if case.get("latency"):
            yield {k: v for k, v in case.items() if k != "latency"}

        def variants(d):
            for i in range(len(d["subs"])):
                yield {**d, "subs": d["subs"][:i] + d["subs"][i + 1:]}
            for i in range(len(d["svcs"])):
                yield {**d, "svcs": d["svcs"][:i] + d["svcs"][i + 1:]}
            if d["icons"]:
                yield {**d, "icons": []}
            for i, s in enumerate(d["svcs"]):
                for j in range(len(s["actions"])):
                    s2 = {**s, "actions": s["actions"][:j] + s["actions"][j + 1:]}
                    yield {**d, "svcs": d["svcs"][:i] + [s2] + d["svcs"][i + 1:]}
                for j in range(len(s["vars"])):
                    nm = s["vars"][j]["name"]
                    if any(g["rsv"] == nm for a in s["actions"] for g in a["args"]):
                        continue
                    s2 = {**s, "vars": s["vars"][:j] + s["vars"][j + 1:]}
                    yield {**d, "svcs": d["svcs"][:i] + [s2] + d["svcs"][i + 1:]}
                for j, v in enumerate(s["vars"]):
                    for key in ("default", "range", "allowed"):
                        if v[key] is not None:
                            s2 = {**s, "vars": s["vars"][:j] + [{**v, key: None}] + s["vars"][j + 1:]}
                            yield {**d, "svcs": d["svcs"][:i] + [s2] + d["svcs"][i + 1:]}
            for i, sub in enumerate(d["subs"]):
                for v in variants(sub):
                    yield {**d, "subs": d["subs"][:i] + [v] + d["subs"][i + 1:]}
        for v in variants(case["def"]):
            yield {**case, "def": v}
        if case["probes"]:
            yield {**case, "probes": []}
        plain = {"perm": 0, "pad": False, "spec": False, "empty": False, "style": {}, "ship": False}
        if case["render"] != plain:
            yield {**case, "render": plain}

    def mutate_case(self, case, rng):
        out = []
        if case["kind"] == "def":
            for strict in (True, False):
                out.append({**case, "strict": strict, "render": {**case["render"], "ship": False}})
        return out
