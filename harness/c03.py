"""C03 — Known devices live exactly as long as max-age and byebye allow.  Harness."""
from __future__ import annotations

from harness import common as C
from harness import ssdp_hist as H


class Plugin:
    ID = "C03"
    HEADER = H.Tokens.HEADER
    RUN_MODULE = "C03.Run"
    GEN = ["Ssdp"]
    DEPENDS = ["C16"]
    CLAUSES = {1: "presence", 2: "purged", 3: "byebye_exact", 4: "invalid_inert", 5: "valid_to"}
    SHARD = 150
    RULE = ("histories of search responses / alive / update / byebye / invalid / M-SEARCH messages and purges, built with "
            "build_ssdp_packet and delivered as datagrams to a real SsdpListener under a scripted clock (random to depth 60; "
            "every history to a bounded depth over a small alphabet); non-trivial = at least one device created and one "
            "removed or refreshed; distinct = distinct (decoded history, observations)")
    TRUSTED = [
        "Coq 8.16.1 kernel + vm_compute",
        "tools/gen/ssdp.py (constants, regex word, validity predicates' literals from ssdp_listener.py/const.py/ssdp.py)",
        "harness/ssdp_hist.py: fake datagram endpoint/socket, scripted datetime.now in ssdp.py, observation of tracker.devices",
        "ip_version_from_location (urlparse + ipaddress) is an oracle whose answers are recorded per case",
        "CaseInsensitiveDict as modelled and proved in C16",
    ]
    ASSUMPTIONS = ["CACHE-CONTROL digits are ASCII / Arabic-Indic / fullwidth only", "the search listener has the default multicast target"]
    last_exhaustive = False

    def corpus(self):
        m = lambda via, start, hs, t: ["msg", via, start, hs, t, ["192.168.1.10", 1900]]  # noqa: E731
        s = lambda u, t, cc=None, loc=H.GOOD_LOCS[0]: m("srch", "HTTP/1.1 200 OK", ([["CACHE-CONTROL", cc]] if cc else []) +  # noqa: E731
                                                       [["ST", H.TYPES[0]], ["USN", u + "::" + H.TYPES[0]], ["LOCATION", loc]], t)
        a = lambda u, t, nts, cc=None: m("adv", "NOTIFY * HTTP/1.1", ([["CACHE-CONTROL", cc]] if cc else []) +  # noqa: E731
                                        [["NT", H.TYPES[0]], ["NTS", nts], ["USN", u + "::" + H.TYPES[0]], ["LOCATION", H.GOOD_LOCS[1]]], t)
        return [
            {"async": False, "ops": [s("uuid:dev-1", 0, "max-age=5"), s("uuid:dev-2", 3, "max-age=1"), s("uuid:dev-1", 5), ["purge", 6],
                                     a("uuid:dev-2", 6, "ssdp:alive"), a("uuid:dev-1", 7, "ssdp:byebye"), ["purge", 2000]]},
            # D4 (fixed): absurd max-age
            {"async": False, "ops": [s("uuid:dev-1", 0, "max-age=" + "9" * 20), s("uuid:dev-2", 1, "max-age=99999999999"), ["purge", 10**9]]},
            {"async": True, "ops": [s("uuid:dev-1", 0, "max-age=1"), s("uuid:dev-1", 1, "max-age=1", H.GOOD_LOCS[2]), s("uuid:dev-2", 2), s("uuid:dev-1", 3)]},
        ]

    def generate(self, rng, tier):
        cases = []
        if tier == "thorough":
            cases += list(H.exhaustive_small(2))
            ex3 = list(H.exhaustive_small(3))
            cases += rng.sample(ex3, min(len(ex3), 6000))
            self.last_exhaustive = True
            n, depth = 1500, 60
        else:
            ex2 = list(H.exhaustive_small(2))
            cases += rng.sample(ex2, 200)
            n, depth = 120, 25
        for _ in range(n):
            small = rng.random() < 0.5
            cases.append(H.gen_history(rng, rng.randint(2, depth), small=small,
                                       udns=H.UDNS[:rng.randint(1, 6)]))
        cases += [H.gen_refresh_history(rng) for _ in range(n // 6)]
        return cases

    def run_impl(self, case):
        r = H.run_history(case)
        if any(op[0] == "dropped" for op in r["ops"]):
            raise AssertionError("generator produced an undecodable datagram")
        return r

    def to_coq(self, case, obs):
        return H.to_coq(case, obs)

    def nontrivial(self, case, obs):
        sizes = [len(o["devs"]) for o in obs["obs"]]
        if not sizes or max(sizes) == 0:
            return None
        if not any(b < a for a, b in zip(sizes, sizes[1:])) and len(sizes) > 3:
            return None
        return C.case_hash([obs["ops"], obs["obs"]])

    def describe(self, case, obs):
        return {"ops": case["ops"][:6], "async_callback": case.get("async"), "observations": obs["obs"][:6]}

    def summarize(self, cases, obss):
        kinds, maxdev, lens = {}, 0, []
        for c, o in zip(cases, obss):
            lens.append(len(c["ops"]))
            for op in c["ops"]:
                k = op[0] if op[0] == "purge" else (op[1] + ":" + next((v for n, v in op[3] if n.upper() == "NTS"), "-"))
                kinds[k] = kinds.get(k, 0) + 1
            if isinstance(o, dict) and "obs" in o:
                maxdev = max([maxdev] + [len(x["devs"]) for x in o["obs"]])
        return {"ops_by_kind": kinds, "max_devices_tracked": maxdev, "history_length_min_max": [min(lens), max(lens)]}

    def shrink(self, case):
        ops = case["ops"]
        for i in range(len(ops)):
            if len(ops) > 1:
                yield {**case, "ops": ops[:i] + ops[i + 1:]}
