"""C15 - server eventing is ordered, complete and bounded by the subscription's life: harness.

Drives the REAL publisher side of async_upnp_client/server.py (UpnpServerService, EventSubscriber,
UpnpEventableStateVariable, subscribe_handler, unsubscribe_handler) on the REAL asyncio event loop in virtual time:
an asyncio.SelectorEventLoop with a non-blocking selector whose time() is a scripted clock and whose _run_once() is
called explicitly.  External actions happen only between iterations: every operation of a history is one action
(a SUBSCRIBE/UNSUBSCRIBE request built with aiohttp.test_utils.make_mocked_request and handed to the handler as a
task; an assignment to a state variable from a loop callback; the completion of an outstanding NOTIFY; a clock
advance) followed by running the loop until it is quiescent (no ready handle, no due timer).  A clock advance moves
the clock to every due timer in turn, as a sleeping loop does.  A LATE assignment (["late", dt, var, value]) is the one
schedule in which an action meets overdue timers: the clock moves on by dt while the loop does NOT run (a blocking
stretch), the assignment is queued with call_soon and only then the loop runs - _run_once() appends the timers that
became due BEHIND the already-ready assignment, so the setter sees a pending deferred event whose deadline has passed
and the timer fires right after it in the same iteration (one quiescence run).  datetime.now() in server.py / client.py is the same
scripted clock seen as wall time (base 2023-11-14T22:13:20Z, while loop time starts at 1000 s - the two clocks
differ as they do in reality).  The requester is a scripted fake: every NOTIFY is recorded (virtual time, URL, SID,
SEQ, parsed body) and suspends on a future that the history completes in any order.

case    = {"cfg": [[evented, rate_ms, default|None, max|None], ...], "ops": [op, ...]}
op      = ["sub", cb|None, tmo, sidref] | ["unsub", sidref] | ["set", var, value] | ["adv", dt_ms]
        | ["late", dt_ms, var, value] | ["deliver", k, outcome] | ["jump", sid_index, key]
tmo     = ["abs"] | ["sec", n, style] | ["raw", text]          sidref = ["abs"] | ["empty"] | ["idx", n] | ["bogus"]
obs     = {"init": [run...], "steps": [[res, [run...]], ...]}   run = [t_ms, [var...], [[cb, sid, seq, [[var, value|None]...]]...]]
res     = ["none"] | ["resp", status, sid|None, granted|None, first] | ["raised", cls] | ["set", code] | ["deliv", sid, seq] | ["jump"]
obs["late"] (evidence only, not part of the comparison) = for every late assignment the situation it met:
          "overdue-same" (a deferred event of the SAME variable was pending past its deadline), "overdue-other" (only
          other variables' timers were overdue), "pending" (a deferred event pending, not yet due), "idle"
Mirrors coq/theories/C15/Model.v 1:1.
"""
from __future__ import annotations

import asyncio
import itertools
import json
import re
import selectors
import threading
import warnings
import xml.etree.ElementTree as ET
from asyncio import events as _aio_events
from datetime import datetime as _real_datetime
from datetime import timedelta

from harness import common as C

BASE_WALL = _real_datetime(2023, 11, 14, 22, 13, 20)        # its UTC timestamp is exactly 1_700_000_000
LOOP_T0 = 1000.0
SENT_N = 10 ** 15            # sentinel for an unparsable number
SENT_VAR = 4999
SENT_CB = 9999
EVENT_NS = "{urn:schemas-upnp-org:event-1-0}"
MAX_KEY = 0xFFFF_FFFF


class _Clock:
    ms = 0


class _FakeDateTime(_real_datetime):
    """datetime whose now() is the scripted clock"""

    @classmethod
    def now(cls, tz=None):
        d = BASE_WALL + timedelta(milliseconds=_Clock.ms)
        return cls(d.year, d.month, d.day, d.hour, d.minute, d.second, d.microsecond, tzinfo=tz)


class _NBSelector(selectors.DefaultSelector):
    def select(self, timeout=None):
        return super().select(0)


class VLoop(asyncio.SelectorEventLoop):
    """The real selector event loop; never blocks; time() is the scripted clock; iterate() = one _run_once()."""

    def __init__(self):
        super().__init__(_NBSelector())
        self._clock_resolution = 1e-4
        self.set_exception_handler(lambda loop, ctx: None)

    def time(self):
        return LOOP_T0 + _Clock.ms / 1000.0

    def iterate(self):
        _aio_events._set_running_loop(self)
        self._thread_id = threading.get_ident()
        try:
            self._run_once()
        finally:
            self._thread_id = None
            _aio_events._set_running_loop(None)

    def due_ms(self):
        """virtual times (ms) at which the pending timers are due"""
        return [round((h._when - LOOP_T0) * 1000) for h in self._scheduled if not h._cancelled]

    def quiesce(self):
        n = 0
        while self._ready or any(w <= _Clock.ms for w in self.due_ms()):
            self.iterate()
            n += 1
            if n > 400:
                raise RuntimeError("loop does not become quiescent")


class _Writer:
    """payload writer of the mocked request: records the response head when it is written"""

    def __init__(self, world, tag):
        self.world, self.tag = world, tag
        self.buffer_size = 0
        self.output_size = 0
        self.length = None
        self.transport = None

    async def write_headers(self, status_line, headers):
        m = re.match(r"HTTP/\d\.\d (\d+)", status_line)
        self.world.on_response(self.tag, int(m.group(1)) if m else 0, dict(headers))

    async def write(self, chunk, **kw):
        return None

    async def write_eof(self, chunk=b""):
        return None

    async def drain(self):
        return None

    def enable_compression(self, *a, **kw):
        return None

    def enable_chunking(self):
        return None


class World:
    """one service object, its loop, its scripted subscribers"""

    def __init__(self, cfg):
        import async_upnp_client.client as client_mod
        import async_upnp_client.server as server_mod
        from async_upnp_client.client import UpnpRequester
        from async_upnp_client.const import ServiceInfo

        self.S = server_mod
        server_mod.datetime = _FakeDateTime
        client_mod.datetime = _FakeDateTime
        _Clock.ms = 0
        self.loop = VLoop()
        self.cfg = cfg
        self.sids = []             # SID strings in order of first appearance in a response
        self.outstanding = []      # [sid_index, seq, future] in issue order
        self.notes = []            # NOTIFYs of the current quiescence run
        self.resp = {}             # request tag -> (status, headers, first)
        self.cur_tag = None
        self.step_notes = 0        # NOTIFYs issued in the current step
        self.late_info = []        # situation met by every late assignment (evidence only)
        world = self

        class Requester(UpnpRequester):
            async def async_http_request(self, method, url, headers=None, body=None):
                fut = world.loop.create_future()
                world.on_notify(method, url, dict(headers or {}), body, fut)
                return await fut

        defs = {}
        for i, (ev, rate, dflt, mx) in enumerate(cfg):
            kw = {}
            if dflt is not None:
                kw["default"] = str(dflt)
            if mx is not None:
                kw["allowed_range"] = {"min": "0", "max": str(mx)}
            if ev:
                if rate:
                    kw["max_rate"] = rate / 1000.0
                defs[f"V{i}"] = server_mod.create_event_var("ui4", **kw)
            else:
                defs[f"V{i}"] = server_mod.create_state_var("ui4", **kw)

        class Service(server_mod.UpnpServerService):
            SERVICE_DEFINITION = ServiceInfo(
                service_id="urn:upnp-org:serviceId:T", service_type="urn:schemas-upnp-org:service:T:1",
                control_url="/c", event_sub_url="/e", scpd_url="/s.xml", xml=ET.Element("service"))
            STATE_VARIABLE_DEFINITIONS = defs

        holder = {}
        self.loop.call_soon(lambda: holder.setdefault("svc", Service(Requester())))
        self.loop.quiesce()
        self.svc = holder["svc"]
        self.init_runs = self.collect_run()

    # -------------------------------------------------------------- observers
    def sid_index(self, sid, register):
        if sid in self.sids:
            return self.sids.index(sid)
        if register:
            self.sids.append(sid)
            return len(self.sids) - 1
        return SENT_CB

    def on_response(self, tag, status, headers):
        if tag in self.resp:
            return
        self.resp[tag] = (status, headers, self.step_notes == 0)
        if status == 200 and headers.get("SID") is not None:
            self.sid_index(headers["SID"], True)

    def on_notify(self, method, url, headers, body, fut):
        m = re.fullmatch(r"http://10\.0\.0\.(\d+)/cb", url or "")
        cb = int(m.group(1)) if m and method == "NOTIFY" else SENT_CB
        sid = self.sid_index(headers.get("SID"), False)
        seq_text = headers.get("SEQ", "")
        seq = int(seq_text) if re.fullmatch(r"\d+", seq_text) else SENT_N
        vals = []
        try:
            root = ET.fromstring(body)
            ok = (root.tag == EVENT_NS + "propertyset" and headers.get("NT") == "upnp:event"
                  and headers.get("NTS") == "upnp:propchange")
            for prop in root:
                for el in prop:
                    m2 = re.fullmatch(r"V(\d+)", el.tag)
                    idx = int(m2.group(1)) if (m2 and prop.tag == EVENT_NS + "property" and ok) else SENT_VAR
                    text = el.text or ""
                    val = None if text == "None" else (int(text) if re.fullmatch(r"\d+", text) else SENT_N)
                    vals.append([idx, val])
        except ET.ParseError:
            vals = [[SENT_VAR, SENT_N]]
        vals.sort(key=lambda p: p[0])
        self.notes.append([cb, sid, seq, vals])
        self.outstanding.append([sid, seq, fut])
        self.step_notes += 1

    def collect_run(self):
        trig = []
        for i, (ev, *_rest) in enumerate(self.cfg):
            var = self.svc.state_variables[f"V{i}"]
            if isinstance(var, self.S.UpnpEventableStateVariable) and var.event_triggered.is_set():
                var.event_triggered.clear()
                trig.append(i)
        notes = sorted(self.notes, key=lambda n: n[1])      # stable: one subscriber's events keep their order
        self.notes = []
        if not trig and not notes:
            return []
        return [[_Clock.ms, trig, notes]]

    # -------------------------------------------------------------- actions
    def _headers(self, cb, tmo, sidref):
        h = {}
        if cb is not None:
            h["CALLBACK"] = f"<http://10.0.0.{cb}/cb>"
        if tmo[0] == "sec":
            word = "".join(ch.upper() if (tmo[2] >> i) & 1 else ch for i, ch in enumerate("second-"))
            h["TIMEOUT"] = f"{word}{tmo[1]}"
        elif tmo[0] == "raw":
            h["TIMEOUT"] = tmo[1]
        if sidref[0] == "empty":
            h["SID"] = ""
        elif sidref[0] == "idx":
            h["SID"] = self.sids[sidref[1]] if sidref[1] < len(self.sids) else f"uuid:never-issued-{sidref[1]}"
        elif sidref[0] == "bogus":
            h["SID"] = "uuid:00000000-bogus"
        return h

    def request(self, handler, method, headers):
        from aiohttp import web
        from aiohttp.test_utils import make_mocked_request

        tag = object()
        req = make_mocked_request(method, "/e", headers=headers, writer=_Writer(self, tag), loop=self.loop)
        task = self.loop.create_task(handler(self.svc, req))
        self.loop.quiesce()
        runs = self.collect_run()
        if tag not in self.resp and task.done() and not task.cancelled():
            exc = task.exception()
            if exc is None:
                r = task.result()
                self.on_response(tag, r.status, dict(r.headers))
            elif isinstance(exc, web.HTTPException):
                self.on_response(tag, exc.status, dict(exc.headers))
            else:
                return ["raised", type(exc).__name__], runs
        if tag not in self.resp:
            return ["none"], runs
        status, hdrs, first = self.resp[tag]
        sid = hdrs.get("SID")
        sid_i = None if sid is None else self.sid_index(sid, status == 200)
        g = hdrs.get("TIMEOUT")
        granted = None if g is None else (int(g) if re.fullmatch(r"-?\d+", g) else -SENT_N)
        return ["resp", status, sid_i, granted, first], runs

    def do(self, op):
        self.step_notes = 0
        S = self.S
        kind = op[0]
        if kind == "sub":
            return self.request(S.subscribe_handler, "SUBSCRIBE", self._headers(op[1], op[2], op[3]))
        if kind == "unsub":
            return self.request(S.unsubscribe_handler, "UNSUBSCRIBE", self._headers(None, ["abs"], op[1]))
        if kind == "set":
            var = self.svc.state_variables.get(f"V{op[1]}")
            if var is None:
                return ["none"], []
            out = {}

            def assign():
                from async_upnp_client.exceptions import UpnpValueError
                try:
                    var.value = op[2]
                    out["code"] = 1
                except UpnpValueError:
                    out["code"] = 2

            self.loop.call_soon(assign)
            self.loop.quiesce()
            return ["set", out["code"]], self.collect_run()
        if kind == "late":
            var = self.svc.state_variables.get(f"V{op[2]}")
            _Clock.ms += op[1]                 # the clock moves on; the loop does not run meanwhile
            overdue = [w for w in self.loop.due_ms() if w <= _Clock.ms]
            own = getattr(var, "_defered_event", None)
            if own is not None and not own._cancelled and round((own._when - LOOP_T0) * 1000) <= _Clock.ms:
                self.late_info.append("overdue-same")
            elif overdue:
                self.late_info.append("overdue-other")
            else:
                self.late_info.append("pending" if own is not None else "idle")
            if var is None:
                self.loop.quiesce()
                return ["none"], self.collect_run()
            out = {}

            def assign_late():
                from async_upnp_client.exceptions import UpnpValueError
                try:
                    var.value = op[3]
                    out["code"] = 1
                except UpnpValueError:
                    out["code"] = 2

            self.loop.call_soon(assign_late)   # already in the ready queue when the iteration starts:
            self.loop.quiesce()                # _run_once() puts the due timers behind it
            return ["set", out["code"]], self.collect_run()
        if kind == "adv":
            target = _Clock.ms + op[1]
            runs = []
            while True:
                due = [w for w in self.loop.due_ms() if w <= target]
                if not due:
                    break
                _Clock.ms = max(_Clock.ms, min(due))
                self.loop.quiesce()
                runs += self.collect_run()
            _Clock.ms = target
            self.loop.quiesce()
            runs += self.collect_run()
            return ["none"], runs
        if kind == "deliver":
            order = sorted(range(len(self.outstanding)), key=lambda j: self.outstanding[j][0])
            if op[1] >= len(order):
                return ["none"], []
            sid, seq, fut = self.outstanding.pop(order[op[1]])
            if op[2] == 0:
                from async_upnp_client.exceptions import UpnpConnectionError
                fut.set_exception(UpnpConnectionError("scripted transport error"))
            else:
                fut.set_result((op[2], {}, ""))
            self.loop.quiesce()
            return ["deliv", sid, seq], self.collect_run()
        if kind == "jump":
            sub = self.svc.get_subscriber(self.sids[op[1]]) if op[1] < len(self.sids) else None
            if sub is None:
                return ["none"], []
            sub._event_key = op[2]            # instrumentation: reach the wrap without 2^32 events
            return ["jump"], []
        raise AssertionError(op)

    def close(self):
        for h in list(self.loop._scheduled):
            h.cancel()
        for t in asyncio.all_tasks(self.loop):
            t.cancel()
        for _ in range(20):
            if not self.loop._ready:
                break
            self.loop.iterate()
        for _, _, fut in self.outstanding:
            if not fut.done():
                fut.cancel()
        self.loop.close()


# ------------------------------------------------------------------------------------------------ plugin
MALFORMED = ["infinite", "Second-infinite", "Second-", "", "second-1.5", "Second-abc", "Second-5s", "Second-0x10",
             "-", "Second- ", "1e3", "Second-5_", "Second-_5"]
LENIENT = ["1800", " Second-5 ", "Second--5", "Second-0", "Second-Second-7", "Second-1_0", "Second-+9",
           "sEcOnD-0012", "Second-999999999999999999", "Second--999999999999999", "\tsecond-3\n", "Second-3000000000"]
ADV = [0, 50, 100, 150, 199, 200, 201, 500, 1000, 1999, 2000, 2001, 5000, 29000, 31000, 3600000]
VALS = [0, 1, 2, 3, 5, 7]


def _late_dt(rng, rate):
    """a delay around the moderation interval (so that a pending deferred event is overdue, just due or not yet due)"""
    if rate and rng.random() < 0.8:
        return max(0, rng.choice([rate - 150, rate - 50, rate - 1, rate, rate, rate + 1, rate + 50, rate + 300, 2 * rate,
                                  3 * rate]))
    return rng.choice(ADV[:-3])


class Plugin:
    ID = "C15"
    RUN_MODULE = "C15.Run"
    GEN = ["Eventing"]
    DEPENDS = []
    HEADER = "Local Open Scope Z_scope."
    CLAUSES = {1: "initial_event", 2: "keys_consecutive", 3: "fresh", 4: "moderation", 5: "renew_extends",
               6: "dead_silent", 7: "unknown_refused", 8: "shape", 9: "eventual"}
    SHARD = 60
    SEARCH_CASES = 3000
    RULE = ("histories of SUBSCRIBE / renewal / UNSUBSCRIBE (known, unknown, expired SIDs) / variable assignments (same, "
            "new, out-of-range value) / clock advances / late assignments (the clock moved on while the loop did not run; "
            "the assignment is processed before the timers that became due) / NOTIFY completions (any order, success or transport error) / key "
            "jumps to the wrap, over 1-4 variables (evented with moderation 0 / 0.2 s / 2 s, or not evented; with and "
            "without default and range) and any number of subscribers; every history up to a fixed depth over a small "
            "alphabet (thorough) plus random histories; non-trivial = at least one NOTIFY beyond an initial event or a "
            "refused/expired/deferred situation; distinct = distinct (history, observations)")
    TRUSTED = [
        "Coq 8.16.1 kernel + vm_compute (no native_compute)",
        "harness/c15.py: VLoop (asyncio.SelectorEventLoop, non-blocking selector, scripted time(), _run_once() called "
        "explicitly, external actions only between iterations, run to quiescence after each), the scripted datetime.now "
        "patched into server.py/client.py, the scripted requester, aiohttp.test_utils.make_mocked_request with a recording "
        "payload writer, the NOTIFY body parser (ElementTree) and the Gallina printers",
        "tools/gen/eventing.py: DEFAULT_TIMEOUT and the three constants of get_next_seq read from server.py with ast",
        "CPython 3.12 asyncio semantics at quiescence granularity as written in C15/Model.v (create_task runs on the next "
        "iteration, call_later fires once loop time reaches it, gather; for a late assignment: _run_once() appends the due "
        "timers behind the handles that are already ready) - tied by the correspondence on every run",
        "Python int(str) on ASCII input, str.lower on ASCII, str.replace, datetime/timedelta range (OverflowError) as in Model.v",
        "voluptuous Range validation of ui4 values; ElementTree rendering of the event body",
    ]
    ASSUMPTIONS = [
        "single-threaded use; the loop runs to quiescence between two external actions (two assignments made inside one "
        "loop callback, before trigger_event ran, are outside the quantifier: both are evented immediately)",
        "variables are ui4; values are rendered with str()",
        "subscribers are identified with the NOTIFY requests issued to their callback URL: an event counts as sent when "
        "the request is issued (GENA has no retransmission)",
    ]
    last_exhaustive = False

    # ------------------------------------------------------------------ corpus
    def corpus(self):
        out = []
        d = C.VERIF / "corpus" / "C15"
        for p in sorted(d.glob("*.json")):
            data = json.loads(p.read_text())
            out.append(data["case"] if "case" in data else data)
        return out

    # ------------------------------------------------------------------ generation
    def _rand_cfg(self, rng):
        n = rng.choice([1, 1, 2, 2, 3, 4])
        cfg = []
        for _ in range(n):
            ev = rng.random() < 0.85
            rate = rng.choice([0, 0, 200, 200, 2000]) if ev else 0
            mx = rng.choice([None, None, None, 10, 100])
            dflt = rng.choice([None, None, 0, 5])
            cfg.append([ev, rate, dflt, mx])
        if not any(c[0] for c in cfg):
            cfg[0][0] = True
        return cfg

    def _rand_tmo(self, rng):
        k = rng.random()
        if k < 0.25:
            return ["abs"]
        if k < 0.80:
            return ["sec", rng.choice([1, 1, 2, 5, 30, 30, 1800, 3600, 1000000000]), rng.randrange(128)]
        if k < 0.92:
            return ["raw", rng.choice(MALFORMED)]
        return ["raw", rng.choice(LENIENT)]

    def _rand_sid(self, rng, nsub):
        k = rng.random()
        if k < 0.78 and nsub:
            return ["idx", rng.randrange(nsub)]
        if k < 0.86:
            return ["idx", nsub + rng.randrange(2)]
        if k < 0.94:
            return ["bogus"]
        if k < 0.97:
            return ["abs"]
        return ["empty"]

    def _random_case(self, rng, maxlen):
        cfg = self._rand_cfg(rng)
        nv = len(cfg)
        ops = []
        nsub = 0
        n = rng.randint(3, maxlen)
        maxsub = rng.choice([1, 2, 3, 3])
        moderated = [j for j, d in enumerate(cfg) if d[0] and d[1] > 0]
        p_late = rng.choice([0.0, 0.15, 0.3, 0.5]) if moderated else 0.04
        for _ in range(n):
            k = rng.random()
            if moderated and nsub and k > 0.97:
                # the situation itself: a change is sent, a second one is held back, a third arrives past the deadline
                # before the loop ran the timer (on the same variable, or on another one)
                i = rng.choice(moderated)
                j = i if rng.random() < 0.75 else rng.randrange(nv)
                a, b, cc = rng.sample(VALS, 3)
                ops.append(["adv", cfg[i][1] + rng.choice([0, 1, 500])])
                ops.append(["set", i, a])
                if rng.random() < 0.5:
                    ops.append(["adv", rng.choice([0, 1, 50, 100])])
                ops.append(["set", i, b])
                ops.append(["late", _late_dt(rng, cfg[i][1]), j, cc])
                continue
            if (nsub == 0 and k < 0.5) or (k < 0.12 and nsub < maxsub):
                ops.append(["sub", rng.choice([1, 2, 3]) if rng.random() < 0.95 else None, self._rand_tmo(rng), ["abs"]])
                nsub += 1
            elif k < 0.20:
                ops.append(["sub", rng.choice([None, 1]), self._rand_tmo(rng), self._rand_sid(rng, nsub)])
                if ops[-1][3][0] in ("abs", "empty"):
                    nsub += 1
            elif k < 0.27:
                ops.append(["unsub", self._rand_sid(rng, nsub)])
            elif k < 0.60:
                i = rng.randrange(nv) if rng.random() < 0.97 else nv + 1
                mx = cfg[i][3] if i < nv else None
                x = rng.choice(VALS) if rng.random() < 0.9 or mx is None else mx + rng.choice([0, 1, 5])
                if rng.random() < p_late:
                    rate = cfg[i][1] if i < nv and cfg[i][1] else (cfg[rng.choice(moderated)][1] if moderated else 0)
                    ops.append(["late", _late_dt(rng, rate), i, x])
                else:
                    ops.append(["set", i, x])
            elif k < 0.85:
                ops.append(["adv", rng.choice(ADV)])
            elif k < 0.96:
                ops.append(["deliver", rng.choice([0, 0, 0, 1, 2, 5]), rng.choice([200, 200, 200, 412, 500, 0])])
            else:
                ops.append(["jump", rng.randrange(max(1, nsub)),
                            rng.choice([MAX_KEY - 1, MAX_KEY, MAX_KEY - 2, 7, 0, MAX_KEY + 1])])
        return {"cfg": cfg, "ops": ops}

    ALPHA = [["sub", 1, ["sec", 1, 1], ["abs"]], ["sub", 2, ["abs"], ["abs"]], ["sub", 1, ["sec", 2, 0], ["idx", 0]],
             ["unsub", ["idx", 0]], ["unsub", ["idx", 1]], ["set", 0, 1], ["set", 0, 2], ["set", 1, 1],
             ["adv", 100], ["adv", 200], ["adv", 1000], ["deliver", 0, 200], ["late", 200, 0, 3]]
    ALPHA_CFG = [[True, 200, 0, None], [True, 0, None, None]]

    def _exhaustive(self, depth):
        for combo in itertools.product(range(len(self.ALPHA)), repeat=depth):
            yield {"cfg": self.ALPHA_CFG, "ops": [self.ALPHA[i] for i in combo]}

    def _wrap_cases(self):
        """the key wrap, always run"""
        cfg = [[True, 0, 0, None]]
        out = []
        for k in (MAX_KEY - 2, MAX_KEY - 1, MAX_KEY):
            out.append({"cfg": cfg, "ops": [["sub", 1, ["abs"], ["abs"]], ["sub", 2, ["abs"], ["abs"]], ["jump", 0, k],
                                            ["set", 0, 1], ["set", 0, 2], ["set", 0, 3], ["set", 0, 4]]})
        return out

    def generate(self, rng, tier):
        cases = self._wrap_cases()
        if tier == "thorough":
            cases += list(self._exhaustive(1)) + list(self._exhaustive(2)) + list(self._exhaustive(3))
            cases += list(self._exhaustive(4))
            self.last_exhaustive = True
            d5 = list(self._exhaustive(5))
            cases += rng.sample(d5, 20000)
            cases += [self._random_case(rng, 40) for _ in range(12000)]
        else:
            cases += list(self._exhaustive(1)) + list(self._exhaustive(2))
            d4 = list(self._exhaustive(4))
            cases += rng.sample(d4, 300)
            cases += [self._random_case(rng, 30) for _ in range(500)]
        return cases

    def mutate_case(self, case, rng):
        out = []
        ops = case["ops"]
        for _ in range(20):
            o2 = list(ops)
            if o2 and rng.random() < 0.5:
                del o2[rng.randrange(len(o2))]
            o2.insert(rng.randrange(len(o2) + 1), ["adv", rng.choice(ADV)])
            sets = [j for j, o in enumerate(o2) if o[0] == "set"]
            if sets and rng.random() < 0.5:
                j = rng.choice(sets)                      # an assignment becomes a late one
                rate = case["cfg"][o2[j][1]][1] if o2[j][1] < len(case["cfg"]) else 0
                o2[j] = ["late", _late_dt(rng, rate), o2[j][1], o2[j][2]]
            out.append({"cfg": case["cfg"], "ops": o2})
        return out

    # ------------------------------------------------------------------ implementation
    def run_impl(self, case):
        with warnings.catch_warnings():
            warnings.simplefilter("ignore")
            w = World([list(c) for c in case["cfg"]])
            try:
                steps = []
                for op in case["ops"]:
                    res, runs = w.do(op)
                    steps.append([res, runs])
                return {"init": w.init_runs, "steps": steps, "late": w.late_info}
            finally:
                w.close()

    # ------------------------------------------------------------------ printers
    @staticmethod
    def _o(x):
        return "(-1)" if x is None else (f"({x})" if x < 0 else str(x))

    def _tmo(self, t):
        if t[0] == "abs":
            return "tA"
        if t[0] == "sec":
            return f"(tS {self._o(t[1])} {t[2]})"
        return "(tR " + C.c_list((str(ord(ch)) for ch in t[1]), "Z") + ")"

    @staticmethod
    def _sid(s):
        return {"abs": "sA", "empty": "sE", "bogus": "sB"}.get(s[0]) or f"(sI {s[1]})"

    def _op(self, op):
        k = op[0]
        if k == "sub":
            return f"oSub {self._o(op[1])} {self._tmo(op[2])} {self._sid(op[3])}"
        if k == "unsub":
            return f"oUns {self._sid(op[1])}"
        if k == "set":
            return f"oSet {op[1]} {op[2]}"
        if k == "adv":
            return f"oAdv {op[1]}"
        if k == "late":
            return f"oLate {op[1]} {op[2]} {op[3]}"
        if k == "deliver":
            return f"oDel {op[1]} {op[2]}"
        return f"oJmp {op[1]} {op[2]}"

    def _run(self, r):
        notes = C.c_list((f"nt {n[0]} {n[1]} {n[2]} " + C.c_list((f"({i},{self._o(v)})" for i, v in n[3]), "(Z*Z)")
                          for n in r[2]), "note")
        return f"rn {self._o(r[0])} {C.c_list((str(v) for v in r[1]), 'Z')} {notes}"

    def _res(self, r):
        k = r[0]
        if k == "none":
            return "rNo"
        if k == "raised":
            return "rRa"
        if k == "jump":
            return "rJu"
        if k == "set":
            return f"rSet {r[1]}"
        if k == "deliv":
            return f"rDel {r[1]} {r[2]}"
        first = 1 if r[4] else 0
        if r[3] is None:
            return f"rRe {r[1]} {self._o(r[2])} {first}"
        return f"rRg {r[1]} {self._o(r[2])} {self._o(r[3])} {first}"

    def to_coq(self, case, obs):
        cfg = C.c_list((f"dc {1 if c[0] else 0} {c[1]} {self._o(c[2])} {self._o(c[3])}" for c in case["cfg"]), "decl")
        ops = C.c_list((self._op(o) for o in case["ops"]), "op")
        init = C.c_list((self._run(r) for r in obs["init"]), "run")
        steps = C.c_list((f"({self._res(s[0])}, {C.c_list((self._run(r) for r in s[1]), 'run')})" for s in obs["steps"]),
                         "step_obs")
        return f"(mk_case {cfg} {ops} {init} {steps})"

    # ------------------------------------------------------------------ evidence helpers
    def nontrivial(self, case, obs):
        if not isinstance(obs, dict) or "steps" not in obs:
            return None
        later = 0
        odd = False
        for (res, runs), op in zip(obs["steps"], case["ops"]):
            for r in runs:
                later += sum(1 for n in r[2] if n[2] != 0)
            if res[0] == "resp" and res[1] != 200:
                odd = True
            if op[0] in ("set", "late") and res == ["set", 1] and not runs:
                odd = True
        if not later and not odd:
            return None
        return C.case_hash([case, obs])

    def describe(self, case, obs):
        return {"history": case, "impl_observations": obs}

    def summarize(self, cases, obss):
        kinds, rkinds, late = {}, {}, {}
        lens, notes, nvars = [], 0, {}
        for c, o in zip(cases, obss):
            lens.append(len(c["ops"]))
            nvars[len(c["cfg"])] = nvars.get(len(c["cfg"]), 0) + 1
            for op in c["ops"]:
                key = op[0]
                if op[0] == "sub":
                    key = "subscribe" if op[3][0] == "abs" else "renew"
                    t = op[2]
                    tk = "tmo:" + (t[0] if t[0] != "raw" else ("malformed" if t[1] in MALFORMED else "lenient"))
                    kinds[tk] = kinds.get(tk, 0) + 1
                kinds[key] = kinds.get(key, 0) + 1
            if isinstance(o, dict):
                for sit in o.get("late", []):
                    late[sit] = late.get(sit, 0) + 1
            if isinstance(o, dict) and "steps" in o:
                for res, runs in o["steps"]:
                    k = res[0] + (f":{res[1]}" if res[0] in ("resp", "set") else "")
                    rkinds[k] = rkinds.get(k, 0) + 1
                    notes += sum(len(r[2]) for r in runs)
        return {"ops_by_kind": kinds, "results_by_kind": rkinds, "notify_requests": notes,
                "late_assignments_by_situation": late,
                "variables_per_service": nvars,
                "history_length_min_max": [min(lens), max(lens)] if lens else []}

    def shrink(self, case):
        ops = case["ops"]
        for i in range(len(ops)):
            if len(ops) > 1:
                yield {"cfg": case["cfg"], "ops": ops[:i] + ops[i + 1:]}
        for i, o in enumerate(ops):
            if o[0] == "late":                     # an ordinary assignment instead / no delay
                yield {"cfg": case["cfg"], "ops": ops[:i] + [["set", o[2], o[3]]] + ops[i + 1:]}
        if len(case["cfg"]) > 1:
            last = len(case["cfg"]) - 1
            if not any((o[0] == "set" and o[1] >= last) or (o[0] == "late" and o[2] >= last) for o in ops):
                yield {"cfg": case["cfg"][:-1], "ops": ops}
