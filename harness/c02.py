"""C02 — No datagram can make the SSDP receive path raise.  Harness: the real SsdpProtocol.datagram_received
of the four endpoints (advertisement listener, search listener, combined listener, server search
responder), long-lived per case, fed byte/token/header-level mutations of valid messages."""
from __future__ import annotations

import asyncio
import datetime as dt
import xml.etree.ElementTree as ET
from unittest.mock import patch

from harness import common as C
from harness import ssdp_hist as H
from harness.c01 import ADDRS, LOCAL, addr_coq, url_coq, url_info

EPS = ["EAdv", "ESearch", "EListenerAdv", "EListenerSrch", "EServer"]
DEV_UDN = "uuid:Dummy-Root-1"
DEV_TYPE = "urn:schemas-upnp-org:device:Dummy:2"
SVC_TYPES = ["urn:schemas-upnp-org:service:DummyService:1"]



def _safe(fn, *a):
    """an oracle call made by the harness itself (not by the code under test) must not abort the run: an
    exception reads as "no answer"; if the code under test meets the same exception it is observed there"""
    try:
        return fn(*a)
    except Exception:  # noqa: BLE001
        return None


def make_server_device():
    from async_upnp_client.const import DeviceInfo, ServiceInfo
    from async_upnp_client.server import UpnpServerDevice, UpnpServerService

    class Svc(UpnpServerService):
        SERVICE_DEFINITION = ServiceInfo(
            service_id="urn:upnp-org:serviceId:DummyService", service_type=SVC_TYPES[0],
            control_url="/c", event_sub_url="/e", scpd_url="/s.xml", xml=ET.Element("s"))
        STATE_VARIABLE_DEFINITIONS = {}

    class Dev(UpnpServerDevice):
        DEVICE_DEFINITION = DeviceInfo(
            device_type=DEV_TYPE, friendly_name="Dummy", manufacturer="x", manufacturer_url=None, model_name="m",
            model_url=None, udn=DEV_UDN, upc=None, model_description="d", model_number="1", serial_number="1",
            presentation_url=None, url="/device.xml", icons=[], xml=ET.Element("d"))
        EMBEDDED_DEVICES = []
        SERVICES = [Svc]

    return Dev(requester=None, base_uri="http://192.168.1.2:8000")


class World:
    """The five protocols of one case, sharing one event loop."""

    def __init__(self):
        from async_upnp_client.advertisement import SsdpAdvertisementListener
        from async_upnp_client.search import SsdpSearchListener
        from async_upnp_client.server import SsdpSearchResponder
        self.listener, self.l_adv, self.l_srch, self.log, self.loop = H.make_listener(False)
        loop = self.loop
        self.count = 0
        self.sent = 0
        self.scheduled = 0
        protos = []

        async def fake_cde(factory, sock=None, **_kw):
            p = factory()
            t = H.FakeTransport(p)
            p.connection_made(t)
            protos.append(p)
            return t, p
        loop.create_datagram_endpoint = fake_cde

        def cb(*_a):
            self.count += 1

        class FakeSock:
            def __init__(s):
                s.world = self

            def bind(s, *_a):
                pass

            def sendto(s, data, addr):
                self.sent += 1

        def fake_sock(source, tgt):
            return FakeSock(), source, tgt

        adv = SsdpAdvertisementListener(on_alive=cb, on_byebye=cb, on_update=cb, loop=loop)
        srch = SsdpSearchListener(callback=cb, loop=loop)
        with patch("async_upnp_client.advertisement.get_ssdp_socket", fake_sock), \
                patch("async_upnp_client.search.get_ssdp_socket", fake_sock), \
                patch("async_upnp_client.server.get_ssdp_socket", fake_sock):
            loop.run_until_complete(adv.async_start())
            self.adv = protos[-1]
            loop.run_until_complete(srch.async_start())
            self.srch = protos[-1]

            async def mk():
                r = SsdpSearchResponder(make_server_device())
                await_ = r.async_start()
                return r, await_
            # SsdpSearchResponder uses get_running_loop()/get_event_loop(): build it inside the loop
            asyncio.set_event_loop(loop)

            async def start_server():
                r = SsdpSearchResponder(make_server_device())
                await r.async_start()
                return r
            self.responder = loop.run_until_complete(start_server())
            self.server = protos[-1]

        world = self

        class LoopProxy:
            def time(self):
                return 0.0

            def call_at(self, when, fn, remote_addr, responses):
                world.scheduled += len(responses)
        self.responder._loop = LoopProxy()  # noqa: SLF001

    def proto(self, ep):
        return {"EAdv": self.adv, "ESearch": self.srch, "EListenerAdv": self.l_adv, "EListenerSrch": self.l_srch,
                "EServer": self.server}[ep]


def classify(e: BaseException) -> str:
    from aiohttp.http_exceptions import InvalidHeader, LineTooLong
    if isinstance(e, InvalidHeader):
        return "XInvalidHeader"
    if isinstance(e, LineTooLong):
        return "XLineTooLong"
    if isinstance(e, UnicodeDecodeError):
        return "XUnicodeDecode"
    if isinstance(e, ValueError):
        return "XValueError"
    return "XOther"


SEEDS = [
    ("NOTIFY * HTTP/1.1", [["HOST", "239.255.255.250:1900"], ["CACHE-CONTROL", "max-age=1800"], ["LOCATION", "http://192.168.1.10:80/desc.xml"],
                           ["NT", "upnp:rootdevice"], ["NTS", "ssdp:alive"], ["SERVER", "Linux UPnP/1.0 x/1"], ["USN", "uuid:dev-1::upnp:rootdevice"]]),
    ("NOTIFY * HTTP/1.1", [["HOST", "239.255.255.250:1900"], ["NT", "upnp:rootdevice"], ["NTS", "ssdp:byebye"], ["USN", "uuid:dev-1::upnp:rootdevice"]]),
    ("NOTIFY * HTTP/1.1", [["HOST", "[FF02::C]:1900"], ["LOCATION", "http://[fe80::2]:8080/d.xml"], ["NT", "uuid:dev-2"], ["NTS", "ssdp:update"],
                           ["USN", "uuid:dev-2"], ["CACHE-CONTROL", "max-age=5"]]),
    ("HTTP/1.1 200 OK", [["CACHE-CONTROL", "max-age=120"], ["EXT", ""], ["LOCATION", "http://10.0.0.7/x"], ["ST", "upnp:rootdevice"],
                         ["USN", "uuid:dev-3::upnp:rootdevice"], ["SERVER", "s"]]),
    ("M-SEARCH * HTTP/1.1", [["HOST", "239.255.255.250:1900"], ["MAN", '"ssdp:discover"'], ["MX", "1"], ["ST", "ssdp:all"]]),
    ("M-SEARCH * HTTP/1.1", [["HOST", "239.255.255.250:1900"], ["MAN", '"ssdp:discover"'], ["MX", "3"], ["ST", "upnp:rootdevice"]]),
    ("M-SEARCH * HTTP/1.1", [["HOST", "239.255.255.250:1900"], ["MAN", '"ssdp:discover"'], ["ST", DEV_TYPE]]),
]
MX_VALUES = ["-1", "0", "1", "5", "10", "abc", "1.5", " 3 ", "", "+2", "-0", "1_0", "99999999999999999999", "0x2",
             "0.3", "0.25", "1e-3", ".2", "nan", "inf", "4.999", "1e400",
             # str.isdigit() says yes, int() says no
             "\u00b2", "3\u00b3", "\u2460", "\u2075"]
ST_VALUES = ["ssdp:all", "SSDP:ALL", "upnp:rootdevice", DEV_UDN, DEV_UDN.lower(), DEV_TYPE, DEV_TYPE[:-1] + "1", DEV_TYPE[:-1] + "0",
             DEV_TYPE[:-1] + "3", DEV_TYPE.upper(), SVC_TYPES[0], SVC_TYPES[0][:-1] + "2", "urn:foreign:service:X:1", "", "uuid:other", "a:b",
             # version tokens int() accepts although they are no version numbers
             DEV_TYPE[:-1] + "-1", DEV_TYPE[:-1] + "+1", DEV_TYPE[:-1] + "01", DEV_TYPE[:-1] + " 1", DEV_TYPE[:-1] + "1_0",
             DEV_TYPE[:-1] + "\u0661", SVC_TYPES[0][:-1] + "+1", SVC_TYPES[0][:-1] + "00"]
CC_VALUES = ["max-age=" + "9" * 25, "max-age=99999999999", "max-age=-5", "max-age", "max-age=١٢", "max-age = 7", "MAX-AGE=0",
             "max-age=86399999999999", "max-age=86400000000000", "no-cache"]
LOC_VALUES = ["foo", "http://[fe80::1/x", "http://[fe80::2]:99999/x", "http://127.0.0.1/x", "", "  ", "http://[fe80::2]:80/d",
              "http://169.254.1.1/", "https://[::1]/", "http://hést/", "http://192.168.1.10:80/desc.xml\t"]
USN_VALUES = ["uuid:", "UUID:Dev-9::x", "nouuid", "", "uuid:dev-1", "uuid:dev-1::a::b", "::uuid:x"]


class Plugin:
    ID = "C02"
    HEADER = H.Tokens.HEADER
    RUN_MODULE = "C02.Run"
    GEN = ["Ssdp", "SsdpRecv", "Types", "DateMatchers"]
    DEPENDS = ["C16", "C03", "C01", "C08", "C04"]
    CLAUSES = {1: "never_raises", 2: "dropped_silent", 3: "listener_inert"}
    SHARD = 40
    SEARCH_CASES = 300
    RULE = ("sequences of datagrams (byte-, token- and header-level mutations of valid NOTIFY / M-SEARCH / 200-OK messages: "
            "non-UTF-8 bytes, oversized fields, malformed LOCATION / CACHE-CONTROL / MX / USN / ST values) from IPv4, scoped and "
            "unscoped IPv6 senders, delivered to the real datagram_received of the five protocol instances of one long-lived "
            "world; non-trivial = at least one datagram dispatched and one dropped; distinct = distinct (steps, observations)")
    TRUSTED = [
        "Coq 8.16.1 kernel + vm_compute",
        "tools/gen/ssdprecv.py (caught classes of datagram_received vs. the installed aiohttp hierarchy; MX clamp constants), tools/gen/ssdp.py",
        "harness/c02.py: fake sockets/transports/loop.call_at, callback and sendto counters, scripted clock",
        "urlsplit / ip_address / ip_version_from_location as recorded oracles; C01 (wire codec) and C03 (tracker) models",
    ]
    ASSUMPTIONS = ["MX digits are ASCII", "the server device has no embedded devices and one service (the responder's answers in general are C13's subject)"]
    last_exhaustive = False

    def corpus(self):
        a4, a6 = ADDRS[0], ADDRS[3]
        b = lambda start, hs: list(self._build(start, hs))  # noqa: E731
        return [
            # D1, D2 (fixed)
            {"steps": [["EAdv", list(b"NOTIFY * HTTP/1.1\xff\r\nA:b\r\n\r\n"), a4, 0], ["ESearch", list(b"HTTP/1.1 200 OK\r\nA:" + b"v" * 8200 + b"\r\n\r\n"), a4, 0],
                       ["EListenerAdv", list(b"NOTIFY * HTTP/1.1\r\n" + b"N" * 8200 + b":v\r\n\r\n"), a4, 0]]},
            # D3 (fixed)
            {"steps": [["EListenerSrch", b("HTTP/1.1 200 OK", [["LOCATION", "foo"], ["ST", "a"], ["USN", "uuid:x"]]), a6, 0],
                       ["EListenerAdv", b("NOTIFY * HTTP/1.1", [["LOCATION", "http://[fe80::1/x"], ["NT", "a"], ["NTS", "ssdp:alive"], ["USN", "uuid:x"]]), a6, 1],
                       ["EAdv", b("NOTIFY * HTTP/1.1", [["LOCATION", "http://[fe80::2]:99999/x"], ["NTS", "ssdp:alive"]]), a6, 2]]},
            # D4 (fixed)
            {"steps": [["EListenerSrch", b("HTTP/1.1 200 OK", [["CACHE-CONTROL", "max-age=" + "9" * 20], ["LOCATION", "http://10.0.0.7/x"], ["ST", "a"], ["USN", "uuid:x"]]), a4, 0],
                       ["EListenerAdv", b("NOTIFY * HTTP/1.1", [["CACHE-CONTROL", "max-age=99999999999"], ["LOCATION", "http://10.0.0.7/x"], ["NT", "a"], ["NTS", "ssdp:alive"], ["USN", "uuid:y"]]), a4, 1]]},
            # a device known from two locations; the shorter-lived one is dropped by the lazy purge of a later sighting
            {"steps": [["EListenerSrch", b("HTTP/1.1 200 OK", [["CACHE-CONTROL", "max-age=5"], ["LOCATION", "http://192.168.1.10:80/desc.xml"], ["ST", "upnp:rootdevice"], ["USN", "uuid:Dev-1::upnp:rootdevice"]]), a4, 0],
                       ["EListenerSrch", b("HTTP/1.1 200 OK", [["CACHE-CONTROL", "max-age=1800"], ["LOCATION", "http://192.168.1.77/new.xml"], ["ST", "upnp:rootdevice"], ["USN", "uuid:Dev-1::upnp:rootdevice"]]), a4, 1],
                       ["EListenerAdv", b("NOTIFY * HTTP/1.1", [["CACHE-CONTROL", "max-age=1800"], ["LOCATION", "http://192.168.1.77/new.xml"], ["NT", "upnp:rootdevice"], ["NTS", "ssdp:alive"], ["USN", "uuid:Dev-1::upnp:rootdevice"]]), a4, 10],
                       ["EListenerSrch", b("HTTP/1.1 200 OK", [["CACHE-CONTROL", "max-age=1800"], ["LOCATION", "http://192.168.1.10:80/desc.xml"], ["ST", "upnp:rootdevice"], ["USN", "uuid:Dev-1::upnp:rootdevice"]]), a4, 11]]},
            # D5, D6 (fixed)
            {"steps": [["EServer", b("M-SEARCH * HTTP/1.1", [["MAN", '"ssdp:discover"'], ["MX", "-1"], ["ST", "ssdp:all"]]), a4, 0],
                       ["EServer", b("M-SEARCH * HTTP/1.1", [["MAN", '"ssdp:discover"'], ["MX", "2"], ["ST", "ssdp:all"]]), a4, 0],
                       ["EServer", b("M-SEARCH * HTTP/1.1", [["MAN", '"ssdp:discover"'], ["ST", "upnp:rootdevice"]]), a6, 0]]},
        ]

    @staticmethod
    def _build(start, hs):
        from async_upnp_client.ssdp import build_ssdp_packet
        try:
            return build_ssdp_packet(start, dict(hs))
        except UnicodeEncodeError:
            return b"NOTIFY * HTTP/1.1\r\nA:b\r\n\r\n"

    def _datagram(self, rng):
        start, hs = rng.choice(SEEDS)
        hs = [list(h) for h in hs]
        # header-level mutation
        for _ in range(rng.choice([0, 0, 1, 1, 2])):
            k = rng.randrange(8)
            if k == 0 and hs:
                hs.pop(rng.randrange(len(hs)))
            elif k == 1:
                hs.append(["MX", rng.choice(MX_VALUES)])
            elif k == 2:
                hs = [h for h in hs if h[0] != "ST"] + [["ST", rng.choice(ST_VALUES)]]
            elif k == 3:
                hs = [h for h in hs if h[0] != "CACHE-CONTROL"] + [["CACHE-CONTROL", rng.choice(CC_VALUES)]]
            elif k == 4:
                hs = [h for h in hs if h[0] != "LOCATION"] + [["LOCATION", rng.choice(LOC_VALUES)]]
            elif k == 5:
                hs = [h for h in hs if h[0] != "USN"] + [["USN", rng.choice(USN_VALUES)]]
            elif k == 6:
                hs.append([rng.choice(["NTS", "MAN", "X-Y", "_udn", "_HOST", "nt"]), rng.choice(["ssdp:alive", '"ssdp:discover"', "", "zé", "ssdp:weird"])])
            else:
                start = rng.choice(["NOTIFY * HTTP/1.1", "M-SEARCH * HTTP/1.1", "HTTP/1.1 200 OK", "HTTP/1.1 200 OK ", "NOTIFY * HTTP/1.1x"])
        data = bytearray(self._build(start, hs))
        # byte-level mutation
        for _ in range(rng.choice([0, 0, 0, 1, 1, 2, 3])):
            k = rng.randrange(8)
            i = rng.randrange(len(data) + 1)
            if k == 0 and data:
                del data[i % len(data)]
            elif k == 1:
                data.insert(i, rng.choice([0xff, 0xc3, 0x80, 0x00, 0x0d, 0x0a, 0x3a, 0x20, 0x09, 0xe2, 0xf0, 0xed, 0xa0]))
            elif k == 2:
                data = data[:i]
            elif k == 3:
                data[i:i] = rng.choice([b"\r\nDup:1\r\ndup:2", b"\n", b"\r", b" :x", b"A B:c\r\n", b":\r\n", b"\r\n\r\n"])
            elif k == 4 and data:
                data[i % len(data)] = rng.randrange(256)
            elif k == 5 and rng.random() < 0.05:
                data[i:i] = b"y" * 8200
            elif k == 6:
                data = bytearray(rng.choice([b"", b"\n", b"NOTIFY", b"GET / HTTP/1.1\r\n\r\n", b"HTTP/1.1 200 OK", bytes(data[:17])]))
        return list(data)

    @staticmethod
    def _tail_first_line(data, rng):
        """an otherwise valid message whose first line carries something after the start line (still accepted by the
        prefix gate): undecodable bytes drop the datagram, anything else is another request line"""
        data = bytes(data)
        i = data.find(b"\r\n")
        if i < 0:
            return list(data)
        tail = rng.choice([b"\xff", b"\xff\xfe", b"\xc3", b"0", b" 200 OK", b"/evil", b" ", b"x", b"\x00"])
        return list(data[:i] + tail + data[i:])

    @staticmethod
    def _hide_behind_cr(hs, rng):
        """move one header behind a bare CR (or another line-break look-alike) inside the value of the header before it:
        for the receiver that is ONE header with an illegal value (the datagram is dropped), never two headers"""
        hs = [list(h) for h in hs]
        if len(hs) < 2:
            return hs
        i = rng.randrange(1, len(hs))
        name, value = hs.pop(i)
        brk = rng.choice(["\r", "\r", "\r", "\x0b", "\x0c", "\x1c", "\x85", "\u2028"])
        hs[i - 1][1] = hs[i - 1][1] + brk + name + ": " + value
        return hs

    def _known_device_case(self, rng, n):
        """A device becomes known through a valid sighting; then related datagrams for the same USN arrive at the
        combined listener with one header removed, emptied or replaced (byebye without NT, alive with a LOCATION
        that cannot be parsed, ...).  Targets the clauses 'dropped leaves the known devices unchanged' and
        'never raises' on the paths only a known device reaches (location_changed, headers comparison)."""
        u = rng.choice(["uuid:dev-1", "uuid:dev-3", "uuid:Dev-9"])
        ty = rng.choice(["upnp:rootdevice", DEV_TYPE, u])
        usn = u if ty == u else u + "::" + ty
        loc = rng.choice(["http://192.168.1.10:80/desc.xml", "http://[fe80::2]:8080/d.xml", "http://10.0.0.7/x"])
        alive = ("NOTIFY * HTTP/1.1", [["HOST", "239.255.255.250:1900"], ["CACHE-CONTROL", "max-age=1800"], ["LOCATION", loc],
                                       ["NT", ty], ["NTS", "ssdp:alive"], ["SERVER", "s/1"], ["USN", usn], ["BOOTID.UPNP.ORG", "1"]])
        resp = ("HTTP/1.1 200 OK", [["CACHE-CONTROL", "max-age=1800"], ["EXT", ""], ["LOCATION", loc], ["ST", ty], ["USN", usn],
                                    ["BOOTID.UPNP.ORG", "1"]])
        byebye = ("NOTIFY * HTTP/1.1", [["HOST", "239.255.255.250:1900"], ["NT", ty], ["NTS", "ssdp:byebye"], ["USN", usn]])
        a = rng.choice(ADDRS)
        t = 0
        first = rng.choice([alive, resp])
        steps = [["EListenerAdv" if first is alive else "EListenerSrch", list(self._build(*first)), a, t]]
        for _ in range(n):
            t += rng.choice([0, 1, 1, 3, 10, 100])
            start, hs = rng.choice([alive, resp, byebye, byebye])
            hs = [list(h) for h in hs]
            k = rng.randrange(10)
            names = [h[0] for h in hs]
            if k == 0 and hs:
                hs.pop(rng.randrange(len(hs)))                                  # drop any header
            elif k == 1:
                victim = rng.choice([x for x in ("NT", "ST", "NTS", "USN", "LOCATION") if x in names] or names)
                hs = [h for h in hs if h[0] != victim]
            elif k == 2:
                victim = rng.choice([x for x in ("NT", "ST", "NTS", "USN", "LOCATION") if x in names] or names)
                hs = [[h[0], ""] if h[0] == victim else h for h in hs]           # present but empty
            elif k == 3:
                hs = [h for h in hs if h[0] != "LOCATION"] + [["LOCATION", rng.choice(LOC_VALUES + ["http://[fe80::9/desc.xml", "http://192.168.1.77/new.xml", "http://[fe80::5]:80/n"])]]
            elif k == 4:
                hs = [h for h in hs if h[0] != "CACHE-CONTROL"] + [["CACHE-CONTROL", rng.choice(CC_VALUES)]]
            elif k == 5:
                hs = [[h[0], rng.choice(["2", "x", ""])] if h[0] == "BOOTID.UPNP.ORG" else h for h in hs] + [["CONFIGID.UPNP.ORG", "7"]]
            elif k == 6:
                hs = [[h[0].lower() if rng.random() < 0.5 else h[0].title(), h[1]] for h in hs]
            elif k == 9:
                # no usable USN, but a literal "_udn" header naming the device: only the USN may name the device
                hs = [h for h in hs if h[0] != "USN"] + rng.choice([[], [["USN", "nouuid"]], [["USN", ""]]]) + [["_udn", u]]
            # k in (7, 8): unmodified
            ep = "EListenerSrch" if start.startswith("HTTP") else "EListenerAdv"
            if rng.random() < 0.1:
                ep = rng.choice(["EListenerAdv", "EListenerSrch"])
            if rng.random() < 0.1:
                hs = self._hide_behind_cr(hs, rng)
            data = list(self._build(start, hs))
            if rng.random() < 0.12:
                data = self._tail_first_line(data, rng)
            steps.append([ep, data, a if rng.random() < 0.8 else rng.choice(ADDRS), t])
        return {"steps": steps}

    def _moving_device_case(self, rng, n):
        """One device announced from two locations with different lifetimes, then more traffic after the shorter one has
        run out: the lazy purge has to drop one location of a device that stays known (while it walks the locations)."""
        a = rng.choice(ADDRS)
        u = "uuid:Dev-" + str(rng.randint(1, 3))
        ty = rng.choice(["upnp:rootdevice", u, "urn:schemas-upnp-org:device:Basic:1"])
        usn = u if ty == u else u + "::" + ty
        locs = rng.sample(["http://192.168.1.10:80/desc.xml", "http://192.168.1.77/new.xml", "http://[fe80::2]:8080/d.xml", "http://10.0.0.7/x"], 3)

        def sighting(loc, age):
            if rng.random() < 0.5:
                return "EListenerSrch", ("HTTP/1.1 200 OK", [["CACHE-CONTROL", f"max-age={age}"], ["EXT", ""], ["LOCATION", loc], ["ST", ty], ["USN", usn]])
            return "EListenerAdv", ("NOTIFY * HTTP/1.1", [["HOST", "239.255.255.250:1900"], ["CACHE-CONTROL", f"max-age={age}"], ["LOCATION", loc],
                                                          ["NT", ty], ["NTS", rng.choice(["ssdp:alive", "ssdp:update"])], ["USN", usn]])
        t, steps = 0, []
        for i in range(max(3, n)):
            loc = locs[0] if i == 0 else locs[1] if i == 1 else rng.choice(locs)
            age = rng.choice([1, 5]) if i == 0 else rng.choice([1800, 1800, 5, 30])
            ep, (start, hs) = sighting(loc, age)
            steps.append([ep, list(self._build(start, hs)), a, t])
            t += rng.choice([0, 1, 3, 10, 10, 40, 2000]) if i else rng.choice([0, 1, 3])
        return {"steps": steps}

    def _server_case(self, rng, n):
        """M-SEARCH datagrams for the search responder: every kind of ST (well formed, foreign, version tokens that are
        no version numbers) and MX, with and without MAN - "anything else is dropped" and "a dropped datagram sends nothing"."""
        steps, t = [], 0
        for _ in range(n):
            t += rng.choice([0, 1, 3])
            hs = [["HOST", "239.255.255.250:1900"], ["ST", rng.choice(ST_VALUES)]]
            if rng.random() < 0.85:
                hs.append(["MAN", rng.choice(['"ssdp:discover"', '"ssdp:discover"', 'ssdp:discover', '"SSDP:DISCOVER"', ""])])
            if rng.random() < 0.6:
                hs.append(["MX", rng.choice(MX_VALUES)])
            rng.shuffle(hs)
            if rng.random() < 0.1:
                hs = self._hide_behind_cr(hs, rng)
            data = list(self._build("M-SEARCH * HTTP/1.1", hs))
            if rng.random() < 0.12:
                data = self._tail_first_line(data, rng)
            steps.append(["EServer", data, rng.choice(ADDRS), t])
        return {"steps": steps}

    def _case(self, rng, n):
        r = rng.random()
        if r < 0.2:
            return self._server_case(rng, n)
        if r < 0.5:
            return self._known_device_case(rng, n)
        if r < 0.6:
            return self._moving_device_case(rng, n)
        steps = []
        t = 0
        for _ in range(n):
            t += rng.choice([0, 1, 1, 3, 10, -1, 2000])
            if rng.random() < 0.08:
                start, hs = rng.choice(SEEDS)
                ep = {"N": ["EAdv", "EListenerAdv"], "M": ["EServer"], "H": ["ESearch", "EListenerSrch"]}[start[0]]
                steps.append([rng.choice(ep), self._tail_first_line(self._build(start, hs), rng), rng.choice(ADDRS), t])
                continue
            if rng.random() < 0.08:
                start, hs = rng.choice(SEEDS)
                ep = {"N": ["EAdv", "EListenerAdv"], "M": ["EServer"], "H": ["ESearch", "EListenerSrch"]}[start[0]]
                steps.append([rng.choice(ep), list(self._build(start, self._hide_behind_cr(hs, rng))), rng.choice(ADDRS), t])
                continue
            steps.append([rng.choice(EPS + ["EListenerAdv", "EListenerSrch", "EServer"]), self._datagram(rng), rng.choice(ADDRS), t])
        return {"steps": steps}

    def generate(self, rng, tier):
        n = 1500 if tier == "thorough" else 110
        return [self._case(rng, rng.randint(2, 12)) for _ in range(n)]

    # ------------------------------------------------------------------ implementation
    def run_impl(self, case):
        from async_upnp_client import ssdp
        from async_upnp_client.ssdp_listener import ip_version_from_location
        w = World()
        tracker = w.listener._device_tracker  # noqa: SLF001
        obs, urls, locs, tokens = [], {}, set(), {}
        real_decode = ssdp.decode_ssdp_packet

        def spy_decode(data, local_addr, remote_addr):
            rl, headers = real_decode(data, local_addr, remote_addr)
            lo = headers.get_lower("_location_original")
            if isinstance(lo, str):
                urls.setdefault(lo, url_info(lo))
            loc = headers.get_lower("location")
            if isinstance(loc, str):
                locs.add(loc)
            return rl, headers

        try:
            with patch("async_upnp_client.ssdp.datetime", H.FakeDatetime), patch("async_upnp_client.ssdp.decode_ssdp_packet", spy_decode):
                for ep, data, a, t in case["steps"]:
                    w.count = w.sent = w.scheduled = 0
                    del w.log[:]
                    H.Clock.now_value = H.BASE + dt.timedelta(seconds=t)
                    proto = w.proto(ep)
                    proto.local_addr = tuple(LOCAL)
                    raised = None
                    try:
                        proto.datagram_received(bytes(data), tuple(a))
                    except Exception as e:  # noqa: BLE001 - the property is about exactly this
                        raised = classify(e)
                    cbs = w.count + len(w.log)
                    for d in tracker.devices.values():
                        locs.update(d.locations)
                    obs.append({"raised": raised, "callbacks": cbs, "sent": w.sent, "scheduled": w.scheduled,
                                "devs": list(tracker.devices.keys()), "remote": tokens.setdefault(tuple(a), 1000 + len(tokens))})
        finally:
            w.loop.close()
            asyncio.set_event_loop(None)
        return {"steps": obs, "urls": urls, "ipver": {l: _safe(ip_version_from_location, l) for l in sorted(locs)}}

    # ------------------------------------------------------------------ printers
    def to_coq(self, case, obs):
        tok = H.Tokens()
        steps, sobs = [], []
        for (ep, data, a, t), o in zip(case["steps"], obs["steps"]):
            steps.append(f"{{| s_ep := {ep}; s_data := {C.c_bytes(bytes(data))}; s_local := 999%N; s_addr := {addr_coq(tok, a)}; "
                         f"s_remote := {o['remote']}%N; s_now := {H.c_time(H.us(H.BASE + dt.timedelta(seconds=t)))} |}}")
            r = "None" if o["raised"] is None else f"(Some {o['raised']})"
            sobs.append(f"{{| ob_raised := {r}; ob_callbacks := {o['callbacks']}%N; ob_sent := {o['sent']}%N; "
                        f"ob_scheduled := {o['scheduled']}%N; ob_devs := {C.c_list((tok.s(u) for u in o['devs']), 'pystr')} |}}")
        urls = C.c_list((url_coq(tok, u, i) for u, i in obs["urls"].items()), "(pystr * url_info)")
        ipv = C.c_list((f"({tok.s(k)}, {C.c_opt(v, C.c_N, 'N')})" for k, v in obs["ipver"].items()), "(pystr * option N)")
        dev = (f"{{| sd_udn := {tok.s(DEV_UDN.lower())}; sd_device_type := {tok.s(DEV_TYPE.lower())}; "
               f"sd_service_types := {C.c_list((tok.s(s.lower()) for s in SVC_TYPES), 'pystr')} |}}")
        body = f"(({urls}, {ipv}, {dev}, {C.c_list(steps, 'dstep')}) : input, {C.c_list(sobs, 'sobs')} : observation)"
        return "(" + tok.wrap(body) + ")"

    # ------------------------------------------------------------------ evidence helpers
    def nontrivial(self, case, obs):
        acts = [o for o in obs["steps"] if o["callbacks"] or o["sent"] or o["scheduled"]]
        if not acts or len(acts) == len(obs["steps"]):
            return None
        return C.case_hash([case, obs["steps"]])

    def describe(self, case, obs):
        return {"steps": [[ep, bytes(d).decode("latin1")[:200], a, t] for ep, d, a, t in case["steps"][:4]], "observations": obs["steps"][:4]}

    def summarize(self, cases, obss):
        eps, outcomes = {}, {"raised": 0, "active": 0, "quiet": 0}
        sizes = []
        for c, o in zip(cases, obss):
            for (ep, d, _, _) in c["steps"]:
                eps[ep] = eps.get(ep, 0) + 1
                sizes.append(len(d))
            if isinstance(o, dict) and "steps" in o:
                for s in o["steps"]:
                    k = "raised" if s["raised"] else ("active" if (s["callbacks"] or s["sent"] or s["scheduled"]) else "quiet")
                    outcomes[k] += 1
        return {"datagrams_by_endpoint": eps, "outcomes": outcomes, "datagram_size_min_max": [min(sizes or [0]), max(sizes or [0])]}

    def shrink(self, case):
        steps = case["steps"]
        for i in range(len(steps)):
            if len(steps) > 1:
                yield {"steps": steps[:i] + steps[i + 1:]}

    def impl_search(self, rng, tier):
        """Implementation-only volume for clause 1 (an escaping exception is directly observable)."""
        n = 40000 if tier == "thorough" else 2500
        found = []
        done = 0
        while done < n and not found:
            case = self._case(rng, 25)
            done += len(case["steps"])
            r = self.run_impl(case)
            for i, o in enumerate(r["steps"]):
                if o["raised"]:
                    found.append(("never_raises", {"steps": case["steps"][: i + 1]}, r, f"impl-search: {o['raised']} escaped at step {i}"))
                    break
        return found, done
