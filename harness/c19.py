"""C19 — DLNA LastChange events expand to exactly instance 0's master-channel variables.

Harness: generators (document model + renderer, byte/character-level mutations), the runner that
drives the REAL DmrDevice / UpnpService of /repo, the two oracles (real coercer+schema per
(variable, text); real defusedxml SAX parse per text) computed independently of the observed run,
and the Gallina printers.  Mirrors coq/theories/C19/{Model,Run}.v."""
from __future__ import annotations

import asyncio
import logging
import random
from xml.sax.handler import ContentHandler, ErrorHandler

from harness import common as C

# --------------------------------------------------------------------------------------------
# service descriptions the cases are drawn from
DIDL_OK = ('<DIDL-Lite xmlns="urn:schemas-upnp-org:metadata-1-0/DIDL-Lite/" '
           'xmlns:dc="http://purl.org/dc/elements/1.1/" xmlns:upnp="urn:schemas-upnp-org:metadata-1-0/upnp/">'
           '<item id="1" parentID="0" restricted="1"><dc:title>T &amp; U</dc:title>'
           '<upnp:class>object.item.audioItem.musicTrack</upnp:class></item></DIDL-Lite>')
DIDL_BAD = ['<DIDL-Lite', 'garbage & more', '<DIDL-Lite xmlns="urn:schemas-upnp-org:metadata-1-0/DIDL-Lite/"><desc/></DIDL-Lite>',
            '<a><b></a>', ' ', '<?xml version="1.0"?>']
META_VALUES = [DIDL_OK, "NOT_IMPLEMENTED", "", '<DIDL-Lite xmlns="urn:schemas-upnp-org:metadata-1-0/DIDL-Lite/"/>'] + DIDL_BAD

AVT_POOL = [
    {"name": "TransportState", "type": "string", "allowed": ["STOPPED", "PLAYING", "PAUSED_PLAYBACK", "TRANSITIONING", "NO_MEDIA_PRESENT"]},
    {"name": "TransportStatus", "type": "string", "allowed": ["OK", "ERROR_OCCURRED"]},
    {"name": "CurrentPlayMode", "type": "string", "allowed": ["NORMAL", "SHUFFLE", "REPEAT_ALL"]},
    {"name": "NumberOfTracks", "type": "ui4", "range": ["0", "9999"]},
    {"name": "CurrentTrack", "type": "ui4"},
    {"name": "CurrentTrackDuration", "type": "string"},
    {"name": "CurrentTrackMetaData", "type": "string"},
    {"name": "CurrentTrackURI", "type": "string"},
    {"name": "AVTransportURI", "type": "string"},
    {"name": "AVTransportURIMetaData", "type": "string"},
    {"name": "CurrentTransportActions", "type": "string"},
    {"name": "TransportPlaySpeed", "type": "string"},
]
RC_POOL = [
    {"name": "Mute", "type": "boolean"},
    {"name": "Volume", "type": "ui2", "range": ["0", "100"]},
    {"name": "VolumeDB", "type": "i2", "range": ["-32768", "32767"]},
    {"name": "Loudness", "type": "boolean"},
    {"name": "Brightness", "type": "ui2", "range": ["0", "100"]},
    {"name": "PresetNameList", "type": "string"},
]
EXOTIC_POOL = [
    {"name": "X_Rate", "type": "r4"},
    {"name": "X_When", "type": "dateTime"},
    {"name": "X_Day", "type": "date"},
    {"name": "X_Tz", "type": "time.tz"},
    {"name": "X_Char", "type": "char"},
    {"name": "X_Small", "type": "i1", "range": ["-5", "5"]},
    {"name": "X_Uri", "type": "uri"},
    {"name": "X_Big", "type": "ui8"},
]
SVC = {"AVT": ("urn:schemas-upnp-org:service:AVTransport:1", "urn:upnp-org:serviceId:AVTransport"),
       "RC": ("urn:schemas-upnp-org:service:RenderingControl:1", "urn:upnp-org:serviceId:RenderingControl")}
NS_URI = {"AVT": "urn:schemas-upnp-org:metadata-1-0/AVT/", "RC": "urn:schemas-upnp-org:metadata-1-0/RCS/"}

INT_VALUES = ["0", "1", "7", "50", "100", "101", "9999", "10000", "-1", "-5", "6", "65536", "abc", "", " 5", "5 ", "+3", "0x10", "１２", "1_0", "1.0", "4294967296"]
BOOL_VALUES = ["0", "1", "true", "false", "yes", "no", "TRUE", "Yes", "2", "", "on"]
FLOAT_VALUES = ["1.5", "0", "-2", "1e3", "nan", "inf", "abc", "", "1,5"]
DATE_VALUES = ["2020-01-02", "2020-01-02T03:04:05", "2020-01-02T03:04:05+01:00", "03:04:05", "03:04:05+0100", "abc", "", "12345", "2020-13-45", "2020-01-02T03:04:05Z"]
STR_VALUES = ["", "x", "PLAYING", "STOPPED", "OK", "NORMAL", "a b", " lead", "trail ", "a&b", "<tag>", "q\"uote", "ap'os", "a>b", "tab\there", "nl\nhere", "cr\rhere",
              "é", "日本語", "\U0001F600", "http://h/x?a=1&b=2", "Play,Pause,Stop", "0:03:21", "1", "]]>", "&amp;", "&#38;", "%s", "NOT_IMPLEMENTED"]
CHANNELS = [None, None, None, "Master", "Master", "LF", "RF", "LF"]          # the statement's channels
ODD_CHANNELS = ["master", "", "Master ", "MASTER", "Left", "Right", "LFE", " Master"]  # not spoken about: model-vs-implementation only
PREFIXES = [None, None, None, "e", "avt", "rcs", "ns0", "x-y", "_p"]
UNKNOWN_NAMES = ["Foo", "X_Unknown", "volume", "VOLUME", "TransportStat", "Event", "val", "A_ARG_TYPE_InstanceID", "RelativeTimePosition"]
INST_IDS = ["0", "0", "0", "0", "1", "2", "10", "4294967295"]        # canonical ui4 numerals
ODD_INST_IDS = ["-1", "x", "", None, "1.0"]                           # not instance 0 under any reading: model-vs-implementation only


def values_for(vdef, rng):
    if vdef is None:
        return rng.choice(STR_VALUES + INT_VALUES)
    t = vdef["type"]
    if "MetaData" in vdef["name"]:
        return rng.choice(META_VALUES)
    if vdef.get("allowed") and rng.random() < 0.75:
        return rng.choice(vdef["allowed"])
    if t in ("ui1", "ui2", "ui4", "ui8", "i1", "i2", "i4", "i8", "int"):
        return rng.choice(INT_VALUES)
    if t == "boolean":
        return rng.choice(BOOL_VALUES)
    if t in ("r4", "r8", "number", "float", "fixed.14.4"):
        return rng.choice(FLOAT_VALUES)
    if t in ("date", "dateTime", "dateTime.tz", "time", "time.tz"):
        return rng.choice(DATE_VALUES)
    return rng.choice(STR_VALUES)


# --------------------------------------------------------------------------------------------
# description documents for the real factory
def _esc(s):
    return s.replace("&", "&amp;").replace("<", "&lt;").replace(">", "&gt;")


def device_xml(kind):
    st, sid = SVC[kind]
    return ('<?xml version="1.0"?><root xmlns="urn:schemas-upnp-org:device-1-0"><specVersion><major>1</major><minor>0</minor></specVersion>'
            '<device><deviceType>urn:schemas-upnp-org:device:MediaRenderer:1</deviceType><friendlyName>R</friendlyName>'
            '<manufacturer>m</manufacturer><modelName>n</modelName><UDN>uuid:c19</UDN>'
            f'<serviceList><service><serviceType>{st}</serviceType><serviceId>{sid}</serviceId>'
            '<controlURL>/c</controlURL><eventSubURL>/e</eventSubURL><SCPDURL>/s.xml</SCPDURL></service></serviceList></device></root>')


def scpd_xml(vars_):
    out = ['<?xml version="1.0"?><scpd xmlns="urn:schemas-upnp-org:service-1-0"><specVersion><major>1</major><minor>0</minor></specVersion>'
           '<actionList/><serviceStateTable>']
    for v in [{"name": "LastChange", "type": "string"}] + list(vars_):
        out.append(f'<stateVariable sendEvents="yes"><name>{_esc(v["name"])}</name><dataType>{v["type"]}</dataType>')
        if v.get("allowed"):
            out.append("<allowedValueList>" + "".join(f"<allowedValue>{_esc(a)}</allowedValue>" for a in v["allowed"]) + "</allowedValueList>")
        if v.get("range"):
            out.append(f"<allowedValueRange><minimum>{v['range'][0]}</minimum><maximum>{v['range'][1]}</maximum></allowedValueRange>")
        out.append("</stateVariable>")
    out.append("</serviceStateTable></scpd>")
    return "".join(out)


# --------------------------------------------------------------------------------------------
# renderer: document model -> XML text.  Everything chosen here is invisible to the handler model
# (quotes, attribute order, other attributes, namespace declarations, white space, comments,
# character references) or part of the tree (prefixes, names, channel, val).
XML_SPECIAL = {"&": ["&amp;", "&#38;", "&#x26;"], "<": ["&lt;", "&#60;", "&#x3C;"], ">": ["&gt;", ">", "&#62;"],
               '"': ["&quot;", "&#34;"], "'": ["&apos;", "&#39;"], "\t": ["&#9;", "&#x9;"], "\n": ["&#10;", "&#xA;"], "\r": ["&#13;", "&#xD;"]}


def _attr(value, rng):
    q = rng.choice('"\'')
    out = []
    for ch in value:
        if ch in "&<\t\n\r" or ch == q:
            out.append(rng.choice(XML_SPECIAL[ch]))
        elif ch in "\"'>" and rng.random() < 0.5:
            out.append(rng.choice(XML_SPECIAL[ch]))
        elif ord(ch) > 127 and rng.random() < 0.3:
            out.append(f"&#{ord(ch)};" if rng.random() < 0.5 else f"&#x{ord(ch):X};")
        else:
            out.append(ch)
    return q + "".join(out) + q


def _qn(p, n):
    return n if p is None else f"{p}:{n}"


def doc_prefixes(doc):
    ps = set()
    if doc.get("root_prefix") is not None:
        ps.add(doc["root_prefix"])
    for i in doc["insts"]:
        if i["p"] is not None:
            ps.add(i["p"])
        for v in i["vars"]:
            if v["p"] is not None:
                ps.add(v["p"])
    return sorted(ps)


EXTRA_ATTRS = [("unit", "dB"), ("Channel", "LF"), ("VAL", "9"), ("value", "8"), ("xml:lang", "en"), ("Val", "3"), ("chan", "Master")]


def render(doc, seed, kind="AVT", decl=None):
    rng = random.Random(seed)
    sp = rng.choice(["", "", "\n", "\n  ", " ", "\t"])

    def filler():
        r = rng.random()
        if r < 0.85:
            return sp
        return rng.choice(["<!-- note -->", "<!--<InstanceID val='0'><Volume val='1'/></InstanceID>-->", "<?pi x?>", " \n "])

    def attrs(pairs):
        pairs = list(pairs)
        if rng.random() < 0.2:
            pairs.append(rng.choice(EXTRA_ATTRS))
        rng.shuffle(pairs)
        return "".join(rng.choice([" ", " ", "  ", "\n "]) + f"{k}={_attr(v, rng)}" for k, v in pairs)

    parts = []
    if decl is not None:
        parts.append(decl)
    elif rng.random() < 0.25:
        # the text is a str: whatever encoding its declaration names is immaterial
        parts.append(rng.choice(['<?xml version="1.0"?>', '<?xml version="1.0" encoding="UTF-8"?>', '<?xml version="1.0" encoding="UTF-8"?>',
                                 "<?xml version='1.0' encoding='utf-8' standalone='yes'?>", '<?xml version="1.0" encoding="utf8"?>',
                                 '<?xml version="1.0" encoding="ISO-8859-1"?>', '<?xml version="1.0" encoding="Shift_JIS"?>',
                                 '<?xml version="1.0" encoding="us-ascii"?>', '<?xml version="1.0" encoding="x-device"?>']))
        parts.append(rng.choice(["", "\n"]))
    root = _qn(doc.get("root_prefix"), doc["root"])
    rattrs = []
    declared_on_root = rng.random() < 0.8
    if rng.random() < 0.7:
        rattrs.append(("xmlns", NS_URI[kind]))
    if declared_on_root:
        for p in doc_prefixes(doc):
            rattrs.append((f"xmlns:{p}", NS_URI[kind] if rng.random() < 0.7 else f"urn:x-{p}"))
    if doc.get("root_val") is not None:
        rattrs.append(("val", doc["root_val"]))
    if not doc["insts"] and rng.random() < 0.5:
        parts.append(f"<{root}{attrs(rattrs)}/>")
        return "".join(parts)
    parts.append(f"<{root}{attrs(rattrs)}>")
    for inst in doc["insts"]:
        parts.append(filler())
        iname = _qn(inst["p"], "InstanceID")
        ia = []
        if inst["val"] is not None:
            ia.append(("val", inst["val"]))
        if not declared_on_root and inst["p"] is not None:
            ia.append((f"xmlns:{inst['p']}", NS_URI[kind]))
        if not inst["vars"] and rng.random() < 0.5:
            parts.append(f"<{iname}{attrs(ia)}/>")
            continue
        parts.append(f"<{iname}{attrs(ia)}>")
        for v in inst["vars"]:
            parts.append(filler())
            vname = _qn(v["p"], v["n"])
            va = []
            if v["val"] is not None:
                va.append(("val", v["val"]))
            if v["ch"] is not None:
                va.append(("channel", v["ch"]))
            if not declared_on_root and v["p"] is not None:
                va.append((f"xmlns:{v['p']}", NS_URI[kind]))
            r = rng.random()
            if r < 0.7:
                parts.append(f"<{vname}{attrs(va)}/>")
            elif r < 0.9:
                parts.append(f"<{vname}{attrs(va)}></{vname}>")
            else:
                parts.append(f"<{vname}{attrs(va)}>{rng.choice(['text', ' ', '&amp;', '<![CDATA[<Volume val=\"1\"/>]]>'])}</{vname} >")
        parts.append(filler())
        parts.append(f"</{iname}>")
    parts.append(filler())
    parts.append(f"</{root}>")
    if rng.random() < 0.1:
        parts.append(rng.choice(["\n", " ", "<!-- end -->"]))
    return "".join(parts)


# --------------------------------------------------------------------------------------------
# mutations of a rendered text (the malformed stream)
def mutate_text(text, rng):
    kind = rng.choice(["trunc", "trunc", "del", "unbalance", "badent", "amp", "ctrl", "dupattr", "noquote", "swapclose",
                       "doctype", "doctype_ent", "doctype_ext", "junk", "enc", "double", "insert_lt", "case", "nul_end"])
    n = len(text)
    pos = rng.randrange(n + 1) if n else 0
    if kind == "trunc":
        return text[:pos]
    if kind == "del":
        return text[:pos] + text[pos + 1:]
    if kind == "unbalance":
        i = text.find("</", pos if pos < n else 0)
        if i < 0:
            i = text.find("</")
        if i >= 0:
            j = text.find(">", i)
            return text[:i] + text[j + 1:]
        return text + "</x>"
    if kind == "badent":
        i = text.find('val=', pos)
        if i < 0:
            return text[:pos] + "&bogus;" + text[pos:]
        return text[:i + 5] + rng.choice(["&bogus;", "&#0;", "&#xD800;", "&#;", "&amp"]) + text[i + 5:]
    if kind == "amp":
        return text[:pos] + "&" + text[pos:]
    if kind == "ctrl":
        return text[:pos] + rng.choice(["\x00", "\x01", "\x0b", "\x7f", "￾", "\x85"]) + text[pos:]
    if kind == "dupattr":
        i = text.find(" val=", pos)
        if i < 0:
            i = text.find(" val=")
        if i < 0:
            return text
        return text[:i] + ' val="dup"' + text[i:]
    if kind == "noquote":
        i = text.find('"', pos)
        return text if i < 0 else text[:i] + text[i + 1:]
    if kind == "swapclose":
        return text.replace("</InstanceID>", "</Instance>", 1) if "</InstanceID>" in text else text.replace("</", "</x", 1)
    if kind == "doctype":
        return "<!DOCTYPE Event>" + text
    if kind == "doctype_ent":
        return '<!DOCTYPE Event [<!ENTITY a "b">]>' + text
    if kind == "doctype_ext":
        return '<!DOCTYPE Event SYSTEM "http://x/e.dtd">' + text
    if kind == "junk":
        return rng.choice(["hello", "<", ">", "<>", "</Event>", "<Event", "<Event><InstanceID val='0'>", "﻿" + text, " " + text, "\n\n" + text, text + "trailing", text + text])
    if kind == "enc":
        return rng.choice(['<?xml version="1.0" encoding="latin-1"?>', '<?xml version="1.0" encoding="utf-16"?>', '<?xml version="1.1"?>', '<?xml version="1.0" encoding="bogus"?>']) + text.split("?>", 1)[-1]
    if kind == "double":
        return text + text
    if kind == "insert_lt":
        return text[:pos] + "<" + text[pos:]
    if kind == "case":
        return text.replace("InstanceID", "instanceid", 1)
    if kind == "nul_end":
        return text + "\x00"
    return text


# --------------------------------------------------------------------------------------------
# oracles (independent of the observed run)
class _Rec(ContentHandler):
    def __init__(self):
        super().__init__()
        self.evs = []

    def startElement(self, name, attrs):
        self.evs.append(["s", name, attrs.get("val") if "val" in attrs else None, attrs.get("channel")])

    def endElement(self, name):
        self.evs.append(["e", name])


class _Swallow(ErrorHandler):
    def error(self, exception):
        pass

    def fatalError(self, exception):
        pass

    def warning(self, exception):
        pass


def oracle_parse(text):
    """What the (defused) expat SAX parser delivers for the UTF-8 encoding of an already decoded text: the
    encoding named by an XML declaration is overridden, as in the code repaired by proposed/C19/D30.diff."""
    from io import BytesIO
    from xml.sax.xmlreader import InputSource

    import defusedxml.sax
    h = _Rec()
    try:
        src = InputSource()
        src.setByteStream(BytesIO(text.encode()))
        src.setEncoding("utf-8")
        parser = defusedxml.sax.make_parser()
        parser.setContentHandler(h)
        parser.setErrorHandler(_Swallow())
        parser.parse(src)
    except Exception as e:  # noqa: BLE001 - the class is the observation
        return ["raise", type(e).__name__]
    return ["events", h.evs]


def value_repr(v):
    """Python value -> (tag, text) or None."""
    if v is None:
        return None
    if isinstance(v, str):
        return [0, v]
    if isinstance(v, bool):
        return [2, str(v)]
    if isinstance(v, int):
        return [1, str(v)]
    if isinstance(v, float):
        return [3, repr(v)]
    return [4, repr(v)]


def _strip(name):
    return name[name.find(":") + 1:] if ":" in name else name


def _cands(name):
    out = {name, _strip(name)}
    for x in list(out):
        if "}" in x:
            out.add(x.split("}")[1])
    return out


# --------------------------------------------------------------------------------------------
class _Env:
    """A real DmrDevice over a one-service device built by the real factory."""

    def __init__(self, svc):
        from async_upnp_client.client import UpnpRequester
        from async_upnp_client.client_factory import UpnpFactory
        from async_upnp_client.event_handler import UpnpEventHandler, UpnpNotifyServer
        from async_upnp_client.profiles.dlna import DmrDevice

        kind = svc["kind"]
        table = {("GET", "http://r:1/d.xml"): (200, {}, device_xml(kind)),
                 ("GET", "http://r:1/s.xml"): (200, {}, scpd_xml(svc["vars"])),
                 ("SUBSCRIBE", "http://r:1/e"): (200, {"sid": "uuid:c19", "timeout": "Second-1800"}, "")}

        class Req(UpnpRequester):
            async def async_http_request(self, method, url, headers=None, body=None):
                return table[(method, url)]

        class NS(UpnpNotifyServer):
            @property
            def callback_url(self):
                return "http://h:2/notify"

            async def async_start_server(self):
                pass

            async def async_stop_server(self):
                pass

        self.log = []
        names = [v["name"] for v in svc["vars"]]

        async def build():
            req = Req()
            dev = await UpnpFactory(req, non_strict=bool(svc.get("non_strict"))).async_create_device("http://r:1/d.xml")
            eh = UpnpEventHandler(NS(), req)
            dmr = DmrDevice(dev, eh)
            await dmr.async_subscribe_services()
            return dev, eh, dmr

        self.loop = asyncio.new_event_loop()
        self.dev, self.eh, self.dmr = self.loop.run_until_complete(build())
        self.service = self.dev.services[SVC[kind][0]]
        self.names = names

        def on_event(service, state_variables):
            self.log.append([[sv.name, None if sv.name == "LastChange" else value_repr(sv.value)] for sv in state_variables])

        self.dmr.on_event = on_event

    def values(self):
        return [value_repr(self.service.state_variable(n).value) for n in self.names]

    def close(self):
        self.loop.close()


def _notify_body(text):
    esc = text.replace("&", "&amp;").replace("<", "&lt;").replace(">", "&gt;")
    return ('<e:propertyset xmlns:e="urn:schemas-upnp-org:event-1-0"><e:property><LastChange>'
            + esc + "</LastChange></e:property></e:propertyset>")


def _xml_safe(text):
    return all((0x20 <= ord(c) <= 0xD7FF or c in "\t\n" or 0xE000 <= ord(c) <= 0xFFFD or ord(c) >= 0x10000) for c in text)


class Plugin:
    ID = "C19"
    RUN_MODULE = "C19.Run"
    GEN = []
    CLAUSES = {1: "no_raise", 2: "values_exact", 3: "one_more_callback", 4: "nothing_without_0"}
    SHARD = 60
    SEARCH_CASES = 1500
    RULE = ("histories of 1-3 LastChange events on a one-service DMR built by the real factory: documents rendered "
            "from a model (0-3 instances, 0-8 variables each, channels absent/Master/LF/RF/odd, prefixed and unprefixed "
            "InstanceID and variable elements, attribute order, quoting, character references, comments, white space) "
            "and character/byte-level mutations of such renderings (truncation, unbalanced tags, bad entities, control "
            "characters, DOCTYPE); non-trivial = some step carried a variable in the further callback, raised, or the "
            "parser reported a fatal error; distinct = distinct (events, observations)")
    TRUSTED = [
        "Coq 8.16.1 kernel + vm_compute (no native_compute)",
        "harness/c19.py: service/description builder, renderer, oracles, printers; drives UpnpService.notify_changed_state_variables "
        "({'LastChange': text}) (or UpnpEventHandler.handle_notify) of a subscribed DmrDevice built by the real UpnpFactory",
        "expat/defusedxml.sax (oracle): delivers the SAX events of a document up to the first fatal error, reports errors to the "
        "error handler rather than raising when the text has no DOCTYPE, and every attribute value is shorter than the document; "
        "for model-rendered documents the delivered stream is sax_of_tree (exercised on every rendered case, not proved)",
        "UpnpStateVariable.coerce_python / validate_value (oracle, C08's subject): outcome per (variable, text); premise of "
        "no_raise: they raise ValueError/UpnpValueError only",
        "Python dict/str semantics as modelled in Prelude/PyDict.v, Prelude/PyStr.v (find/slice/split on ':' and '}')",
        "didl_lite is outside the model: after proposed/C19/D29.diff its errors cannot leave DmrDevice._on_event",
    ]
    ASSUMPTIONS = [
        "Reading: in a well-formed event the val of an InstanceID element is a canonical decimal numeral (so string and numeric identity of instance 0 coincide)",
        "Reading: variable elements carry XML local names other than InstanceID/LastChange; channels are the statement's: absent, Master, LF, RF",
        "Reading: neither the order of the two callbacks of one event nor the order of the variables inside one is fixed by the statement",
        "Reading: if no variable is to be carried, the further callback may be absent (the code omits it for a childless instance 0 and sends an empty one when all entries are non-Master)",
        "Reading: free of DTD declarations = no '<!DOCTYPE' in the value or in a nested LastChange value; values are str of Unicode scalar values",
        "LastChange is declared string without restrictions in the service description",
    ]
    last_exhaustive = False

    def __init__(self):
        self._env_cache = {}
        logging.disable(logging.CRITICAL)

    # ------------------------------------------------------------------ generation
    def corpus(self):
        import json
        extra = []
        d = C.VERIF / "corpus" / "C19"
        if d.is_dir():
            for f in sorted(d.glob("*.json")):
                extra.append(json.loads(f.read_text()))
        return self._builtin_corpus() + extra

    def _builtin_corpus(self):
        svc_avt = {"kind": "AVT", "vars": [AVT_POOL[0], AVT_POOL[6], AVT_POOL[4], AVT_POOL[7]]}
        svc_rc = {"kind": "RC", "vars": [RC_POOL[0], RC_POOL[1]]}

        def V(n, val, ch=None, p=None):
            return {"p": p, "n": n, "ch": ch, "val": val}

        def D(insts, rp=None):
            return {"root": "Event", "root_prefix": rp, "root_val": None, "insts": insts}
        return [
            # D28: prefixed InstanceID elements - instance 1 must not be applied as instance 0
            {"svc": svc_avt, "entry": "direct", "events": [
                {"doc": D([{"p": "e", "val": "0", "vars": [V("TransportState", "PLAYING", p="e")]},
                           {"p": "e", "val": "1", "vars": [V("TransportState", "STOPPED", p="e")]}], rp="e"), "seed": 1},
                {"doc": D([{"p": "e", "val": "1", "vars": [V("TransportState", "PAUSED_PLAYBACK", p="e")]}], rp="e"), "seed": 2}]},
            # D29: unparsable DIDL-Lite in CurrentTrackMetaData must not escape the event path
            {"svc": svc_avt, "entry": "direct", "events": [
                {"doc": D([{"p": None, "val": "0", "vars": [V("CurrentTrackMetaData", "garbage & more"), V("CurrentTrack", "3")]}]), "seed": 3}]},
            {"svc": svc_avt, "entry": "notify", "events": [
                {"doc": D([{"p": None, "val": "0", "vars": [V("CurrentTrackMetaData", '<DIDL-Lite xmlns="urn:schemas-upnp-org:metadata-1-0/DIDL-Lite/"><desc/></DIDL-Lite>')]}]), "seed": 4}]},
            # the literal documents of the repository's tests
            {"svc": svc_avt, "entry": "direct", "events": [
                {"raw": '<Event xmlns="urn:schemas-upnp-org:metadata-1-0/AVT/">\n<InstanceID val="0"><TransportState val="PAUSED_PLAYBACK"/></InstanceID>\n<InstanceID val="1"><TransportState val="PLAYING"/></InstanceID>\n</Event>'},
                {"raw": '<Event xmlns="urn:schemas-upnp-org:metadata-1-0/AVT/">\n<InstanceID val="0"><TransportState val="PLAYING"></InstanceID>\n</Event>'},
                {"raw": ""}]},
            {"svc": svc_rc, "entry": "notify", "events": [
                {"raw": '<Event xmlns="urn:schemas-upnp-org:metadata-1-0/RCS/">\n<InstanceID val="0">\n  <Volume channel="Master" val="10"/>\n  <Volume channel="Left" val="20"/>\n  <Volume channel="Right" val="30"/>\n</InstanceID>\n</Event>'},
                {"doc": D([{"p": None, "val": "0", "vars": [V("Mute", "1", "Master"), V("Volume", "50", "Master"), V("Volume", "60", "LF")]}]), "seed": 5}]},
            # D30: the text is already decoded - the encoding its XML declaration names must be neither used nor looked up
            {"svc": svc_avt, "entry": "direct", "events": [
                {"doc": D([{"p": None, "val": "0", "vars": [V("TransportState", "PLAYING"), V("CurrentTrack", "7")]}]), "seed": 7,
                 "decl": '<?xml version="1.0" encoding="x-device"?>'},
                {"doc": D([{"p": None, "val": "0", "vars": [V("CurrentTrackURI", "http://h/caf\u00e9.mp3"), V("CurrentTrack", "8")]}]), "seed": 0,
                 "decl": '<?xml version="1.0" encoding="utf8"?>'},
                {"doc": D([{"p": None, "val": "0", "vars": [V("CurrentTrack", "9")]}]), "seed": 9,
                 "decl": '<?xml version="1.0" encoding="Shift_JIS"?>'}]},
            # nested LastChange, DTD, lone surrogate (outside the statement's domain: compared with the model only)
            {"svc": svc_rc, "entry": "direct", "events": [
                {"doc": D([{"p": None, "val": "0", "vars": [V("LastChange", '<Event><InstanceID val="0"><Volume val="11"/></InstanceID></Event>'), V("Volume", "12")]}]), "seed": 6},
                {"raw": '<!DOCTYPE Event [<!ENTITY a "b">]><Event><InstanceID val="0"><Volume val="1"/></InstanceID></Event>'},
                {"raw": '<Event><InstanceID val="0"><Volume val="\ud800"/></InstanceID></Event>'}]},
        ]

    def _svc(self, rng):
        kind = rng.choice(["AVT", "AVT", "RC", "RC"])
        pool = AVT_POOL if kind == "AVT" else RC_POOL
        other = RC_POOL if kind == "AVT" else AVT_POOL
        k = rng.randint(1, min(6, len(pool)))
        vs = rng.sample(pool, k)
        if rng.random() < 0.25:
            vs += rng.sample(EXOTIC_POOL, rng.randint(1, 2))
        if rng.random() < 0.15:
            vs += rng.sample(other, 1)
        rng.shuffle(vs)
        svc = {"kind": kind, "vars": vs}
        if rng.random() < 0.15:
            svc["non_strict"] = True
        return svc

    def _var(self, rng, svc, wf=True):
        defs = {v["name"]: v for v in svc["vars"]}
        r = rng.random()
        if r < 0.8 and defs:
            n = rng.choice(sorted(defs))
        else:
            n = rng.choice(UNKNOWN_NAMES)
        val = values_for(defs.get(n), rng)
        v = {"p": rng.choice(PREFIXES), "n": n, "ch": rng.choice(CHANNELS), "val": val}
        if not wf:
            q = rng.random()
            if q < 0.2:
                v["val"] = None
            elif q < 0.35:
                v["n"] = "InstanceID"
            elif q < 0.5:
                v["ch"] = rng.choice(ODD_CHANNELS)
            elif q < 0.6:
                v["n"] = "LastChange"
                v["val"] = rng.choice(["", "<Event><InstanceID val='0'><Volume val='9'/><TransportState val='PLAYING'/></InstanceID></Event>",
                                       "<Event><InstanceID val='0'><Volume val='9'", "junk"])
        return v

    def _doc(self, rng, svc, wf=True, uniform_prefix=None):
        ninst = rng.choice([0, 1, 1, 1, 2, 2, 3])
        insts = []
        for _ in range(ninst):
            nv = rng.choice([0, 1, 1, 2, 2, 3, 4, 5, 8])
            vars_ = [self._var(rng, svc, wf or rng.random() < 0.6) for _ in range(nv)]
            inst = {"p": rng.choice(PREFIXES), "val": rng.choice(INST_IDS), "vars": vars_}
            if not wf and rng.random() < 0.3:
                inst["val"] = rng.choice(ODD_INST_IDS)
            insts.append(inst)
        doc = {"root": rng.choice(["Event", "Event", "Event", "event", "LastChange"]), "root_prefix": rng.choice(PREFIXES),
               "root_val": None, "insts": insts}
        if not wf and rng.random() < 0.2:
            doc["root_val"] = rng.choice(["0", "x"])
        if uniform_prefix is not None or rng.random() < 0.3:
            p = uniform_prefix if uniform_prefix is not None else rng.choice(["e", "avt", "rcs"])
            doc["root_prefix"] = p
            for i in insts:
                i["p"] = p
                for v in i["vars"]:
                    v["p"] = p
        return doc

    def _case(self, rng):
        svc = self._svc(rng)
        nev = rng.choice([1, 1, 2, 2, 3])
        events = []
        for _ in range(nev):
            r = rng.random()
            if r < 0.62:
                events.append({"doc": self._doc(rng, svc, wf=True), "seed": rng.randrange(1 << 30)})
            elif r < 0.72:
                events.append({"doc": self._doc(rng, svc, wf=False), "seed": rng.randrange(1 << 30)})
            elif r < 0.76:
                events.append({"raw": rng.choice(["", "", " ", "\n"])})
            else:
                base = render(self._doc(rng, svc, wf=rng.random() < 0.8), rng.randrange(1 << 30), svc["kind"])
                text = base if rng.random() < 0.15 else mutate_text(base, rng)
                if rng.random() < 0.2:
                    text = mutate_text(text, rng)
                events.append({"raw": text})
        return {"svc": svc, "entry": rng.choice(["direct", "direct", "notify"]), "events": events}

    def _small_scope(self):
        """Every document with <= 2 instances (ids 0/1, each prefixed or not) and <= 2 variables per instance drawn
        from {Volume Master 1, Volume LF 2, Mute absent 1}: exhaustive small scope for the handler fold."""
        svc = {"kind": "RC", "vars": [RC_POOL[1], RC_POOL[0]]}
        atoms = [{"p": None, "n": "Volume", "ch": "Master", "val": "1"}, {"p": "r", "n": "Volume", "ch": "LF", "val": "2"},
                 {"p": None, "n": "Mute", "ch": None, "val": "1"}]
        var_lists = [[]] + [[a] for a in atoms] + [[a, b] for a in atoms for b in atoms]
        insts = [{"p": p, "val": i, "vars": vl} for p in (None, "r") for i in ("0", "1") for vl in var_lists]
        docs = [[]] + [[a] for a in insts] + [[a, b] for a in insts for b in insts]
        for n, il in enumerate(docs):
            yield {"svc": svc, "entry": "direct",
                   "events": [{"doc": {"root": "Event", "root_prefix": None, "root_val": None, "insts": il}, "seed": n}]}

    def generate(self, rng, tier):
        small = list(self._small_scope())
        if tier == "thorough":
            cases = small
            self.last_exhaustive = True
            n = 30000
        else:
            cases = rng.sample(small, 150)
            n = 700
        for _ in range(n):
            cases.append(self._case(rng))
        return cases

    # ------------------------------------------------------------------ implementation
    def _text(self, case, ev):
        if "raw" in ev:
            return ev["raw"]
        return render(ev["doc"], ev["seed"], case["svc"]["kind"], ev.get("decl"))

    def run_impl(self, case):
        env = _Env(case["svc"])
        try:
            obs = []
            for ev in case["events"]:
                text = self._text(case, ev)
                del env.log[:]
                raised = None
                try:
                    if case.get("entry") == "notify" and _xml_safe(text):
                        status = env.loop.run_until_complete(env.eh.handle_notify(
                            {"NT": "upnp:event", "NTS": "upnp:propchange", "SID": "uuid:c19"}, _notify_body(text)))
                        if int(status) != 200:
                            raised = f"HTTP{int(status)}"
                    else:
                        env.service.notify_changed_state_variables({"LastChange": text})
                except Exception as e:  # noqa: BLE001 - the class is the observation
                    raised = type(e).__name__
                obs.append({"raised": raised, "vals": env.values(), "calls": [list(c) for c in env.log]})
            return obs
        finally:
            env.close()

    # ------------------------------------------------------------------ oracles
    def _oracles(self, case):
        """-> (conv table {(name, text): outcome}, parse table {text: parsed}) from the real coercers / parser."""
        svc = case["svc"]
        key = C.case_hash(svc)
        if key not in self._env_cache:
            if len(self._env_cache) > 64:
                for e in self._env_cache.values():
                    e.close()
                self._env_cache.clear()
            self._env_cache[key] = _Env(svc)
        env = self._env_cache[key]
        names = set(env.names)
        parse_tbl = {}
        pairs = []      # (element name, val)

        def add_text(text, depth=0):
            if text in parse_tbl or depth > 6:
                return
            p = oracle_parse(text)
            parse_tbl[text] = p
            if p[0] == "events":
                for e in p[1]:
                    if e[0] == "s" and e[2] is not None:
                        pairs.append((e[1], e[2]))
                        if "LastChange" in _cands(e[1]) and e[2]:
                            add_text(e[2], depth + 1)

        for ev in case["events"]:
            if "raw" in ev:
                if ev["raw"]:
                    add_text(ev["raw"])
            else:
                d = ev["doc"]
                for i in d["insts"]:
                    if i["val"] is not None:
                        pairs.append((_qn(i["p"], "InstanceID"), i["val"]))
                    for v in i["vars"]:
                        if v["val"] is not None:
                            qn = _qn(v["p"], v["n"])
                            pairs.append((qn, v["val"]))
                            if "LastChange" in _cands(qn) and v["val"]:
                                add_text(v["val"], 1)
                if d.get("root_val") is not None:
                    pairs.append((_qn(d.get("root_prefix"), d["root"]), d["root_val"]))
        from async_upnp_client.exceptions import UpnpValueError
        conv = {}
        for en, val in pairs:
            for n in _cands(en):
                if n in names and (n, val) not in conv:
                    sv = env.service.state_variable(n)
                    try:
                        x = sv.coerce_python(val)
                    except ValueError:
                        conv[(n, val)] = ["valueerror"]
                        continue
                    except Exception as e:  # noqa: BLE001
                        conv[(n, val)] = ["raise", type(e).__name__]
                        continue
                    try:
                        sv.validate_value(x)
                    except UpnpValueError:
                        conv[(n, val)] = ["invalid"]
                        continue
                    except Exception as e:  # noqa: BLE001
                        conv[(n, val)] = ["raise", type(e).__name__]
                        continue
                    conv[(n, val)] = ["set"] + value_repr(x)
        return conv, parse_tbl

    # ------------------------------------------------------------------ printers
    @staticmethod
    def _ostr(s):
        return C.c_opt(s, C.c_str)

    def _sax(self, e):
        if e[0] == "s":
            return f"SStart {C.c_str(e[1])} {self._ostr(e[2])} {self._ostr(e[3])}"
        return f"SEnd {C.c_str(e[1])}"

    def _tree(self, d):
        insts = []
        for i in d["insts"]:
            vs = C.c_list((f"Build_var_el {self._ostr(v['p'])} {C.c_str(v['n'])} {self._ostr(v['ch'])} {self._ostr(v['val'])}"
                           for v in i["vars"]), "var_el")
            insts.append(f"Build_inst_el {self._ostr(i['p'])} {self._ostr(i['val'])} {vs}")
        root = _qn(d.get("root_prefix"), d["root"])
        return f"Build_tree {C.c_str(root)} {self._ostr(d.get('root_val'))} {C.c_list(insts, 'inst_el')}"

    @staticmethod
    def _oval(v):
        return "None" if v is None else f"(Some ({C.c_N(v[0])}, {C.c_str(v[1])}))"

    def to_coq(self, case, obs):
        conv, parse_tbl = self._oracles(case)
        vars_ = C.c_list((C.c_str(v["name"]) for v in case["svc"]["vars"]), "str")
        ct = []
        for (n, val), o in conv.items():
            if o[0] == "set":
                oc = f"OSet {C.c_N(o[1])} {C.c_str(o[2])}"
            elif o[0] == "valueerror":
                oc = "OValueError"
            elif o[0] == "invalid":
                oc = "OInvalid"
            else:
                oc = f"ORaise {C.c_str(o[1])}"
            ct.append(f"(({C.c_str(n)}, {C.c_str(val)}), {oc})")
        pt = []
        for text, p in parse_tbl.items():
            if p[0] == "events":
                pc = "PEvents " + C.c_list((self._sax(e) for e in p[1]), "sax")
            else:
                pc = f"PRaise {C.c_str(p[1])}"
            pt.append(f"({C.c_str(text)}, {pc})")
        evs = []
        for ev in case["events"]:
            if "raw" in ev:
                evs.append(f"ERaw {C.c_str(ev['raw'])}")
            else:
                evs.append(f"EDoc ({self._tree(ev['doc'])})")
        inp = (f"Build_input {vars_} {C.c_list(ct, '((str * str) * outcome)')} {C.c_list(pt, '(str * parsed)')} "
               f"{C.c_list(evs, 'event')}")
        so = []
        for o in obs:
            calls = C.c_list((C.c_list((f"({C.c_str(n)}, {self._oval(v)})" for n, v in c), "(str * oval)") for c in o["calls"]), "call")
            so.append(f"Build_step_obs {C.c_opt(o['raised'], C.c_str)} {C.c_list((self._oval(v) for v in o['vals']), 'oval')} {calls}")
        return f"({inp}, {C.c_list(so, 'step_obs')})"

    # ------------------------------------------------------------------ evidence helpers
    def nontrivial(self, case, obs):
        ok = False
        for ev, o in zip(case["events"], obs):
            if o["raised"] is not None or any(c and c[0][0] != "LastChange" for c in o["calls"]):
                ok = True
            if "raw" in ev and ev["raw"].strip():
                ok = True
        if not ok:
            return None
        return C.case_hash([case["events"], obs])

    def describe(self, case, obs):
        return {"service": [v["name"] + ":" + v["type"] for v in case["svc"]["vars"]], "entry": case.get("entry"),
                "texts": [self._text(case, ev)[:300] for ev in case["events"]], "impl_observations": obs}

    def summarize(self, cases, obss):
        s = {"events": 0, "doc_events": 0, "raw_events": 0, "empty_events": 0, "raised": {}, "instances": {}, "vars_per_instance_max": 0,
             "prefixed_instance_elements": 0, "channels": {}, "further_callbacks": {"none": 0, "empty": 0, "nonempty": 0},
             "entry": {}, "parser_stopped_early": 0}
        for c, o in zip(cases, obss):
            s["entry"][c.get("entry")] = s["entry"].get(c.get("entry"), 0) + 1
            if not isinstance(o, list):
                continue
            for ev, so in zip(c["events"], o):
                s["events"] += 1
                if "raw" in ev:
                    s["raw_events"] += 1
                    if not ev["raw"]:
                        s["empty_events"] += 1
                    elif ev["raw"].count("<") != ev["raw"].count(">"):
                        s["parser_stopped_early"] += 1
                else:
                    s["doc_events"] += 1
                    d = ev["doc"]
                    k = str(len(d["insts"]))
                    s["instances"][k] = s["instances"].get(k, 0) + 1
                    for i in d["insts"]:
                        s["vars_per_instance_max"] = max(s["vars_per_instance_max"], len(i["vars"]))
                        if i["p"] is not None:
                            s["prefixed_instance_elements"] += 1
                        for v in i["vars"]:
                            ch = str(v["ch"])
                            s["channels"][ch] = s["channels"].get(ch, 0) + 1
                if so["raised"]:
                    s["raised"][so["raised"]] = s["raised"].get(so["raised"], 0) + 1
                n = len(so["calls"])
                if n <= 1:
                    s["further_callbacks"]["none"] += 1
                elif not so["calls"][0]:
                    s["further_callbacks"]["empty"] += 1
                else:
                    s["further_callbacks"]["nonempty"] += 1
        return s

    def shrink(self, case):
        evs = case["events"]
        for i in range(len(evs)):
            if len(evs) > 1:
                yield dict(case, events=evs[:i] + evs[i + 1:])
        for i, ev in enumerate(evs):
            if "doc" in ev:
                d = ev["doc"]
                for j in range(len(d["insts"])):
                    nd = dict(d, insts=d["insts"][:j] + d["insts"][j + 1:])
                    yield dict(case, events=evs[:i] + [dict(ev, doc=nd)] + evs[i + 1:])
                for j, inst in enumerate(d["insts"]):
                    for k in range(len(inst["vars"])):
                        ni = dict(inst, vars=inst["vars"][:k] + inst["vars"][k + 1:])
                        nd = dict(d, insts=d["insts"][:j] + [ni] + d["insts"][j + 1:])
                        yield dict(case, events=evs[:i] + [dict(ev, doc=nd)] + evs[i + 1:])
            else:
                t = ev["raw"]
                if len(t) > 8:
                    for cut in (t[:len(t) // 2], t[len(t) // 2:], t[:-4], t[4:]):
                        yield dict(case, events=evs[:i] + [{"raw": cut}] + evs[i + 1:])
        vs = case["svc"]["vars"]
        for i in range(len(vs)):
            if len(vs) > 1:
                yield dict(case, svc=dict(case["svc"], vars=vs[:i] + vs[i + 1:]))
        if case.get("entry") == "notify":
            yield dict(case, entry="direct")

    def impl_search(self, rng, tier):
        """Implementation-only volume for the directly observable clause no_raise (search, never a proof): mutated
        renderings fed to one long-lived service; any exception on a DOCTYPE-free text is a concrete replay."""
        n = 60000 if tier == "thorough" else 4000
        svc = {"kind": "AVT", "vars": AVT_POOL[:9] + RC_POOL[:2] + EXOTIC_POOL[:4]}
        env = _Env(svc)
        found, count = [], 0
        try:
            while count < n and len(found) < 3:
                base = render(self._doc(rng, svc, wf=rng.random() < 0.7), rng.randrange(1 << 30), "AVT")
                for _ in range(10):
                    text = mutate_text(base, rng)
                    if rng.random() < 0.3:
                        text = mutate_text(text, rng)
                    count += 1
                    if "<!DOCTYPE" in text:
                        continue
                    del env.log[:]
                    try:
                        env.service.notify_changed_state_variables({"LastChange": text})
                    except Exception as e:  # noqa: BLE001
                        case = {"svc": svc, "entry": "direct", "events": [{"raw": text}]}
                        found.append(("no_raise", case, [{"raised": type(e).__name__, "vals": env.values(), "calls": []}],
                                      f"impl-search raised {type(e).__name__}"))
                        break
        finally:
            env.close()
        return found, count

    def mutate_case(self, case, rng):
        out = []
        for _ in range(20):
            evs = []
            for ev in case["events"]:
                if "doc" in ev:
                    evs.append(dict(ev, seed=rng.randrange(1 << 30)))
                else:
                    evs.append({"raw": mutate_text(ev["raw"], rng)})
            out.append(dict(case, events=evs))
        return out
