"""C20 — the IGD facade reaches whichever WAN service exists; totals and rates are sane.

Harness: builds a real UpnpDevice tree (UpnpFactory on rendered description/SCPD documents, scripted
requester), wraps it in the real IgdDevice and drives a history of operations / traffic samples with a
scripted clock.  Mirrors coq/theories/C20/Model.v 1:1 (step alphabet, observations)."""
from __future__ import annotations

import asyncio
import itertools
import json
from fractions import Fraction
from xml.sax.saxutils import escape

from harness import common as C

# ------------------------------------------------------------------------------------------------
# Standard vocabulary (the same short names are Definitions of coq/theories/C20/Spec.v)
URN = "urn:schemas-upnp-org:service:"
TYPES = {
    "IP1": URN + "WANIPConnection:1", "IP2": URN + "WANIPConnection:2", "PPP1": URN + "WANPPPConnection:1",
    "CIC1": URN + "WANCommonInterfaceConfig:1", "L3F1": URN + "Layer3Forwarding:1",
    # outside the five of the quantifier (malformed / distractor stream)
    "IP3": URN + "WANIPConnection:3", "ETH1": URN + "WANEthernetLinkConfig:1",
}
DEVS = {
    "IGD1": "urn:schemas-upnp-org:device:InternetGatewayDevice:1",
    "IGD2": "urn:schemas-upnp-org:device:InternetGatewayDevice:2",
    "WAND": "urn:schemas-upnp-org:device:WANDevice:1",
    "WANC": "urn:schemas-upnp-org:device:WANConnectionDevice:1",
    "WANC2": "urn:schemas-upnp-org:device:WANConnectionDevice:2",
    "LAND": "urn:schemas-upnp-org:device:LANDevice:1",
    "BASIC": "urn:schemas-upnp-org:device:Basic:1",
}

# action -> ([in (arg, type)], [out (arg, type)])
_PM_OUT = [("NewInternalPort", "ui2"), ("NewInternalClient", "string"), ("NewEnabled", "boolean"),
           ("NewPortMappingDescription", "string"), ("NewLeaseDuration", "ui4")]
_PM_KEY = [("NewRemoteHost", "string"), ("NewExternalPort", "ui2"), ("NewProtocol", "string")]
CONN_ACTIONS = {
    "SetConnectionType": ([("NewConnectionType", "string")], []),
    "GetConnectionTypeInfo": ([], [("NewConnectionType", "string"), ("NewPossibleConnectionTypes", "string")]),
    "RequestConnection": ([], []),
    "RequestTermination": ([], []),
    "ForceTermination": ([], []),
    "GetStatusInfo": ([], [("NewConnectionStatus", "string"), ("NewLastConnectionError", "string"), ("NewUptime", "ui4")]),
    "GetNATRSIPStatus": ([], [("NewRSIPAvailable", "boolean"), ("NewNATEnabled", "boolean")]),
    "GetGenericPortMappingEntry": ([("NewPortMappingIndex", "ui2")], _PM_KEY + _PM_OUT),
    "GetSpecificPortMappingEntry": (_PM_KEY, _PM_OUT),
    "AddPortMapping": (_PM_KEY + _PM_OUT, []),
    "DeletePortMapping": (_PM_KEY, []),
    "GetExternalIPAddress": ([], [("NewExternalIPAddress", "string")]),
    "GetPortMappingNumberOfEntries": ([], [("NewPortMappingNumberOfEntries", "ui2")]),
}
CIC_ACTIONS = {
    "SetEnabledForInternet": ([("NewEnabledForInternet", "boolean")], []),
    "GetEnabledForInternet": ([], [("NewEnabledForInternet", "boolean")]),
    "GetCommonLinkProperties": ([], [("NewWANAccessType", "string"), ("NewLayer1UpstreamMaxBitRate", "ui4"),
                                     ("NewLayer1DownstreamMaxBitRate", "ui4"), ("NewPhysicalLinkStatus", "string")]),
    "GetTotalBytesSent": ([], [("NewTotalBytesSent", "ui4")]),
    "GetTotalBytesReceived": ([], [("NewTotalBytesReceived", "ui4")]),
    "GetTotalPacketsSent": ([], [("NewTotalPacketsSent", "ui4")]),
    "GetTotalPacketsReceived": ([], [("NewTotalPacketsReceived", "ui4")]),
}
L3F_ACTIONS = {
    "SetDefaultConnectionService": ([("NewDefaultConnectionService", "string")], []),
    "GetDefaultConnectionService": ([], [("NewDefaultConnectionService", "string")]),
}
ALL_ACTIONS = {**CONN_ACTIONS, **CIC_ACTIONS, **L3F_ACTIONS}
STD_ACTIONS = {"IP1": CONN_ACTIONS, "IP2": CONN_ACTIONS, "PPP1": CONN_ACTIONS, "IP3": CONN_ACTIONS,
               "CIC1": CIC_ACTIONS, "L3F1": L3F_ACTIONS, "ETH1": {}}
ARG_TYPE = {a: t for ins, outs in ALL_ACTIONS.values() for a, t in ins + outs}
ARG_TYPE["NewPortMappingIndex"] = "ui2"

# operation id (constructor of Model.opid) -> (python method, action, takes `services`)
OPS = {
    "OTotalBytesReceived": ("async_get_total_bytes_received", "GetTotalBytesReceived", False),
    "OTotalBytesSent": ("async_get_total_bytes_sent", "GetTotalBytesSent", False),
    "OTotalPacketsReceived": ("async_get_total_packets_received", "GetTotalPacketsReceived", False),
    "OTotalPacketsSent": ("async_get_total_packets_sent", "GetTotalPacketsSent", False),
    "OGetEnabledForInternet": ("async_get_enabled_for_internet", "GetEnabledForInternet", False),
    "OSetEnabledForInternet": ("async_set_enabled_for_internet", "SetEnabledForInternet", False),
    "OCommonLinkProperties": ("async_get_common_link_properties", "GetCommonLinkProperties", False),
    "OExternalIp": ("async_get_external_ip_address", "GetExternalIPAddress", True),
    "OGenericPortMapping": ("async_get_generic_port_mapping_entry", "GetGenericPortMappingEntry", True),
    "OSpecificPortMapping": ("async_get_specific_port_mapping_entry", "GetSpecificPortMappingEntry", True),
    "OAddPortMapping": ("async_add_port_mapping", "AddPortMapping", True),
    "ODeletePortMapping": ("async_delete_port_mapping", "DeletePortMapping", True),
    "OConnectionTypeInfo": ("async_get_connection_type_info", "GetConnectionTypeInfo", True),
    "OSetConnectionType": ("async_set_connection_type", "SetConnectionType", True),
    "ORequestConnection": ("async_request_connection", "RequestConnection", True),
    "ORequestTermination": ("async_request_termination", "RequestTermination", True),
    "OForceTermination": ("async_force_termination", "ForceTermination", True),
    "OStatusInfo": ("async_get_status_info", "GetStatusInfo", True),
    "OPortMappingNumberOfEntries": ("async_get_port_mapping_number_of_entries", "GetPortMappingNumberOfEntries", True),
    "ONatRsipStatus": ("async_get_nat_rsip_status", "GetNATRSIPStatus", True),
    "OGetDefaultConnectionService": ("async_get_default_connection_service", "GetDefaultConnectionService", False),
    "OSetDefaultConnectionService": ("async_set_default_connection_service", "SetDefaultConnectionService", False),
}
SAMPLE_ACTIONS = ["GetTotalBytesReceived", "GetTotalBytesSent", "GetTotalPacketsReceived", "GetTotalPacketsSent",
                  "GetStatusInfo", "GetExternalIPAddress"]
ALIASES = ["WANPPPC", "WANIPC", "WANCIC", "L3FWD"]

# exception classes that a response script can provoke (resp = ["raise", cls])
TRANSPORT = ["UpnpConnectionError", "UpnpConnectionTimeoutError", "UpnpCommunicationError", "TimeoutError", "RuntimeError"]
PROTOCOL = ["UpnpActionResponseError", "UpnpActionError", "UpnpResponseError", "UpnpXmlParseError", "UpnpError"]
EXN_NAMES = TRANSPORT + PROTOCOL + ["ValueError", "KeyError", "TypeError", "OverflowError", "ZeroDivisionError",
                                    "AddressValueError", "UpnpValueError"]



# ------------------------------------------------------------------------------------------------
# rendering of the gateway
def _scpd(type_id, actions):
    std = STD_ACTIONS[type_id]
    acts, svars = [], {}
    for a in actions:
        ins, outs = std.get(a) or ALL_ACTIONS.get(a) or ([], [])
        args = []
        for (n, t), d in [(x, "in") for x in ins] + [(x, "out") for x in outs]:
            sv = "V_" + n
            svars[sv] = t
            args.append(f"<argument><name>{n}</name><direction>{d}</direction>"
                        f"<relatedStateVariable>{sv}</relatedStateVariable></argument>")
        acts.append(f"<action><name>{a}</name><argumentList>{''.join(args)}</argumentList></action>")
    svs = "".join(f'<stateVariable sendEvents="no"><name>{n}</name><dataType>{t}</dataType></stateVariable>'
                  for n, t in svars.items())
    return ('<?xml version="1.0"?><scpd xmlns="urn:schemas-upnp-org:service-1-0"><specVersion><major>1</major>'
            f"<minor>0</minor></specVersion><actionList>{''.join(acts)}</actionList>"
            f"<serviceStateTable>{svs}</serviceStateTable></scpd>")


def _render(devices, share=False):
    """devices: preorder list of {depth, type, services:[{type,url,actions}]} -> (description xml, {scpd url: xml}).
    share: services whose SCPD documents are identical name ONE SCPD URL (gateways do that for WANIPConnection /
    WANPPPConnection); which service an operation reaches must not depend on it."""
    scpds = {}
    by_text = {}
    counter = itertools.count()

    def dev_xml(i):
        d = devices[i]
        svc = []
        for s in d["services"]:
            k = next(counter)
            text = _scpd(s["type"], s["actions"])
            ku = by_text.setdefault(text, k) if share else k
            scpds[f"http://gw:1900/scpd{ku}.xml"] = text
            svc.append(f"<service><serviceType>{TYPES.get(s['type'], s['type'])}</serviceType>"
                       f"<serviceId>urn:upnp-org:serviceId:S{k}</serviceId><SCPDURL>/scpd{ku}.xml</SCPDURL>"
                       f"<controlURL>/ctl/{s['url']}</controlURL><eventSubURL>/evt/{s['url']}</eventSubURL></service>")
        kids = []
        j = i + 1
        while j < len(devices) and devices[j]["depth"] > d["depth"]:
            if devices[j]["depth"] == d["depth"] + 1:
                kids.append(dev_xml(j))
            j += 1
        return (f"<device><deviceType>{DEVS.get(d['type'], d['type'])}</deviceType><friendlyName>dev{i}</friendlyName>"
                f"<manufacturer>verif</manufacturer><modelName>m</modelName><UDN>uuid:0000-{i}</UDN>"
                f"<serviceList>{''.join(svc)}</serviceList><deviceList>{''.join(kids)}</deviceList></device>")

    desc = ('<?xml version="1.0"?><root xmlns="urn:schemas-upnp-org:device-1-0"><specVersion><major>1</major>'
            f"<minor>0</minor></specVersion>{dev_xml(0)}</root>")
    return desc, scpds


def well_formed(devices):
    """the shape the harness can render faithfully: a tree in preorder rooted at depth 0, sibling device types
    distinct, service types distinct per device (UpnpDevice keys both by type)"""
    if not devices or devices[0]["depth"] != 0:
        return False
    stack = []  # (depth, set of child types)
    for i, d in enumerate(devices):
        if i > 0 and not (1 <= d["depth"] <= devices[i - 1]["depth"] + 1):
            return False
        while stack and stack[-1][0] >= d["depth"]:
            stack.pop()
        if stack:
            if d["type"] in stack[-1][1]:
                return False
            stack[-1][1].add(d["type"])
        stack.append((d["depth"], set()))
        tys = [s["type"] for s in d["services"]]
        if len(set(tys)) != len(tys):
            return False
    return True


_SOAP = ('<?xml version="1.0"?><s:Envelope s:encodingStyle="http://schemas.xmlsoap.org/soap/encoding/" '
         'xmlns:s="http://schemas.xmlsoap.org/soap/envelope/"><s:Body>{}</s:Body></s:Envelope>')
_FAULT = ('<s:Fault><faultcode>s:Client</faultcode><faultstring>UPnPError</faultstring><detail>'
          '<UPnPError xmlns="urn:schemas-upnp-org:control-1-0"><errorCode>501</errorCode>'
          '<errorDescription>Action Failed</errorDescription></UPnPError></detail></s:Fault>')


def _val_text(v):
    k, x = v
    if k == "i":
        return str(x)
    if k == "b":
        return "1" if x else "0"
    return escape(x)


class _Gateway:
    """scripted requester: serves the description documents, records every control request, answers from `script`"""

    def __init__(self, desc, scpds, clock=None):
        self.docs = {"http://gw:1900/desc.xml": desc, **scpds}
        self.log = []
        self.script = {}     # action name -> resp
        self.clock = clock   # the scripted clock ticks 1 us per control request (time passes while gathering)

    async def async_http_request(self, method, url, headers=None, body=None):
        from async_upnp_client import exceptions as E
        if method == "GET":
            return 200, {}, self.docs[url]
        soap_action = (headers or {}).get("SOAPAction", "").strip('"')
        service_type, _, action = soap_action.partition("#")
        self.log.append((url, action, service_type))
        if self.clock is not None:
            self.clock["t"] += 1
        resp = self.script.get(action, ["raise", "UpnpConnectionError"])
        await asyncio.sleep(0)
        if resp[0] == "ok":
            args = "".join(f"<{n}>{_val_text(v)}</{n}>" for n, v in resp[1])
            return 200, {}, _SOAP.format(f'<u:{action}Response xmlns:u="{service_type}">{args}</u:{action}Response>')
        cls = resp[1]
        if cls == "UpnpActionResponseError":
            return 500, {}, _SOAP.format(_FAULT)
        if cls == "UpnpActionError":
            return 200, {}, _SOAP.format(_FAULT)
        if cls == "UpnpResponseError":
            return 500, {}, "Internal Server Error"
        if cls == "UpnpXmlParseError":
            return 200, {}, "<s:Envelope><unclosed>"
        if cls == "UpnpError":
            return 200, {}, _SOAP.format("<other/>")
        if cls == "ValueError":
            # a numeric out-argument that is not a number (cf. tests: NewUptime '0 Days, 01:00:00')
            _, outs = ALL_ACTIONS[action]
            num = [n for n, t in outs if t in ("ui2", "ui4")]
            if not num:
                raise AssertionError("harness: ValueError not provokable for " + action)
            args = "".join(f"<{n}>{'0 Days, 01:00:00' if n == num[-1] else ('x' if t == 'string' else '1')}</{n}>"
                           for n, t in outs)
            return 200, {}, _SOAP.format(f'<u:{action}Response xmlns:u="{service_type}">{args}</u:{action}Response>')
        if cls in ("UpnpConnectionError", "UpnpConnectionTimeoutError", "UpnpCommunicationError"):
            raise getattr(E, cls)("scripted")
        if cls == "TimeoutError":
            raise asyncio.TimeoutError()
        if cls == "RuntimeError":
            raise RuntimeError("scripted")
        raise AssertionError("harness: cannot provoke " + cls)


def can_provoke(cls, action):
    if cls == "ValueError":
        return any(t in ("ui2", "ui4") for _, t in ALL_ACTIONS[action][1])
    return cls in TRANSPORT + PROTOCOL


# ------------------------------------------------------------------------------------------------
def _tval(x):
    """canonical typed value of an operation result"""
    from datetime import timedelta
    from ipaddress import IPv4Address
    if x is None:
        return ["none"]
    if isinstance(x, bool):
        return ["b", x]
    if isinstance(x, int):
        return ["i", x]
    if isinstance(x, str):
        return ["s", x]
    if isinstance(x, IPv4Address):
        return ["ip", x.exploded]
    if isinstance(x, timedelta):
        return ["td", x.days * 86400 + x.seconds] if x.microseconds == 0 else ["other", "timedelta-us"]
    if isinstance(x, BaseException):
        return ["exc", type(x).__name__]
    if isinstance(x, tuple) and hasattr(x, "_fields"):
        fs = [_tval(f) for f in x]
        if all(f[0] in ("none", "b", "i", "s", "ip", "td") for f in fs):
            return ["tup", type(x).__name__, fs]
    return ["other", type(x).__name__]


def _rate(x):
    if x is None:
        return None
    if isinstance(x, bool) or not isinstance(x, (int, float)):
        return "other"
    if x != x or x in (float("inf"), float("-inf")):
        return "other"
    fr = Fraction(x)
    return [fr.numerator, fr.denominator]


def runtime_table(flip=False):
    from async_upnp_client.profiles.igd import IgdDevice
    tbl = [(a, list(tys)) for a, tys in IgdDevice._SERVICE_TYPES.items()]
    if flip:
        tbl = [(a, list(reversed(tys))) for a, tys in tbl]
    return tbl


class Plugin:
    ID = "C20"
    RUN_MODULE = "C20.Run"
    GEN = ["Igd"]
    CLAUSES = {1: "routing", 2: "not_available_only_if_none", 3: "typed_results", 4: "totals_nonneg",
               5: "rate_exact", 6: "failures_isolated"}
    SHARD = 120
    SEARCH_CASES = 1500
    RULE = ("histories over one IgdDevice: gateway configuration (device tree in preorder, services with action "
            "subsets, set order of the alias table) x steps (single operations with scripted responses, traffic "
            "samples with a scripted clock and six scripted readings); non-trivial = at least one request was "
            "routed and one step returned a value; distinct = distinct (case, observation)")
    TRUSTED = [
        "Coq 8.16.1 kernel + vm_compute (no native_compute)",
        "tools/gen/igd.py (AST reader of profiles/igd.py: alias table, per-operation default aliases and action, "
        "counter offset constant, KiB divisor, gather list, ValueError subclass table by run-time introspection)",
        "harness/c20.py: renders description/SCPD documents, scripted requester and clock, canonicalises results "
        "(exceptions -> class name, floats -> exact fractions compared with relative tolerance 2^-50 inside Coq)",
        "below the facade (trusted, exercised, not modelled): UpnpFactory/UpnpDevice construction, "
        "UpnpAction.async_call SOAP encoding/decoding (C06/C07), expat, ipaddress.IPv4Address on the strings the "
        "generators use (modelled as dotted-quad syntax), IEEE-754 double arithmetic of the rate (3 roundings)",
        "asyncio.gather(return_exceptions=True) semantics: every awaitable's result or exception, in order",
    ]
    ASSUMPTIONS = [
        "reading: 'configuration' = device tree below the first InternetGatewayDevice; each service type offered "
        "at most once in that tree (subsets of the five types), each service with any subset of actions",
        "reading: elapsed time between samples > 0 (scripted clock strictly increasing); readings >= -2^31",
        "responses are well typed for the standard SCPDs (the client layer coerces by SCPD type)",
    ]
    last_exhaustive = False

    def __init__(self):
        self._tbls = None

    # ------------------------------------------------------------------ Coq header (per shard)
    @property
    def HEADER(self):
        nat, rev = runtime_table(False), runtime_table(True)

        def tbl(t):
            return C.c_list((f"({self._s(a)}, {C.c_list((self._s(x) for x in tys), 'pystr')})" for a, tys in t),
                            "(pystr * list pystr)")
        return (f"Definition rt_nat : list (pystr * list pystr) := {tbl(nat)}.\n"
                f"Definition rt_rev : list (pystr * list pystr) := {tbl(rev)}.\n")

    # ------------------------------------------------------------------ implementation
    def run_impl(self, case):
        return asyncio.run(self._run(case))

    async def _run(self, case):
        import datetime as _dt
        from unittest.mock import patch

        from async_upnp_client.client_factory import UpnpFactory
        from async_upnp_client.profiles import igd as igd_mod

        devices = case["devices"]
        if not well_formed(devices):
            raise AssertionError("harness: configuration not renderable")
        # every second configuration lets identical SCPD documents share one URL (decided by the case, reproducibly)
        desc, scpds = _render(devices, share=(len(json.dumps(devices)) + case["t0"]) % 2 == 0)
        clock = {"t": case["t0"]}
        gw = _Gateway(desc, scpds, clock)
        device = await UpnpFactory(gw).async_create_device("http://gw:1900/desc.xml")
        real_dt = _dt.datetime

        class FakeDT(real_dt):
            @classmethod
            def now(cls, tz=None):
                x = real_dt(2020, 1, 1) + _dt.timedelta(microseconds=clock["t"])
                return cls(x.year, x.month, x.day, x.hour, x.minute, x.second, x.microsecond)

        def us(d):
            delta = d - real_dt(2020, 1, 1)
            return (delta.days * 86400 + delta.seconds) * 1_000_000 + delta.microseconds

        tbl = dict((a, tuple(tys)) for a, tys in runtime_table(case.get("flip", False)))
        obs = {"init": None, "steps": []}
        with patch.object(igd_mod, "datetime", FakeDT), patch.object(igd_mod.IgdDevice, "_SERVICE_TYPES", tbl):
            try:
                prof = igd_mod.IgdDevice(device, None)
            except Exception as e:  # noqa: BLE001 - the class is the observation
                obs["init"] = type(e).__name__
                return obs
            for step in case["steps"]:
                gw.log.clear()
                if step[0] == "call":
                    _, op, override, args, resp = step
                    meth, action, takes = OPS[op]
                    gw.script = {action: resp}
                    kw = self._kwargs(op, args)
                    if takes and override is not None:
                        kw["services"] = list(override)
                    try:
                        out = ["ret", _tval(await getattr(prof, meth)(**kw))]
                    except Exception as e:  # noqa: BLE001
                        out = ["raise", type(e).__name__]
                else:
                    _, t, resps = step
                    clock["t"] = t
                    gw.script = dict(zip(SAMPLE_ACTIONS, resps))
                    try:
                        st = await prof.async_get_traffic_and_status_data()
                        slots = [_tval(x) for x in (st.bytes_received, st.bytes_sent, st.packets_received,
                                                    st.packets_sent, st.status_info, st.external_ip_address)]
                        rates = [_rate(x) for x in (st.kibibytes_per_sec_received, st.kibibytes_per_sec_sent,
                                                    st.packets_per_sec_received, st.packets_per_sec_sent)]
                        out = ["state", us(st.timestamp), slots, rates]
                    except Exception as e:  # noqa: BLE001
                        out = ["raise", type(e).__name__]
                reqs = sorted([self._url_id(u), a] for (u, a, _) in gw.log)
                obs["steps"].append({"req": reqs, "out": out})
        return obs

    @staticmethod
    def _url_id(u):
        # control URL -> the integer the configuration gave it; anything else is reported as 999999
        pre = "http://gw:1900/ctl/"
        return int(u[len(pre):]) if u.startswith(pre) and u[len(pre):].isdigit() else 999999

    @staticmethod
    def _kwargs(op, args):
        from datetime import timedelta
        from ipaddress import IPv4Address
        host = IPv4Address(args["host"]) if args.get("host") else None
        port, proto = args.get("port", 80), args.get("proto", "TCP")
        if op == "OSetEnabledForInternet":
            return {"enabled": True}
        if op == "OGenericPortMapping":
            return {"port_mapping_index": 0}
        if op == "OSpecificPortMapping":
            return {"remote_host": host, "external_port": port, "protocol": proto}
        if op == "OAddPortMapping":
            return {"remote_host": host or IPv4Address("0.0.0.0"), "external_port": port, "protocol": proto,
                    "internal_port": 8080, "internal_client": IPv4Address("192.168.1.9"), "enabled": True,
                    "description": "verif", "lease_duration": timedelta(seconds=3600)}
        if op == "ODeletePortMapping":
            return {"remote_host": host or IPv4Address("0.0.0.0"), "external_port": port, "protocol": proto}
        if op == "OSetConnectionType":
            return {"connection_type": "IP_Routed"}
        if op == "OSetDefaultConnectionService":
            return {"service": "uuid:0000-2:WANConnectionDevice:1,urn:upnp-org:serviceId:S1"}
        return {}

    # ------------------------------------------------------------------ printers
    _KNOWN = None

    def _s(self, s):
        """pystr term: a Definition of Spec.v for the standard vocabulary, a literal otherwise"""
        if Plugin._KNOWN is None:
            k = {}
            for n, v in TYPES.items():
                if n in ("IP1", "IP2", "PPP1", "CIC1", "L3F1"):
                    k[v] = "t_" + n
            for n in ("IGD1", "IGD2", "WAND", "WANC"):
                k[DEVS[n]] = "d_" + n
            for a in ALL_ACTIONS:
                k[a] = "a_" + a
            for a in ALIASES:
                k[a] = "al_" + a
            for a in ARG_TYPE:
                k[a] = "k_" + a
            for e in EXN_NAMES:
                k[e] = "e_" + e
            for n in ("CommonLinkProperties", "ConnectionTypeInfo", "StatusInfo", "NatRsipStatusInfo", "PortMappingEntry"):
                k[n] = "n_" + n
            Plugin._KNOWN = k
        return Plugin._KNOWN.get(s) or C.c_str(s)

    def _aval(self, v):
        k, x = v
        if k == "i":
            return f"AInt {C.c_Z(x)}"
        if k == "b":
            return f"ABool {C.c_bool(x)}"
        return f"AStr {C.c_str(x)}"

    def _resp(self, r):
        if r[0] == "ok":
            return "ROk " + C.c_list((f"({self._s(n)}, {self._aval(v)})" for n, v in r[1]), "(pystr * aval)")
        return f"RRaise {self._s(r[1])}"

    def _fval(self, v):
        k = v[0]
        if k == "none":
            return "FNone"
        if k == "i":
            return f"FInt {C.c_Z(v[1])}"
        if k == "b":
            return f"FBool {C.c_bool(v[1])}"
        if k == "s":
            return f"FStr {C.c_str(v[1])}"
        if k == "ip":
            return f"FIp {C.c_str(v[1])}"
        if k == "td":
            return f"FDelta {C.c_Z(v[1])}"
        raise AssertionError(v)

    def _tv(self, v):
        k = v[0]
        if k == "tup":
            return f"TTuple {self._s(v[1])} {C.c_list((f'({self._fval(f)})' for f in v[2]), 'fval')}"
        if k == "exc":
            return f"TExc {self._s(v[1])}"
        if k == "other":
            return "TOther"
        return f"TF ({self._fval(v)})"

    def _step(self, st):
        if st[0] == "call":
            _, op, override, args, resp = st
            ov = "(@None (list pystr))" if override is None else "(Some " + C.c_list((self._s(a) for a in override), "pystr") + ")"
            host = C.c_opt(args.get("host"), C.c_str, "pystr")
            a = f"(mkArgs {host} {C.c_Z(args.get('port', 80))} {C.c_str(args.get('proto', 'TCP'))})"
            return f"Call {op} {ov} {a} ({self._resp(resp)})"
        _, t, resps = st
        return f"Sample {C.c_Z(t)} " + C.c_list((f"({self._resp(r)})" for r in resps), "resp")

    def _sobs(self, o):
        reqs = C.c_list((f"({C.c_N(u)}, {self._s(a)})" for u, a in o["req"]), "(N * pystr)")
        out = o["out"]
        if out[0] == "ret":
            oc = f"Ret ({self._tv(out[1])})"
        elif out[0] == "raise":
            oc = f"Raised {self._s(out[1])}"
        else:
            rates = []
            for r in out[3]:
                if r is None:
                    rates.append("RNone")
                elif r == "other":
                    rates.append("ROther")
                else:
                    rates.append(f"RSome ({r[0]})%Z {r[1]}%positive")
            oc = (f"State {C.c_Z(out[1])} {C.c_list((f'({self._tv(s)})' for s in out[2]), 'tval')} "
                  f"{C.c_list(rates, 'orate')}")
        return f"({reqs}, {oc})"

    def to_coq(self, case, obs):
        devs = C.c_list(
            (f"mkDevice {C.c_nat(d['depth'])} {self._s(DEVS.get(d['type'], d['type']))} " +
             C.c_list((f"mkService {self._s(TYPES.get(s['type'], s['type']))} {C.c_N(s['url'])} "
                       f"{C.c_list((self._s(a) for a in s['actions']), 'pystr')}" for s in d["services"]), "service")
             for d in case["devices"]), "device")
        steps = C.c_list((f"({self._step(s)})" for s in case["steps"]), "step")
        tbl = "rt_rev" if case.get("flip") else "rt_nat"
        inp = f"mkInput {tbl} {devs} {C.c_Z(case['t0'])} {steps}"
        init = "(@None exn)" if obs["init"] is None else f"(Some {self._s(obs['init'])})"
        ob = f"({init}, {C.c_list((self._sobs(o) for o in obs['steps']), 'sobs')})"
        return f"({inp}, ({ob} : observation))"

    # ------------------------------------------------------------------ generation
    def corpus(self):
        import json
        out = []
        d = C.VERIF / "corpus" / "C20"
        if d.is_dir():
            for p in sorted(d.glob("*.json")):
                data = json.loads(p.read_text())
                out.append(data["case"] if "case" in data else data)
        return out

    # -- configurations
    @staticmethod
    def _svc(t, url, actions=None, drop=()):
        acts = list(STD_ACTIONS[t]) if actions is None else list(actions)
        return {"type": t, "url": url, "actions": [a for a in acts if a not in drop]}

    def config_from_subset(self, subset, placement, igd="IGD1", drop=None):
        """subset: iterable of the five type ids; placement: dict type id -> 0 (root) / 1 (WANDevice) /
        2 (WANConnectionDevice); standard action lists minus `drop` {type: [actions]}"""
        drop = drop or {}
        devs = [{"depth": 0, "type": igd, "services": []}, {"depth": 1, "type": "WAND", "services": []},
                {"depth": 2, "type": "WANC", "services": []}]
        for n, t in enumerate(subset):
            devs[placement.get(t, 0)]["services"].append(self._svc(t, 10 + n, drop=drop.get(t, ())))
        return devs

    def _rand_config(self, rng, malformed=False):
        five = ["IP1", "IP2", "PPP1", "CIC1", "L3F1"]
        subset = [t for t in five if rng.random() < rng.choice([0.35, 0.6, 0.85])]
        rng.shuffle(subset)
        placement = {t: rng.choice([0, 1, 2, 2]) if t != "L3F1" else rng.choice([0, 0, 1, 2]) for t in subset}
        drop = {}
        if rng.random() < 0.45:
            for t in subset:
                if rng.random() < 0.5:
                    k = rng.choice([1, 1, 2, 4])
                    drop[t] = rng.sample(list(STD_ACTIONS[t]), min(k, len(STD_ACTIONS[t])))
        devs = self.config_from_subset(subset, placement, igd=rng.choice(["IGD1", "IGD1", "IGD2"]), drop=drop)
        r = rng.random()
        if r < 0.12:
            # IGD embedded below a non-IGD root that offers look-alike services of its own
            outer = {"depth": 0, "type": "BASIC", "services": []}
            if rng.random() < 0.6:
                t = rng.choice(five)
                outer["services"].append(self._svc(t, 90))
            for d in devs:
                d["depth"] += 1
            devs = [outer] + devs
            if rng.random() < 0.5:
                t = rng.choice(five)
                devs.append({"depth": 1, "type": "LAND", "services": [self._svc(t, 91)]})
        elif r < 0.18:
            # a sibling sub-device after the WAN device
            devs.append({"depth": 1, "type": "LAND", "services": [self._svc("ETH1", 92, actions=[])]})
        if malformed:
            r = rng.random()
            if r < 0.25:
                devs[0]["type"] = rng.choice(["BASIC", "WAND"])          # no IGD anywhere -> constructor raises
            elif r < 0.6:
                # the same service type twice in the gateway tree (outside the reading `unique types`)
                t = rng.choice(five)
                where = rng.choice([d for d in devs if not any(s["type"] == t for s in d["services"])] or [None])
                if where is not None:
                    acts = rng.sample(list(STD_ACTIONS[t]), rng.randint(0, len(STD_ACTIONS[t])))
                    where["services"].append(self._svc(t, 70, actions=acts))
            else:
                # unknown versions / foreign services only
                t = rng.choice(["IP3", "ETH1"])
                free = [d for d in devs if not any(s["type"] == t for s in d["services"])]
                if free:
                    rng.choice(free)["services"].append(self._svc(t, 71))
        return devs

    # -- responses
    def _good_val(self, rng, arg, op=None):
        t = ARG_TYPE[arg]
        if t == "boolean":
            return ["b", rng.random() < 0.5]
        if t in ("ui2", "ui4"):
            if arg == "NewLeaseDuration":
                return ["i", rng.choice([0, 0, 1, 3600, 86400, 604800, 4294967295])]
            return ["i", rng.choice([0, 1, 80, 8080, 65535, rng.randrange(0, 70000)])]
        if arg in ("NewRemoteHost",):
            return ["s", rng.choice(["", "", "10.0.0.7", "203.0.113.9", "0.0.0.0"])]
        if arg in ("NewInternalClient",):
            return ["s", rng.choice(["192.168.1.2", "10.1.2.3", "172.16.254.1"])]
        if arg == "NewExternalIPAddress":
            return ["s", rng.choice(["198.51.100.7", "", "2001:db8::1", "10.0.0.1"])]
        if arg == "NewProtocol":
            return ["s", rng.choice(["TCP", "UDP"])]
        return ["s", rng.choice(["Connected", "ERROR_NONE", "IP_Routed", "Up", "Ethernet", "x<&>y", "ünï", ""])]

    def _ok_resp(self, rng, action, malformed=False):
        outs = ALL_ACTIONS[action][1]
        args = [[n, self._good_val(rng, n)] for n, _ in outs]
        if malformed and args:
            r = rng.random()
            if r < 0.4:
                args.pop(rng.randrange(len(args)))                      # a missing out-argument
            elif r < 0.7:
                special = [j for j, a in enumerate(args) if a[0] in ("NewRemoteHost", "NewInternalClient", "NewLeaseDuration")]
                i = rng.choice(special) if special and rng.random() < 0.7 else rng.randrange(len(args))
                n = args[i][0]
                if n in ("NewRemoteHost", "NewInternalClient"):
                    args[i][1] = ["s", rng.choice(["999.1.1.1", "01.2.3.4", "host.example", "1.2.3", "1.2.3.4/8"])]
                elif ARG_TYPE[n] in ("ui2", "ui4"):
                    args[i][1] = ["i", rng.choice([-1, -2**31, 2**32, 10**15, 86399999999999, 86400000000000, -86399999913601])]
            else:
                args = []
        return ["ok", args]

    def _fail_resp(self, rng, action, kinds=None):
        kinds = [k for k in (kinds or TRANSPORT + PROTOCOL + ["ValueError"]) if can_provoke(k, action)]
        return ["raise", rng.choice(kinds)]

    def _resp_for(self, rng, action, malformed=False):
        r = rng.random()
        if r < (0.55 if malformed else 0.8):
            return self._ok_resp(rng, action, malformed=malformed and rng.random() < 0.6)
        return self._fail_resp(rng, action)

    # -- reading series
    READ_KINDS = ["inc", "inc", "inc", "eq", "wrap", "neg", "fault", "transport", "empty", "bad"]

    def _reading(self, rng, kind, cur, arg, action):
        """-> (resp, new raw counter)"""
        if kind == "inc":
            cur = cur + rng.choice([1, 7, 1024, 1500, 65536, 10**6, 123456789])
        elif kind == "wrap":
            cur = rng.choice([0, 5, max(0, cur // 1000)]) if cur >= 0 else cur - rng.choice([1, 1000])
        elif kind == "neg":
            cur = rng.choice([-1, -2**31, -531985522, -2**31 + 17, -(2**31) + cur % 1000])
        elif kind == "fault":
            return self._fail_resp(rng, action, ["UpnpActionResponseError", "UpnpActionError", "UpnpResponseError"]), cur
        elif kind == "transport":
            return self._fail_resp(rng, action, TRANSPORT), cur
        elif kind == "empty":
            return ["ok", []], cur
        elif kind == "bad":
            return ["raise", "ValueError"], cur
        return ["ok", [[arg, ["i", cur]]]], cur

    def _status_resp(self, rng):
        r = rng.random()
        if r < 0.7:
            return ["ok", [["NewConnectionStatus", ["s", rng.choice(["Connected", "Disconnected"])]],
                           ["NewLastConnectionError", ["s", "ERROR_NONE"]], ["NewUptime", ["i", rng.randrange(0, 10**6)]]]]
        if r < 0.8:
            return ["raise", "ValueError"]
        if r < 0.86:
            return ["ok", [["NewConnectionStatus", ["s", "Connected"]]]]
        return self._fail_resp(rng, "GetStatusInfo", TRANSPORT + PROTOCOL)

    def _ip_resp(self, rng):
        r = rng.random()
        if r < 0.75:
            return ["ok", [["NewExternalIPAddress", ["s", rng.choice(["198.51.100.7", "10.0.0.1", ""])]]]]
        if r < 0.82:
            return ["ok", []]
        return self._fail_resp(rng, "GetExternalIPAddress", TRANSPORT + PROTOCOL)

    COUNTER_ARGS = ["NewTotalBytesReceived", "NewTotalBytesSent", "NewTotalPacketsReceived", "NewTotalPacketsSent"]

    def _series_case(self, rng, devices, kinds_per_counter, t0=None, dts=None, flip=False, interleave=False):
        """kinds_per_counter: 4 lists of equal length n (the reading kinds of each counter)"""
        n = len(kinds_per_counter[0])
        t0 = rng.randrange(0, 10**9) if t0 is None else t0
        cur = [rng.choice([0, 1000, 2**31 - 2000, 2**32 - 5000, 10**6]) for _ in range(4)]
        t = t0
        steps = []
        for k in range(n):
            t += dts[k] if dts else rng.choice([1, 1000, 10**6, 5 * 10**6, 30 * 10**6, 3600 * 10**6, 333333, 7])
            resps = []
            for c in range(4):
                r, cur[c] = self._reading(rng, kinds_per_counter[c][k], cur[c], self.COUNTER_ARGS[c], SAMPLE_ACTIONS[c])
                resps.append(r)
            resps += [self._status_resp(rng), self._ip_resp(rng)]
            if interleave and rng.random() < 0.35:
                c = rng.randrange(4)
                op = ["OTotalBytesReceived", "OTotalBytesSent", "OTotalPacketsReceived", "OTotalPacketsSent"][c]
                r, cur[c] = self._reading(rng, rng.choice(self.READ_KINDS), cur[c], self.COUNTER_ARGS[c], SAMPLE_ACTIONS[c])
                steps.append(["call", op, None, {}, r])
            steps.append(["sample", t, resps])
        return {"flip": flip, "t0": t0, "devices": devices, "steps": steps}

    def _traffic_config(self, rng):
        r = rng.random()
        if r < 0.7:
            subset = ["L3F1", "CIC1", rng.choice(["IP1", "IP2", "PPP1"])]
        elif r < 0.8:
            subset = ["CIC1"]
        elif r < 0.9:
            subset = [rng.choice(["IP1", "PPP1"])]
        else:
            return self._rand_config(rng)
        drop = {}
        if rng.random() < 0.2:
            drop["CIC1"] = rng.sample(SAMPLE_ACTIONS[:4], rng.randint(1, 2))
        return self.config_from_subset(subset, {"CIC1": 1, "IP1": 2, "IP2": 2, "PPP1": 2}, drop=drop)

    def _call_step(self, rng, op, malformed=False, override_p=0.15):
        meth, action, takes = OPS[op]
        override = None
        if takes and rng.random() < override_p:
            override = rng.choice([["WANPPPC"], ["WANIPC"], ["WANPPPC", "WANIPC"], ["WANIPC", "WANPPPC"], [],
                                   ["WANPPP"], ["WANCIC"], ["L3FWD", "WANIPC"], ["NOPE"]])
        args = {}
        if op in ("OSpecificPortMapping", "OAddPortMapping", "ODeletePortMapping"):
            args = {"host": rng.choice([None, "203.0.113.9", "10.0.0.7"]), "port": rng.choice([80, 443, 65535, 1]),
                    "proto": rng.choice(["TCP", "UDP"])}
        return ["call", op, override, args, self._resp_for(rng, action, malformed)]

    def _routing_cases_exhaustive(self, rng, full):
        """all 32 subsets x all operations (one history per subset: every operation once), over two placements
        and both set orders; with `full` additionally every single-action omission on the connection services"""
        five = ["IP1", "IP2", "PPP1", "CIC1", "L3F1"]
        cases = []
        placements = [{"IP1": 2, "IP2": 2, "PPP1": 2, "CIC1": 1, "L3F1": 0}, {t: 0 for t in five}]
        if full:
            placements.append({"IP1": 1, "IP2": 2, "PPP1": 0, "CIC1": 2, "L3F1": 1})
        for mask in range(32):
            subset = [t for i, t in enumerate(five) if mask >> i & 1]
            for pi, pl in enumerate(placements):
                for flip in (False, True):
                    if flip and not ("IP1" in subset and "IP2" in subset) and pi > 0:
                        continue
                    devs = self.config_from_subset(subset, pl)
                    steps = [self._call_step(rng, op, override_p=0.0) for op in OPS]
                    cases.append({"flip": flip, "t0": 0, "devices": devs, "steps": steps})
        if full:
            for t_missing in ("IP1", "IP2", "PPP1"):
                for a in CONN_ACTIONS:
                    for others in ([], ["IP1"], ["IP2"], ["PPP1"], ["IP1", "IP2"], ["IP2", "PPP1"]):
                        if t_missing in others:
                            continue
                        subset = [t_missing] + others
                        op = next(o for o, (_, act, _) in OPS.items() if act == a)
                        for flip in (False, True):
                            devs = self.config_from_subset(subset, placements[0], drop={t_missing: [a]})
                            cases.append({"flip": flip, "t0": 0, "devices": devs,
                                          "steps": [self._call_step(rng, op, override_p=0.0)]})
        return cases

    def _series_exhaustive(self, rng, maxlen):
        """every reading series of length 1..maxlen over the six kinds for the first counter (the others follow a
        rotated copy so that all four see every kind)"""
        six = ["inc", "eq", "wrap", "neg", "fault", "transport"]
        cases = []
        devs = self.config_from_subset(["L3F1", "CIC1", "IP1"], {"CIC1": 1, "IP1": 2})
        for n in range(1, maxlen + 1):
            for ks in itertools.product(six, repeat=n):
                per = [list(ks)] + [[six[(six.index(k) + s) % 6] for k in ks] for s in (1, 2, 3)]
                cases.append(self._series_case(rng, devs, per))
        return cases

    def generate(self, rng, tier):
        thorough = tier == "thorough"
        cases = []
        cases += self._routing_cases_exhaustive(rng, full=thorough)
        ser = self._series_exhaustive(rng, 5 if thorough else 3)
        if thorough:
            # length 6: a seeded sample of the 6^6 series (lengths 1..5 are complete)
            six = ["inc", "eq", "wrap", "neg", "fault", "transport"]
            devs = self.config_from_subset(["L3F1", "CIC1", "PPP1"], {"CIC1": 1, "PPP1": 2})
            for _ in range(3000):
                per = [[rng.choice(six) for _ in range(6)] for _ in range(4)]
                ser.append(self._series_case(rng, devs, per, flip=rng.random() < 0.5))
            self.last_exhaustive = True
        cases += ser
        n_rand = 3000 if thorough else 260
        for i in range(n_rand):
            malformed = (i % 5 == 4)
            r = rng.random()
            if r < 0.45:
                devs = self._rand_config(rng, malformed=malformed)
                steps = [self._call_step(rng, rng.choice(list(OPS)), malformed=malformed) for _ in range(rng.randint(1, 8))]
                cases.append({"flip": rng.random() < 0.5, "t0": 0, "devices": devs, "steps": steps})
            elif r < 0.9:
                devs = self._traffic_config(rng) if not malformed else self._rand_config(rng, malformed=True)
                n = rng.randint(1, 6)
                per = [[rng.choice(self.READ_KINDS) for _ in range(n)] for _ in range(4)]
                dts = None
                if malformed and rng.random() < 0.5:
                    dts = [rng.choice([0, 0, -5, 1, 10**6]) for _ in range(n)]     # clock stalls / steps back
                cases.append(self._series_case(rng, devs, per, dts=dts, flip=rng.random() < 0.5, interleave=True))
            else:
                # mixed history on a random configuration
                devs = self._rand_config(rng, malformed=malformed)
                c = self._series_case(rng, devs, [[rng.choice(self.READ_KINDS) for _ in range(3)] for _ in range(4)],
                                      flip=rng.random() < 0.5, interleave=True)
                for _ in range(rng.randint(1, 4)):
                    c["steps"].insert(rng.randrange(len(c["steps"]) + 1),
                                      self._call_step(rng, rng.choice(list(OPS)), malformed=malformed))
                cases.append(c)
        return cases

    def mutate_case(self, case, rng):
        out = []
        for _ in range(6):
            c = {**case, "flip": not case.get("flip", False)} if rng.random() < 0.3 else dict(case)
            steps = list(c["steps"])
            if steps and rng.random() < 0.7:
                steps = steps[: rng.randint(1, len(steps))]
            c["steps"] = steps
            out.append(c)
        return out

    # ------------------------------------------------------------------ evidence helpers
    def nontrivial(self, case, obs):
        if not isinstance(obs, dict) or obs.get("init") is not None:
            return None
        if not any(o["req"] for o in obs["steps"]):
            return None
        if not any(o["out"][0] in ("ret", "state") for o in obs["steps"]):
            return None
        return C.case_hash([case, obs])

    def describe(self, case, obs):
        return {"case": case, "impl_observation": obs}

    def summarize(self, cases, obss):
        kinds, outs, lens, subsets = {}, {}, [], {}
        for c, o in zip(cases, obss):
            lens.append(len(c["steps"]))
            key = ",".join(sorted({s["type"] for d in c["devices"] for s in d["services"]}))
            subsets[key] = subsets.get(key, 0) + 1
            for s in c["steps"]:
                k = s[1] if s[0] == "call" else "sample"
                kinds[k] = kinds.get(k, 0) + 1
            if isinstance(o, dict) and "steps" in o:
                for so in o["steps"]:
                    k = so["out"][0] + (":" + so["out"][1] if so["out"][0] == "raise" else "")
                    if not so["req"] and so["out"] == ["ret", ["none"]]:
                        k = "not-available"
                    outs[k] = outs.get(k, 0) + 1
        return {"steps_by_kind": kinds, "outcomes": outs, "offered_type_sets": len(subsets),
                "history_length_min_max": [min(lens), max(lens)] if lens else []}

    def shrink(self, case):
        steps = case["steps"]
        devs = case["devices"]
        if len(steps) > 1:
            for i in range(len(steps)):                     # a single step (routing failures are stateless)
                yield {**case, "steps": [steps[i]]}
            yield {**case, "steps": steps[: len(steps) // 2]}
            yield {**case, "steps": steps[len(steps) // 2:]}
            for i in range(len(steps)):
                yield {**case, "steps": steps[:i] + steps[i + 1:]}
        for di, d in enumerate(devs):                       # drop a service
            for si in range(len(d["services"])):
                nd = [dict(x, services=list(x["services"])) for x in devs]
                del nd[di]["services"][si]
                yield {**case, "devices": nd}
        used = {OPS[st[1]][1] for st in steps if st[0] == "call"} | \
               (set(SAMPLE_ACTIONS) if any(st[0] == "sample" for st in steps) else set())
        for di, d in enumerate(devs):                       # keep only the actions the history uses
            for si, s in enumerate(d["services"]):
                keep = [a for a in s["actions"] if a in used]
                if keep != s["actions"]:
                    nd = [dict(x, services=[dict(y) for y in x["services"]]) for x in devs]
                    nd[di]["services"][si]["actions"] = keep
                    yield {**case, "devices": nd}
        if len(devs) > 1 and not devs[-1]["services"]:      # drop an empty trailing device
            yield {**case, "devices": devs[:-1]}
        for i, st in enumerate(steps):                      # plainer responses
            if st[0] == "call" and st[4][0] == "ok" and len(st[4][1]) > 0 and not OPS[st[1]][1].startswith("GetTotal"):
                yield {**case, "steps": steps[:i] + [st[:4] + [["raise", "UpnpConnectionError"]]] + steps[i + 1:]}
