"""C10 — NOTIFY requests are routed by SID and applied completely.  Harness.

Drives the REAL UpnpEventHandler.handle_notify of /repo over services built by the real UpnpFactory
(one device description + SCPD per service, served by a scripted requester) and subscribed through
the real async_subscribe; observes, after every NOTIFY of a history, the returned status (or the
escaping exception), the value of every state variable of every service and the on_event
calls.  Mirrors coq/theories/C10/Model.v 1:1 (input, observation)."""
from __future__ import annotations

import asyncio
import logging
import random

from harness import common as C
from harness import c08 as T

EVENT_NS = "urn:schemas-upnp-org:event-1-0"
STRIP = " \t\r\n\0"
VAR_NAMES = ["Volume", "Mute", "A", "B", "LastChange", "Träck", "x.y", "a-b", "_u", "property"]
UNKNOWN_NAMES = ["Nope", "volume", "VolumeX", "Z9", "e"]
NAMESPACES = [EVENT_NS, "urn:x", "http://a/b?c=d&e", "a{b", "urn:schemas-upnp-org:metadata-1-0/AVT/"]
RIGHT = {"NT": "upnp:event", "NTS": "upnp:propchange"}
WRONG = {"NT": ["upnp:Event", "upnp:event ", "", "ssdp:alive", "upnp:propchange"],
         "NTS": ["upnp:Propchange", " upnp:propchange", "", "ssdp:alive", "upnp:event"]}


# ---------------------------------------------------------------------------------------------
# descriptions served to the real factory
def _esc(s):
    return s.replace("&", "&amp;").replace("<", "&lt;").replace(">", "&gt;")


def device_xml(idxs):
    """One device description carrying the services with the given indices."""
    svcs = "".join(f'<service><serviceType>urn:schemas-upnp-org:service:S{i}:1</serviceType><serviceId>urn:upnp-org:serviceId:S{i}</serviceId>'
                   f'<controlURL>/c{i}</controlURL><eventSubURL>/e{i}</eventSubURL><SCPDURL>/s{i}.xml</SCPDURL></service>' for i in idxs)
    return ('<?xml version="1.0"?><root xmlns="urn:schemas-upnp-org:device-1-0"><specVersion><major>1</major><minor>0</minor></specVersion>'
            '<device><deviceType>urn:schemas-upnp-org:device:D:1</deviceType><friendlyName>R</friendlyName>'
            f'<manufacturer>m</manufacturer><modelName>n</modelName><UDN>uuid:c10-{idxs[0]}</UDN>'
            f'<serviceList>{svcs}</serviceList></device></root>')


def scpd_xml(vars_):
    out = ['<?xml version="1.0"?><scpd xmlns="urn:schemas-upnp-org:service-1-0"><specVersion><major>1</major><minor>0</minor></specVersion>'
           '<actionList/><serviceStateTable>']
    for v in vars_:
        out.append(f'<stateVariable sendEvents="yes"><name>{_esc(v["name"])}</name><dataType>{v["type"]}</dataType>')
        if v.get("allowed"):
            out.append("<allowedValueList>" + "".join(f"<allowedValue>{_esc(a)}</allowedValue>" for a in v["allowed"]) + "</allowedValueList>")
        if v.get("range") is not None:
            mn, mx = v["range"]
            out.append("<allowedValueRange>" + (f"<minimum>{_esc(mn)}</minimum>" if mn is not None else "")
                       + (f"<maximum>{_esc(mx)}</maximum>" if mx is not None else "") + "</allowedValueRange>")
        out.append("</stateVariable>")
    out.append("</serviceStateTable></scpd>")
    return "".join(out)


# ---------------------------------------------------------------------------------------------
# event body renderer: abstract tree -> XML text.  Everything chosen from `seed` is invisible in the
# tree the parser yields (prefixes, white space, comments, CDATA vs. references, trailing padding).
def _split_tag(tag):
    if tag.startswith("{"):
        ns, local = tag[1:].split("}", 1)
        return ns, local
    return None, tag


def _attr(s):
    return s.replace("&", "&amp;").replace("<", "&lt;").replace('"', "&quot;")


def _text(s, r):
    if s and r.random() < 0.15 and "]]>" not in s and "\r" not in s:
        return "<![CDATA[" + s + "]]>"
    out = []
    for ch in s:
        if ch == "&":
            out.append(r.choice(["&amp;", "&#38;"]))
        elif ch == "<":
            out.append(r.choice(["&lt;", "&#60;"]))
        elif ch == ">":
            out.append("&gt;")
        elif ch == "\r":
            out.append("&#13;")
        else:
            out.append(ch)
    return "".join(out)


def render_body(children, seed, root="propertyset"):
    r = random.Random(seed)
    ep = r.choice(["e", "e", "ev", "p0"])
    sp = lambda: r.choice(["", "", "\n", "  ", "\r\n\t"])  # noqa: E731
    counter = [0]

    def var_el(tag, text):
        ns, local = _split_tag(tag)
        if ns is None:
            name, decl = local, ""
        elif ns == EVENT_NS and r.random() < 0.5:
            name, decl = f"{ep}:{local}", ""
        else:
            counter[0] += 1
            pfx = f"q{counter[0]}"
            name, decl = f"{pfx}:{local}", f' xmlns:{pfx}="{_attr(ns)}"'
        if not text:
            k = r.randrange(3)
            if k == 0:
                return f"<{name}{decl}/>"
            if k == 1:
                return f"<{name}{decl}></{name}>"
            return f"<{name}{decl}><z/>tail</{name}>"
        if r.random() < 0.1:
            return f"<{name}{decl}>{_text(text, r)}<z>in</z>tail</{name}>"
        return f"<{name}{decl}>{_text(text, r)}</{name}>"

    parts = []
    for ch in children:
        if ch[0] == "prop":
            inner = "".join(sp() + var_el(t, x) + (r.choice(["", "<!-- c -->", "<?pi x?>"]) if r.random() < 0.1 else "") for t, x in ch[1])
            parts.append(f"<{ep}:property>{inner}{sp()}</{ep}:property>")
        else:
            inner = "".join(var_el(t, x) for t, x in ch[2])
            v = ch[1] % 4
            if v == 0:
                parts.append(f"<property>{inner}</property>")
            elif v == 1:
                parts.append(f'<o:property xmlns:o="urn:other">{inner}</o:property>')
            elif v == 2:
                parts.append(f"<{ep}:wrapper><{ep}:property>{inner}</{ep}:property></{ep}:wrapper>")
            else:
                parts.append(f"<{ep}:properties>{inner}</{ep}:properties>")
    head = r.choice(["", "", '<?xml version="1.0"?>', '<?xml version="1.0" encoding="utf-8"?>\n'])
    tail = r.choice(["", "", "\n", "\r\n", "\0", " \t\r\n\0\0"])
    return (f'{head}<{ep}:{root} xmlns:{ep}="{EVENT_NS}">' + "".join(sp() + p for p in parts) + sp()
            + f"</{ep}:{root}>" + tail)


def parsed_children(text):
    """What an independent ElementTree parse of the rendering yields, in the model's vocabulary."""
    import xml.etree.ElementTree as ET
    root = ET.fromstring(text.rstrip(STRIP))
    out = []
    for el in root:
        if el.tag == "{%s}property" % EVENT_NS:
            out.append(["prop", [[c.tag, c.text or ""] for c in el]])
        else:
            out.append(["other"])
    return out


BAD_BODIES = ["", "<a>", "<a></b>", "hello", ' <?xml version="1.0"?><a/>',
              '<!DOCTYPE a [<!ENTITY x "y">]><e:propertyset xmlns:e="urn:schemas-upnp-org:event-1-0"><e:property><A>&x;</A></e:property></e:propertyset>',
              '<e:propertyset xmlns:e="urn:schemas-upnp-org:event-1-0"><e:property><A>1</A></e:property>',
              '<e:propertyset><e:property><A>1</A></e:property></e:propertyset>',
              '<e:propertyset xmlns:e="urn:schemas-upnp-org:event-1-0"><e:property><q:A xmlns:q="a}b">1</q:A></e:property></e:propertyset>',
              "<a/>\0x", "\0"]


class _Env:
    """Real services, each from its own factory/device, sharing one real event handler."""

    def __init__(self, case, loop):
        from async_upnp_client.client import UpnpRequester
        from async_upnp_client.client_factory import UpnpFactory
        from async_upnp_client.event_handler import UpnpEventHandler, UpnpNotifyServer

        table = {}
        sids = []
        n = len(case["services"])
        # one device (one factory) carrying all services, or one device per service
        groups = [list(range(n))] if case.get("one_device") else [[i] for i in range(n)]
        for g in groups:
            table[("GET", f"http://d{g[0]}:1/d.xml")] = (200, {}, device_xml(g))
            for i in g:
                table[("GET", f"http://d{g[0]}:1/s{i}.xml")] = (200, {}, scpd_xml(case["services"][i]["vars"]))

        class Req(UpnpRequester):
            async def async_http_request(self, method, url, headers=None, body=None):
                if method == "SUBSCRIBE":
                    return (200, {"sid": sids.pop(0), "timeout": "Second-1800"}, "")
                return table[(method, url)]

        class NSrv(UpnpNotifyServer):
            @property
            def callback_url(self):
                return "http://h:2/notify"

            async def async_start_server(self):
                pass

            async def async_stop_server(self):
                pass

        self.loop = loop
        self.logs = [[] for _ in case["services"]]
        self.case = case

        async def build():
            req = Req()
            services = [None] * n
            devices = []
            for g in groups:
                strict = case["services"][g[0]]["strict"]
                assert all(case["services"][i]["strict"] == strict for i in g), "one factory, one strictness"
                dev = await UpnpFactory(req, non_strict=not strict).async_create_device(f"http://d{g[0]}:1/d.xml")
                devices.append(dev)
                for i in g:
                    services[i] = dev.services[f"urn:schemas-upnp-org:service:S{i}:1"]
            eh = UpnpEventHandler(NSrv(), req)
            for sid, k in case["routes"]:
                sids.append(sid)
                await eh.async_subscribe(services[k])
            return devices, services, eh

        self.devices, self.services, self.eh = loop.run_until_complete(build())
        for i, (svc, s) in enumerate(zip(case["services"], self.services)):
            if svc["callback"]:
                s.on_event = self._cb(i)

    def _cb(self, i):
        def on_event(service, state_variables):
            assert service is self.services[i]
            self.logs[i].append([[sv.name, T.enc(sv.value)] for sv in state_variables])
        return on_event

    def values(self):
        return [[T.enc(s.state_variables[v["name"]].value) for v in svc["vars"]]
                for svc, s in zip(self.case["services"], self.services)]


def _result_of_exc(e):
    import xml.etree.ElementTree as ET
    from defusedxml.common import DefusedXmlException
    if isinstance(e, (ET.ParseError, DefusedXmlException)):
        return ["raised", "XmlError"]
    if isinstance(e, KeyError):
        return ["raised", "KeyError"]
    n = T.exn_name(e)
    return ["raised", n if n in T.EXN else "OtherError", type(e).__name__]


class Plugin:
    ID = "C10"
    RUN_MODULE = "C10.Run"
    GEN = ["Types", "DateMatchers"]
    DEPENDS = ["C08"]
    CLAUSES = {1: "status_selection", 2: "applied_completely", 3: "callback_once_exact", 4: "isolation"}
    SHARD = 60
    RULE = ("histories of 1..6 NOTIFY requests over 1..3 real services (1..4 state variables each, all 26 data types, "
            "allowed lists / ranges, strict and non-strict factories, with and without on_event) subscribed under 0..2 SIDs "
            "each; every header combination (NT / NTS / SID absent, right, wrong; routed, unrouted, foreign SID; plain dict "
            "and CIMultiDict, other spellings, duplicates) x property sets with valid, unconvertible and out-of-range "
            "texts, unknown, foreign and namespace-qualified names, 0..6 properties, rendered to XML in many ways; the complete "
            "header matrix (3 x 3 x 4 x 2) in both tiers; in the thorough tier all 495 events of 0..3 distinct-tag properties over "
            "ten (tag, text) choices (a sample of 60 in quick); plus a malformed stream (unparsable bodies, repeated tags); non-trivial = some request reached a service; distinct = "
            "distinct (case, observation)")
    TRUSTED = [
        "Coq 8.16.1 kernel + vm_compute",
        "tools/gen/types.py, tools/gen/datematchers.py (source -> Gen/Types.v, Gen/DateMatchers.v), C08's model of the coercers and of voluptuous",
        "harness/c10.py: description/SCPD builder, event renderer (checked on every case against an independent ElementTree parse), fake requester / notify server, value encoders, Gallina printers",
        "defusedxml/expat: XML text -> element tree (the model starts from the tree); body.rstrip is exercised through trailing padding",
        "multidict.CIMultiDict lookup (case-insensitive, first value) and dict lookup as modelled in hget",
        "float() recorded per case as an oracle table",
        "weak references: the harness keeps all services alive",
    ]
    ASSUMPTIONS = [
        "header names and boolean texts are ASCII (str.lower outside ASCII is a parameter of the theorems; identity in the run)",
        "no tag occurs twice in one event and tags have the shape ElementTree gives them (in_domain); repeated tags are only compared model-vs-implementation",
        "the backlog of unrouted SIDs (C11) is not observed here",
        "on_event callbacks do not raise",
    ]
    last_exhaustive = False

    def __init__(self):
        self._loop = None
        self._t = T.Plugin()

    # ------------------------------------------------------------------ generators
    def corpus(self):
        """Committed regression cases: corpus/C10/*.json (the D16 witness - a short malformed dateTime next to
        other properties - and one history walking through every case the statement names)."""
        import json
        d = C.VERIF / "corpus" / "C10"
        return [json.loads(f.read_text()) for f in sorted(d.glob("*.json"))]

    def _var(self, rng, name):
        tn = rng.choice(T.ALL_TYPES + ["ui2", "i4", "string", "boolean", "dateTime"])
        _, allowed, rng_ = self._t._decl(rng, tn)
        # keep only declarations the factory accepts (creation failures are C08's / C05's subject)
        # (an empty <allowedValue/> cannot be expressed in a description: the factory drops it)
        allowed = [a for a in allowed if a not in ("abc", "")]
        if rng_ is not None and "x" in rng_:
            rng_ = ["0", "5"]
        return {"name": name, "type": tn, "allowed": allowed, "range": rng_}

    def _services(self, rng, nmax=3):
        svcs = []
        for _ in range(rng.randint(1, nmax)):
            names = rng.sample(VAR_NAMES, rng.randint(1, 4))
            svcs.append({"strict": rng.random() < 0.75, "callback": rng.random() < 0.85,
                         "vars": [self._var(rng, n) for n in names]})
        return svcs

    def _routes(self, rng, n):
        routes = []
        for k in range(n):
            for j in range(rng.choice([1, 1, 1, 2, 0])):
                routes.append([f"uuid:s{k}{'ab'[j]}", k])
        rng.shuffle(routes)
        return routes

    def _text_for(self, rng, var):
        tn = var["type"]
        pyt = T.PYTYPE[tn]
        r = rng.random()
        if var["allowed"] and r < 0.5:
            return rng.choice(var["allowed"])
        if var["range"] is not None and pyt == "int" and r < 0.8:
            return str(rng.randint(-10, 110))
        if var["range"] is not None and pyt == "float" and r < 0.8:
            return rng.choice(["0", "10.5", "-1.5", "11", "3.25", "1e301", "nan"])
        if var["range"] is not None and pyt == "str" and r < 0.8:
            return rng.choice(["a", "m", "b", "z", "", "A", "ma"])
        if pyt == "int" and r < 0.6:
            return str(rng.choice([0, 1, 7, 42, 65535, -3, 2 ** 40]))
        if pyt == "bool" and r < 0.6:
            return rng.choice(["1", "0", "true", "no"])
        if pyt == "date" and r < 0.4:
            return rng.choice(["2020-01-02", "2021-03-04", "2024-02-29", "1999-12-31"])
        if pyt == "datetime" and r < 0.4:
            return rng.choice(["2020-01-02T03:04:05", "2020-01-02T03:04:05+0100", "2020-01-02T03:04:05Z", "2001-01-01 00:00:00"])
        if pyt == "time" and r < 0.4:
            return rng.choice(["03:04:05", "23:59:59", "09:00:00+0100", "12:00:00 -0530"])
        t = self._t._rand_text(rng, tn)
        return "".join(ch for ch in t if ch in "\t\n\r" or ord(ch) >= 32)

    def _entry(self, rng, svcs, k):
        """One (tag, text) aimed (mostly) at service k (k may be None: no target)."""
        r = rng.random()
        pool = svcs[k]["vars"] if k is not None else rng.choice(svcs)["vars"]
        if r < 0.62:
            var = rng.choice(pool)
            tag, text = var["name"], self._text_for(rng, var)
        elif r < 0.8:
            var = rng.choice(pool)
            tag, text = "{%s}%s" % (rng.choice(NAMESPACES), var["name"]), self._text_for(rng, var)
        elif r < 0.9:
            other = rng.choice(svcs)
            var = rng.choice(other["vars"])
            tag, text = var["name"], self._text_for(rng, var)
        else:
            tag = rng.choice(UNKNOWN_NAMES)
            if rng.random() < 0.3:
                tag = "{%s}%s" % (rng.choice(NAMESPACES), tag)
            text = rng.choice(["1", "", "x", "2020-01-02"])
        if rng.random() < 0.04:
            text = None
        return [tag, text]

    def _body(self, rng, svcs, k, allow_dup=False):
        n = rng.choice([0, 1, 1, 2, 2, 3, 4, 6])
        entries, seen = [], set()
        for _ in range(n):
            e = self._entry(rng, svcs, k)
            if e[0] in seen and not allow_dup:
                continue
            seen.add(e[0])
            entries.append(e)
        if allow_dup and entries and rng.random() < 0.6:
            # the same tag twice in one event (outside the statement's domain: compared model-vs-implementation only)
            t, _ = rng.choice(entries)
            entries.insert(rng.randint(0, len(entries)), [t, rng.choice(["1", "abc", "200", "", "2020-01-02T03:04:05"])])
        children = []
        i = 0
        while i < len(entries):
            m = rng.choice([1, 1, 1, 1, 2, 3, 0])
            children.append(["prop", entries[i:i + m]])
            i += m
        if rng.random() < 0.2:
            inner = [self._entry(rng, svcs, k) for _ in range(rng.randint(1, 2))]
            inner = [[t, x if x is not None else "1"] for t, x in inner]
            children.insert(rng.randint(0, len(children)), ["other", rng.randrange(4), inner])
        return {"children": children, "seed": rng.randrange(10 ** 6),
                "root": rng.choice(["propertyset"] * 5 + ["propertySet", "x"])}

    def _headers(self, rng, routes, nsvc, force=None):
        """-> (mapping kind, header pairs)."""
        kind = rng.choice(["plain", "ci", "ci"])
        nt, nts, sidk = force if force else (
            rng.choice(["ok"] * 8 + ["absent", "wrong"]), rng.choice(["ok"] * 8 + ["absent", "wrong"]),
            rng.choice(["routed"] * 10 + ["absent", "unrouted", "variant"]))
        pairs = []

        def spell(name):
            if kind == "ci":
                return rng.choice([name, name.lower(), name.capitalize(), name])
            return name if rng.random() < 0.93 else name.lower()
        for name, st in (("NT", nt), ("NTS", nts)):
            if st == "ok":
                pairs.append([spell(name), RIGHT[name]])
            elif st == "wrong":
                pairs.append([spell(name), rng.choice(WRONG[name])])
        if sidk == "routed" and routes:
            sid, _ = rng.choice(routes)
            pairs.append([spell("SID"), sid])
        elif sidk in ("routed", "unrouted"):
            pairs.append([spell("SID"), rng.choice(["uuid:nobody", "", "uuid:s9a"])])
        elif sidk == "variant" and routes:
            sid, _ = rng.choice(routes)
            pairs.append([spell("SID"), rng.choice([sid.upper(), sid + " ", " " + sid, sid[:-1]])])
        if rng.random() < 0.12 and pairs:
            # a duplicate of one header with another value (dict: last wins, CIMultiDict: first wins)
            j = rng.randrange(len(pairs))
            name = pairs[j][0]
            other = rng.choice(["upnp:event", "upnp:propchange", "uuid:nobody", "x"] + [s for s, _ in routes])
            pairs.insert(rng.randint(0, len(pairs)), [name if kind == "plain" else rng.choice([name, name.lower(), name.upper()]), other])
        for extra in rng.sample([["HOST", "h:2"], ["CONTENT-TYPE", 'text/xml; charset="utf-8"'], ["SEQ", "0"], ["NTX", "upnp:event"],
                                 ["X-SID", "uuid:s0a"]], rng.randint(0, 2)):
            pairs.insert(rng.randint(0, len(pairs)), extra)
        if rng.random() < 0.3:
            rng.shuffle(pairs)
        return kind, pairs

    def _target(self, case, ev):
        """The service the statement says the event is delivered to (harness-side, for generation only)."""
        hd = ev["headers"]
        if ev["kind"] == "plain":
            d = dict((k, v) for k, v in hd)
            get = d.get
        else:
            def get(name):
                for k, v in hd:
                    if k.lower() == name.lower():
                        return v
                return None
        if get("NT") != "upnp:event" or get("NTS") != "upnp:propchange" or get("SID") is None:
            return None
        return dict((s, k) for s, k in case["routes"]).get(get("SID"))

    def _case(self, rng, malformed=False):
        svcs = self._services(rng)
        routes = self._routes(rng, len(svcs))
        case = {"services": svcs, "routes": routes, "events": []}
        if len(svcs) > 1 and rng.random() < 0.4:
            case["one_device"] = True
            for s_ in svcs:
                s_["strict"] = svcs[0]["strict"]
        for _ in range(rng.randint(1, 6)):
            kind, pairs = self._headers(rng, routes, len(svcs))
            ev = {"kind": kind, "headers": pairs, "body": None}
            k = self._target(case, ev)
            if malformed and rng.random() < 0.4:
                ev["body"] = {"bad": rng.choice(BAD_BODIES)}
            else:
                ev["body"] = self._body(rng, svcs, k, allow_dup=malformed)
            case["events"].append(ev)
        return case

    def _header_matrix(self, rng):
        """Every combination of NT / NTS (absent, right, wrong) x SID (absent, routed to 0, routed to 1, unrouted)
        x mapping kind, as one event each after a fixed first delivery, over two services sharing a variable name."""
        vol = {"name": "Volume", "type": "ui2", "allowed": [], "range": ["0", "100"]}
        mute = {"name": "Mute", "type": "boolean", "allowed": [], "range": None}
        svcs = [{"strict": True, "callback": True, "vars": [vol, mute]}, {"strict": True, "callback": True, "vars": [vol]}]
        routes = [["uuid:s0a", 0], ["uuid:s1a", 1]]
        cases = []
        for kind in ("plain", "ci"):
            for nt in ("absent", "ok", "wrong"):
                evs = []
                for nts in ("absent", "ok", "wrong"):
                    for sid in (None, "uuid:s0a", "uuid:s1a", "uuid:nobody"):
                        pairs = []
                        if nt != "absent":
                            pairs.append(["NT" if kind == "plain" else rng.choice(["NT", "nt", "Nt"]), RIGHT["NT"] if nt == "ok" else rng.choice(WRONG["NT"])])
                        if nts != "absent":
                            pairs.append(["NTS" if kind == "plain" else rng.choice(["NTS", "nts", "Nts"]), RIGHT["NTS"] if nts == "ok" else rng.choice(WRONG["NTS"])])
                        if sid is not None:
                            pairs.append(["SID" if kind == "plain" else rng.choice(["SID", "sid", "Sid"]), sid])
                        evs.append({"kind": kind, "headers": pairs,
                                    "body": {"children": [["prop", [["Volume", str(rng.randint(0, 100))]]], ["prop", [["Mute", rng.choice(["0", "1"])]]]],
                                             "seed": rng.randrange(1000), "root": "propertyset"}})
                cases.append({"services": svcs, "routes": routes, "events": evs})
        return cases

    def _small_scope(self):
        """Every event of 0..3 properties with pairwise distinct tags over ten (tag, text) choices - valid, refused and
        unconvertible texts under the plain and a namespace-qualified tag of one variable, a second and a third
        variable, an unknown name - delivered after a fixed first event, next to a second service with the same name."""
        import itertools
        svcs = [{"strict": True, "callback": True,
                 "vars": [{"name": "Volume", "type": "ui2", "allowed": [], "range": ["0", "100"]},
                          {"name": "When", "type": "dateTime", "allowed": [], "range": None},
                          {"name": "Mute", "type": "boolean", "allowed": [], "range": None}]},
                {"strict": True, "callback": True, "vars": [{"name": "Volume", "type": "ui2", "allowed": [], "range": None}]}]
        routes = [["uuid:s0a", 0], ["uuid:s1a", 1]]
        hdr = [["NT", "upnp:event"], ["NTS", "upnp:propchange"], ["SID", "uuid:s0a"]]
        first = {"kind": "plain", "headers": hdr, "body": {"children": [["prop", [["Volume", "7"]]], ["prop", [["When", "2001-02-03T04:05:06"]]]],
                                                           "seed": 3, "root": "propertyset"}}
        choices = [["Volume", "5"], ["Volume", "200"], ["Volume", "abc"], ["{urn:x}Volume", "6"], ["{urn:x}Volume", "300"], ["{urn:x}Volume", "x"],
                   ["When", "2020-01-02T03:04:05"], ["When", "12"], ["Mute", "1"], ["Nope", "1"]]
        n = 0
        for k in range(4):
            for sel in itertools.permutations(choices, k):
                if len({t for t, _ in sel}) != k:
                    continue
                n += 1
                ev = {"kind": "ci" if n % 2 else "plain", "headers": hdr,
                      "body": {"children": [["prop", [list(e)]] for e in sel], "seed": n, "root": "propertyset"}}
                yield {"services": svcs, "routes": routes, "events": [first, ev], "one_device": n % 3 == 0}

    def generate(self, rng, tier):
        cases = list(self._header_matrix(rng))
        small = list(self._small_scope())
        if tier == "thorough":
            cases += small
            self.last_exhaustive = True   # header matrix (3 x 3 x 4 x 2) and the small-scope property sets are complete
        else:
            cases += rng.sample(small, 60)
        n = 24000 if tier == "thorough" else 420
        for i in range(n):
            cases.append(self._case(rng, malformed=(i % 8 == 7)))
        return cases

    # ------------------------------------------------------------------ implementation
    def _body_text(self, body):
        if "bad" in body:
            return body["bad"]
        text = render_body(body["children"], body.get("seed", 0), body.get("root", "propertyset"))
        got = parsed_children(text)
        want = [["prop", [[t, x or ""] for t, x in ch[1]]] if ch[0] == "prop" else ["other"] for ch in body["children"]]
        if got != want:
            raise AssertionError(f"renderer/parse disagreement: {got!r} vs {want!r}")
        return text

    def impl_search(self, rng, tier):
        """Implementation-only probe of "the callback lists exactly the variables this NOTIFY replaced" over a history the
        model's inputs cannot express: the application installs its on_event callback only after some NOTIFYs have
        already been applied (the initial event usually beats it).  Every callback made afterwards may name only variables
        that occur in the NOTIFY being handled.  Never stands in for a theorem."""
        from multidict import CIMultiDict, CIMultiDictProxy
        if self._loop is None:
            self._loop = asyncio.new_event_loop()
            logging.getLogger("async_upnp_client").setLevel(logging.CRITICAL)
        n = 600 if tier == "thorough" else 80
        found, done = [], 0
        for _ in range(n):
            case = self._case(rng)
            if len(case["events"]) < 2 or len({s for s, _ in case["routes"]}) != len(case["routes"]):
                continue
            quiet = dict(case, services=[dict(sv, callback=False) for sv in case["services"]])
            try:
                env = _Env(quiet, self._loop)
            except Exception:  # noqa: BLE001
                continue
            cut = rng.randint(1, len(case["events"]) - 1)
            bad = None
            try:
                for j, ev in enumerate(case["events"]):
                    if j == cut:
                        for i, sv in enumerate(env.services):
                            sv.on_event = env._cb(i)                      # noqa: SLF001
                    for lg in env.logs:
                        lg.clear()
                    if "bad" in ev["body"]:
                        continue
                    text = self._body_text(ev["body"])
                    headers = ({k: v for k, v in ev["headers"]} if ev["kind"] == "plain"
                               else CIMultiDictProxy(CIMultiDict([(k, v) for k, v in ev["headers"]])))
                    try:
                        self._loop.run_until_complete(env.eh.handle_notify(headers, text))
                    except Exception:  # noqa: BLE001
                        continue
                    if j < cut:
                        continue
                    named = {t.split("}")[-1] for ch in ev["body"]["children"] if ch[0] == "prop" for t, _ in ch[1]}
                    for lg in env.logs:
                        for call in lg:
                            extra = [nm for nm, _ in call if nm not in named]
                            if extra:
                                bad = [j, extra]
                    if bad:
                        break
            except AssertionError:
                continue
            done += 1
            if bad:
                found.append(("callback_once_exact", dict(quiet, callback_installed_before_event=cut),
                              {"event": bad[0], "names_not_in_this_notify": bad[1]},
                              "impl-search: a callback installed after earlier NOTIFYs lists variables the NOTIFY being handled does not carry"))
                break
        return found, done

    def run_impl(self, case):
        from multidict import CIMultiDict, CIMultiDictProxy

        if self._loop is None:
            self._loop = asyncio.new_event_loop()
            logging.getLogger("async_upnp_client").setLevel(logging.CRITICAL)
        sids = [s for s, _ in case["routes"]]
        assert len(set(sids)) == len(sids), "route SIDs must be distinct"
        try:
            env = _Env(case, self._loop)
        except Exception as e:  # noqa: BLE001 - a description the factory refuses
            return {"setup": "failed", "error": type(e).__name__}
        init = env.values()
        steps = []
        for ev in case["events"]:
            for lg in env.logs:
                lg.clear()
            text = self._body_text(ev["body"])
            if ev["kind"] == "plain":
                headers = {k: v for k, v in ev["headers"]}
            else:
                headers = CIMultiDictProxy(CIMultiDict([(k, v) for k, v in ev["headers"]]))
            try:
                st = self._loop.run_until_complete(env.eh.handle_notify(headers, text))
                res = ["status", int(st)]
            except Exception as e:  # noqa: BLE001 - an escaping exception is an observation
                res = _result_of_exc(e)
            steps.append({"result": res, "values": env.values(), "calls": [[list(c) for c in lg] for lg in env.logs]})
        return {"setup": "ok", "init": init, "steps": steps}

    # ------------------------------------------------------------------ printers
    @staticmethod
    def _oval(p):
        return T.val_coq(p)

    def _oracle(self, case):
        if not any(T.PYTYPE[v["type"]] == "float" for s in case["services"] for v in s["vars"]):
            return "(@nil (pystr * option fl))"
        texts = []
        for s in case["services"]:
            for v in s["vars"]:
                texts += list(v["allowed"]) + [b for b in (v["range"] or []) if b]
        for ev in case["events"]:
            for ch in ev["body"].get("children", []):
                if ch[0] == "prop":
                    texts += [x or "" for _, x in ch[1]]
        out, seen = [], set()
        for s in texts:
            if s in seen:
                continue
            seen.add(s)
            try:
                out.append(f"({C.c_str(s)}, Some {T.fl_coq(float(s))})")
            except ValueError:
                out.append(f"({C.c_str(s)}, @None fl)")
        return C.c_list(out, "(pystr * option fl)")

    def _input(self, case):
        sds = []
        for s in case["services"]:
            vds = []
            for v in s["vars"]:
                rg = v["range"]
                vds.append(f"mkVarDef {C.c_str(v['name'])} {C.c_str(v['type'])} {C.c_list((C.c_str(a) for a in v['allowed']), 'pystr')} "
                           f"{C.c_bool(rg is not None)} {C.c_opt(rg[0] if rg else None, C.c_str, 'pystr')} {C.c_opt(rg[1] if rg else None, C.c_str, 'pystr')}")
            sds.append(f"mkSvcDef {C.c_bool(s['strict'])} {C.c_bool(s['callback'])} {C.c_list(vds, 'var_def')}")
        routes = C.c_list((f"({C.c_str(s)}, {C.c_nat(k)})" for s, k in case["routes"]), "(pystr * nat)")
        evs = []
        for ev in case["events"]:
            hd = C.c_list((f"({C.c_str(k)}, {C.c_str(v)})" for k, v in ev["headers"]), "(pystr * pystr)")
            b = ev["body"]
            if "bad" in b:
                body = "BBad"
            else:
                chs = []
                for ch in b["children"]:
                    if ch[0] == "prop":
                        chs.append("CProperty " + C.c_list((f"({C.c_str(t)}, {C.c_opt(x, C.c_str, 'pystr')})" for t, x in ch[1]), "(pystr * option pystr)"))
                    else:
                        chs.append("COther")
                body = f"(BTree {C.c_list(chs, 'child')})"
            evs.append(f"mkNotify {'HPlain' if ev['kind'] == 'plain' else 'HCI'} {hd} {body}")
        return f"(mkInput {C.c_list(sds, 'svc_def')} {routes} {C.c_list(evs, 'notify')})"

    def _values(self, vals):
        return C.c_list((C.c_list((self._oval(p) for p in row), "oval") for row in vals), "(list oval)")

    def _obs(self, obs):
        if obs["setup"] != "ok":
            return "ObsSetupFailed"
        steps = []
        for st in obs["steps"]:
            r = st["result"]
            if r[0] == "status":
                res = f"(Status {C.c_N(r[1])})"
            elif r[1] in ("XmlError", "KeyError"):
                res = f"(Raised {r[1]})"
            else:
                res = f"(Raised (Escaped {r[1]}))"
            calls = C.c_list((C.c_list((C.c_list((f"({C.c_str(n)}, {self._oval(v)})" for n, v in call), "(pystr * oval)")
                                         for call in lg), "(list (pystr * oval))") for lg in st["calls"]), "(list (list (pystr * oval)))")
            steps.append(f"mkStep {res} {self._values(st['values'])} {calls}")
        return f"(Obs {self._values(obs['init'])} {C.c_list(steps, 'step_obs')})"

    def to_coq(self, case, obs):
        return f"({self._oracle(case)}, {self._input(case)}, {self._obs(obs)})"

    # ------------------------------------------------------------------ evidence helpers
    def nontrivial(self, case, obs):
        if obs.get("setup") != "ok":
            return None
        if not any(any(st["calls"]) or st["values"] != obs["init"] for st in obs["steps"]):
            return None
        return C.case_hash([case, obs])

    def describe(self, case, obs):
        return {"case": case, "impl_observation": obs}

    def summarize(self, cases, obss):
        status, types, nsvc, nev, nprop, bodies, kinds = {}, {}, {}, {}, {}, {"tree": 0, "bad": 0}, {}
        outcome = {"stored": 0, "absent": 0, "calls": 0, "named_but_not_listed(refused)": 0}
        for c, o in zip(cases, obss):
            if isinstance(o, dict) and o.get("setup") == "ok":
                for ev, st in zip(c["events"], o["steps"]):
                    k = self._target(c, ev)
                    if k is None or "children" not in ev["body"] or not st["calls"][k]:
                        continue
                    names = {v["name"] for v in c["services"][k]["vars"]}
                    listed = {n for call in st["calls"][k] for n, _ in call}
                    for ch in ev["body"]["children"]:
                        if ch[0] == "prop":
                            outcome["named_but_not_listed(refused)"] += sum(
                                1 for t, _ in ch[1] if _split_tag(t)[1] in names and _split_tag(t)[1] not in listed)
            nsvc[len(c["services"])] = nsvc.get(len(c["services"]), 0) + 1
            nev[len(c["events"])] = nev.get(len(c["events"]), 0) + 1
            for s in c["services"]:
                for v in s["vars"]:
                    types[v["type"]] = types.get(v["type"], 0) + 1
            for ev in c["events"]:
                kinds[ev["kind"]] = kinds.get(ev["kind"], 0) + 1
                if "bad" in ev["body"]:
                    bodies["bad"] += 1
                else:
                    bodies["tree"] += 1
                    n = sum(len(ch[1]) for ch in ev["body"]["children"] if ch[0] == "prop")
                    nprop[n] = nprop.get(n, 0) + 1
            if isinstance(o, dict) and o.get("setup") == "ok":
                for st in o["steps"]:
                    key = str(st["result"][1])
                    status[key] = status.get(key, 0) + 1
                    for lg in st["calls"]:
                        outcome["calls"] += len(lg)
                        for call in lg:
                            outcome["absent"] += sum(1 for _, v in call if v["t"] == "none")
                            outcome["stored"] += sum(1 for _, v in call if v["t"] != "none")
        return {"results": status, "variables_by_type": types, "services_per_case": nsvc, "events_per_case": nev,
                "properties_per_event": nprop, "bodies": bodies, "mapping_kinds": kinds, "callback_entries": outcome}

    def shrink(self, case):
        evs = case["events"]
        for i in range(len(evs)):
            if len(evs) > 1:
                yield {**case, "events": evs[:i] + evs[i + 1:]}
        for i, ev in enumerate(evs):
            b = ev["body"]
            if "children" not in b:
                continue
            for j, ch in enumerate(b["children"]):
                nb = {**b, "children": b["children"][:j] + b["children"][j + 1:]}
                yield {**case, "events": evs[:i] + [{**ev, "body": nb}] + evs[i + 1:]}
                if ch[0] == "prop" and len(ch[1]) > 1:
                    for m in range(len(ch[1])):
                        nch = ["prop", ch[1][:m] + ch[1][m + 1:]]
                        nb = {**b, "children": b["children"][:j] + [nch] + b["children"][j + 1:]}
                        yield {**case, "events": evs[:i] + [{**ev, "body": nb}] + evs[i + 1:]}

    def mutate_case(self, case, rng):
        out = []
        for _ in range(20):
            c = {**case, "events": [dict(e) for e in case["events"]]}
            i = rng.randrange(len(c["events"]))
            kind, pairs = self._headers(rng, c["routes"], len(c["services"]))
            c["events"][i] = {**c["events"][i], "kind": kind, "headers": pairs}
            out.append(c)
        return out
