"""C09 — the subscription registry mirrors the publisher, with valid GENA requests: harness.

Drives the REAL UpnpEventHandler (event_handler.py) through histories of subscribe / renew / unsubscribe calls
against a scripted fake publisher (a UpnpRequester that answers each request with the next scripted reaction and
never suspends), and after every call records: the return value or exception class, the requests the publisher
saw, service_for_sid over every SID in play and sid_for_service of every service.  Mirrors the alphabet of
coq/theories/C09/Model.v 1:1.

case  = [[call, [reaction, ...]], ...]
call  = ["sub", svc, tmo|None] | ["renew_svc", svc, tmo|None] | ["renew_sid", sid, tmo|None] | ["renew_all"]
      | ["unsub_svc", svc] | ["unsub_sid", sid] | ["unsub_all"]
reaction = ["resp", status, sid|None, timeout_header|None] | ["raise", class_name, status|None]
"""
from __future__ import annotations

import asyncio
import itertools
import re

from harness import common as C

CALLBACK_URL = "http://192.168.1.2:8090/notify"
DEVICE_URL = "http://192.168.1.9:80/desc.xml"
NSVC = 3
BUILTIN_EXN = ["KeyError", "ValueError", "OverflowError", "RuntimeError"]
STATUS_CLASSES = ("UpnpResponseError", "UpnpClientResponseError", "UpnpActionResponseError")
SECOND_INT = re.compile(r"Second-[0-9]+\Z")
TD_MAX = 86399999999999

# publisher reactions of the property's quantifier, as (status, timeout header) building blocks
GOOD_TMO = [None, None, "Second-300", "Second-1800", "Second-infinite", "Second-0", "Second-175",
            "Second-86399999999999", "infinite", "1800"]
BAD_TMO = ["Second-abc", "Second-", "Second-1800.0", "second-300", "Second-Infinite", " Second-5", "xSecond-5",
           "Second- 12 ", "Second-1_0", "Second--5", "Second-+7", "Second-99999999999999999999",
           "Second-86400000000000", "Second-1__0", "Second-_1", "Second-5 Second-6", "Second--86399999913601"]
ERR_STATUS = [412, 500, 404, 400, 503, 412, 500]
BAD_STATUS = [201, 204, 301, 100, 0, 399, 600]
REQUESTER_ERRORS = ["UpnpConnectionError", "UpnpConnectionTimeoutError", "UpnpCommunicationError",
                    "UpnpClientResponseError", "UpnpConnectionError", "UpnpConnectionTimeoutError"]
RARE_UPNP_ERRORS = ["UpnpError", "UpnpResponseError", "UpnpContentError", "UpnpSIDError"]
FOREIGN_ERRORS = ["RuntimeError", "ValueError", "KeyError", "OverflowError"]
CALLER_TMO = [None, None, None, 1800, 300, 1, 0, 86400, 90061, 172805]


class _Env:
    """One event handler with three services on one device, and the scripted publisher."""

    def __init__(self):
        import xml.etree.ElementTree as ET

        from async_upnp_client import exceptions as X
        from async_upnp_client.client import UpnpDevice, UpnpRequester, UpnpService
        from async_upnp_client.const import DeviceInfo, ServiceInfo
        from async_upnp_client.event_handler import UpnpEventHandler, UpnpNotifyServer
        from multidict import CIMultiDict, CIMultiDictProxy

        env = self
        self.X = X
        self.log = []
        self.script = []
        self.nreq = 0

        class Notify(UpnpNotifyServer):
            @property
            def callback_url(self):
                return CALLBACK_URL

        class Publisher(UpnpRequester):
            async def async_http_request(self, method, url, headers=None, body=None):
                # is the SID of an UNSUBSCRIBE still routed while the request is on its way?
                still = False
                if method == "UNSUBSCRIBE":
                    sid0 = next((v for k, v in dict(headers or {}).items() if str(k).upper() == "SID"), None)
                    try:
                        still = sid0 is not None and env.handler.service_for_sid(sid0) is not None
                    except Exception:  # noqa: BLE001
                        still = False
                env.log.append((method, url, dict(headers or {}), still))
                r = env.script.pop(0) if env.script else ["raise", "UpnpConnectionError", None]
                if r[0] == "raise":
                    raise env.make_exc(r[1], r[2], method, url)
                hdrs = [("SERVER", "fake/1.0 UPnP/1.0"), ("CONTENT-LENGTH", "0")]
                if r[2] is not None:
                    hdrs.append(("SID", r[2]))
                if r[3] is not None:
                    hdrs.append(("TIMEOUT", r[3]))
                env.nreq += 1
                if env.nreq % 2:
                    # what aiohttp hands out: a case-insensitive multidict
                    return r[1], CIMultiDictProxy(CIMultiDict(hdrs)), ""
                # what the repository's own test requester hands out: a plain dict with lower-case names
                return r[1], {k.lower(): v for k, v in hdrs}, ""

        self.requester = Publisher()
        self.services = [
            UpnpService(self.requester,
                        ServiceInfo(f"urn:upnp-org:serviceId:S{i}", f"urn:schemas-upnp-org:service:S{i}:1",
                                    f"/c{i}", f"/e{i}", f"/s{i}", ET.Element("service")), [], [])
            for i in range(NSVC)]
        self.device = UpnpDevice(
            self.requester,
            DeviceInfo("urn:schemas-upnp-org:device:D:1", "f", "m", None, None, "n", None, None, None, "uuid:dev",
                       None, None, DEVICE_URL, [], ET.Element("device")), self.services, [])
        self.urls = {s.event_sub_url: i for i, s in enumerate(self.services)}
        self.handler = UpnpEventHandler(Notify(), self.requester)

    def make_exc(self, name, status, method, url):
        X = self.X
        cls = getattr(X, name, None)
        if cls is None:
            return {"KeyError": KeyError, "ValueError": ValueError, "OverflowError": OverflowError}.get(
                name, RuntimeError)("scripted")
        if name == "UpnpClientResponseError":
            import aiohttp
            from multidict import CIMultiDict, CIMultiDictProxy
            from yarl import URL
            info = aiohttp.RequestInfo(URL(url), method, CIMultiDictProxy(CIMultiDict()), URL(url))
            return cls(request_info=info, history=(), status=status if status is not None else 0, message="scripted")
        if name in ("UpnpResponseError", "UpnpActionResponseError"):
            return cls(status=status if status is not None else 0)
        if name == "UpnpValueError":
            return cls("n", "v")
        if name == "UpnpXmlParseError":
            import xml.etree.ElementTree as ET
            err = ET.ParseError("scripted")
            err.code, err.position = 1, (1, 0)
            return cls(err)
        return cls("scripted")


def _exn_names():
    import inspect

    from async_upnp_client import exceptions as X
    return [n for n, c in sorted(vars(X).items())
            if inspect.isclass(c) and issubclass(c, BaseException) and c.__module__ == X.__name__] + BUILTIN_EXN


class Plugin:
    ID = "C09"
    RUN_MODULE = "C09.Run"
    CLAUSES = {1: "registry_mirror", 2: "returns", 3: "renew_fallback", 4: "unsubscribe_immediate",
               5: "requests_valid"}
    SHARD = 400
    GEN = ["Gena"]          # the generated tables this property's model and proofs import
    SEARCH_CASES = 6000
    RULE = ("histories of subscribe / renew (by service, by SID, all) / unsubscribe (by service, by SID, all) calls over "
            "1..3 services, each with the scripted publisher reactions it consumes; generated against a reference "
            "registry so that targets are mostly live SIDs and renewals are answered with the same / a new / no SID; "
            "non-trivial = at least one request was answered 200 and at least one later call changed the routed set; "
            "distinct = distinct (history, observations)")
    TRUSTED = [
        "Coq 8.16.1 kernel + vm_compute (no native_compute, no extraction)",
        "harness/c09.py: fake publisher (UpnpRequester returning a CIMultiDictProxy, never suspending), observation "
        "through service_for_sid / sid_for_service / return values / exception classes, Gallina printers",
        "tools/gen/gena.py: exception hierarchy (runtime MRO of async_upnp_client.exceptions), the except ladder of "
        "async_resubscribe and the default timeouts (ast)",
        "CPython semantics as modelled: dict order (Prelude/PyDict.v), int() on ASCII text, timedelta range, "
        "str(int); asyncio.gather over coroutines that never suspend runs them in argument order",
        "weakref: the services are kept alive by the harness, entries never die (not modelled); NOTIFY backlog replay "
        "inside async_subscribe is not exercised (no NOTIFY is delivered; property C11)",
    ]
    ASSUMPTIONS = [
        "caller timeouts are whole non-negative seconds",
        "the requester never suspends, so renewals gathered by async_resubscribe_all run one after the other; "
        "interleavings of concurrently outstanding renewals are outside this property (C12)",
        "theorem domain: 200 or 4xx/5xx responses, non-empty SIDs, TIMEOUT absent / Second-infinite / Second-<digits> "
        "within timedelta range / text without 'Second-'; requester exceptions are UpnpError subclasses",
    ]
    last_exhaustive = False

    def __init__(self):
        self._loop = None
        self._names = None
        self._intern = {}

    # Every distinct string of the cases printed so far is defined once per shard file (exact code points) and
    # referred to by name: elaborating literals is what costs time (DESIGN 1.2).
    @property
    def HEADER(self):  # noqa: N802 - attribute name fixed by the driver
        lines = ["Notation nS := (@None pystr) (only parsing).", "Notation nN := (@None N) (only parsing)."]
        for text, name in self._intern.items():
            lines.append(f"Definition {name} : pystr := {C.c_str(text)}.")
        return "\n".join(lines)

    def _s(self, text):
        if len(text) < 2:
            return C.c_str(text)
        name = self._intern.get(text)
        if name is None:
            name = self._intern[text] = f"z{len(self._intern)}"
        return name

    # ------------------------------------------------------------------ corpus
    def corpus(self):
        """committed regression histories: corpus/C09/*.json ({"note": ..., "case": [...]}), in file-name order"""
        import json
        out = []
        for f in sorted((C.VERIF / "corpus" / "C09").glob("*.json")):
            out.append(json.loads(f.read_text())["case"])
        return out

    # ------------------------------------------------------------------ generation (against a reference registry)
    @staticmethod
    def _sim_exchange(live, kind, sid, svc, r):
        """Reference publisher-side view, used ONLY to aim the generators (which SIDs are live)."""
        ok = r[0] == "resp" and r[1] == 200
        if kind == "initial":
            if ok and r[2] is not None and (r[3] is None or r[3] in GOOD_TMO or SECOND_INT.match(r[3] or "")):
                live[r[2]] = svc
        elif kind == "renewal":
            if ok:
                new = r[2] if r[2] else sid
                if new != sid:
                    live.pop(sid, None)
                live[new] = svc
            else:
                live.pop(sid, None)

    def _sim_renew(self, live, sid, reactions):
        """consume reactions for one renewal of sid; returns number consumed"""
        svc = live[sid]
        r = reactions[0] if reactions else ["raise", "UpnpConnectionError", None]
        self._sim_exchange(live, "renewal", sid, svc, r)
        refused = (r[0] == "resp" and r[1] != 200) or (r[0] == "raise" and r[1].startswith("Upnp")
                                                         and "Connection" not in r[1])
        if refused:
            r2 = reactions[1] if len(reactions) > 1 else ["raise", "UpnpConnectionError", None]
            self._sim_exchange(live, "initial", None, svc, r2)
            return 2
        return 1

    def _sim_step(self, live, step):
        call, reactions = step
        k = call[0]
        if k == "sub":
            r = reactions[0] if reactions else ["raise", "UpnpConnectionError", None]
            self._sim_exchange(live, "initial", None, call[1], r)
        elif k in ("renew_svc", "renew_sid"):
            sid = call[1] if k == "renew_sid" else next((s for s, v in live.items() if v == call[1]), None)
            if sid in live:
                self._sim_renew(live, sid, reactions)
        elif k == "renew_all":
            rs = list(reactions)
            for sid in list(live):
                if sid in live:
                    n = self._sim_renew(live, sid, rs)
                    rs = rs[n:]
        elif k in ("unsub_svc", "unsub_sid"):
            sid = call[1] if k == "unsub_sid" else next((s for s, v in live.items() if v == call[1]), None)
            live.pop(sid, None)
        elif k == "unsub_all":
            live.clear()

    def _rand_tmo_hdr(self, rng, malformed):
        if malformed and rng.random() < 0.5:
            return rng.choice(BAD_TMO)
        if rng.random() < 0.15:
            return "Second-" + str(rng.choice([1, 60, 299, 3600, 86400, 10 ** rng.randint(0, 13)]))
        return rng.choice(GOOD_TMO)

    def _rand_reaction(self, rng, st, echo_sid, malformed):
        """st: generator state with counter 'n' and list 'seen' of SIDs; echo_sid: SID of the renewal being answered."""
        if rng.random() < st.get("p_ok", 0.62):
            y = rng.random()
            if echo_sid is not None and y < 0.45:
                sid = echo_sid
            elif echo_sid is not None and y < 0.6:
                sid = None
            elif y < 0.9:
                st["n"] += 1
                sid = f"uuid:{st['n']}"
            elif y < 0.95 and st["seen"]:
                sid = rng.choice(st["seen"])          # the publisher re-uses a SID
            elif y < 0.975:
                sid = None
            else:
                sid = "" if malformed else None
            if sid and sid not in st["seen"]:
                st["seen"].append(sid)
            status = 200
            if malformed and rng.random() < 0.08:
                status = rng.choice(BAD_STATUS)
            return ["resp", status, sid, self._rand_tmo_hdr(rng, malformed)]
        x = 0.62 + 0.38 * rng.random()
        if x < 0.80:
            return ["resp", rng.choice(ERR_STATUS), rng.choice([None, None, "uuid:ignored"]), rng.choice([None, "Second-1800"])]
        if x < 0.97:
            name = rng.choice(REQUESTER_ERRORS)
            return ["raise", name, rng.choice([400, 503, 412]) if name in STATUS_CLASSES else None]
        if malformed and rng.random() < 0.6:
            return ["raise", rng.choice(FOREIGN_ERRORS), None]
        name = rng.choice(RARE_UPNP_ERRORS)
        return ["raise", name, 500 if name in STATUS_CLASSES else None]

    def _random_case(self, rng, depth, malformed):
        nsvc = rng.choice([1, 2, 2, 3, 3])
        st = {"n": 0, "seen": [], "p_ok": rng.choice([0.55, 0.7, 0.85, 0.95])}
        live = {}
        steps = []
        for _ in range(depth):
            kinds = ["sub"] * 4 + ["renew_svc"] * 3 + ["renew_sid"] * 3 + ["renew_all"] * 2 + ["unsub_svc"] * 2 + \
                    ["unsub_sid"] * 2 + ["unsub_all"]
            k = rng.choice(kinds)
            if (not live and rng.random() < 0.85) or (len(live) < 2 and rng.random() < 0.3):
                k = "sub"
            tmo = rng.choice(CALLER_TMO)
            if k == "sub":
                call = ["sub", rng.randrange(nsvc), tmo]
                reactions = [self._rand_reaction(rng, st, None, malformed)]
            elif k in ("renew_svc", "unsub_svc"):
                svcs = sorted(set(live.values()))
                v = rng.choice(svcs) if svcs and rng.random() < 0.92 else rng.randrange(nsvc)
                sid = next((s for s, w in live.items() if w == v), None)
                call = [k, v, tmo] if k == "renew_svc" else [k, v]
                reactions = [self._rand_reaction(rng, st, sid, malformed), self._rand_reaction(rng, st, None, malformed)]
            elif k in ("renew_sid", "unsub_sid"):
                if live and rng.random() < 0.92:
                    sid = rng.choice(list(live))
                elif st["seen"] and rng.random() < 0.7:
                    sid = rng.choice(st["seen"])
                else:
                    sid = rng.choice(["uuid:unknown", "uuid:0", ""])
                call = [k, sid, tmo] if k == "renew_sid" else [k, sid]
                reactions = [self._rand_reaction(rng, st, sid, malformed), self._rand_reaction(rng, st, None, malformed)]
            elif k == "renew_all":
                call = ["renew_all"]
                reactions = []
                for sid in list(live):
                    reactions.append(self._rand_reaction(rng, st, sid, malformed))
                    if reactions[-1][0] == "raise" or reactions[-1][1] != 200:
                        reactions.append(self._rand_reaction(rng, st, None, malformed))
            else:
                call = ["unsub_all"]
                reactions = [self._rand_reaction(rng, st, None, malformed) for _ in live]
            if k.startswith("unsub") and rng.random() < 0.5:
                reactions = [["resp", 200, None, None] for _ in reactions]
            if rng.random() < 0.08 and reactions:
                reactions = reactions[:-1]              # script runs dry: the device is unreachable
            step = [call, reactions]
            steps.append(step)
            self._sim_step(live, step)
        return steps

    # exhaustive small scope: every history of the given depth over a state-dependent alphabet (2 services)
    def _small_options(self, live, j):
        fresh, fresh2 = f"u{j}", f"u{j}b"
        conn = ["raise", "UpnpConnectionError", None]
        tout = ["raise", "UpnpConnectionTimeoutError", None]
        opts = []
        for v in (0, 1):
            for r in (["resp", 200, fresh, "Second-300"], ["resp", 200, fresh, None], ["resp", 200, None, None],
                      ["resp", 412, None, None], conn):
                opts.append([["sub", v, None], [r]])
        first = next(iter(live), None)
        targets = [("renew_svc", 0), ("renew_sid", first if first is not None else "u9")]
        for kind, t in targets:
            sid = t if kind == "renew_sid" else next((s for s, w in live.items() if w == t), None)
            if sid not in live:
                opts.append([[kind, t, None], [["resp", 200, fresh, None]]])   # KeyError, nothing is sent
                continue
            echo = sid
            for rs in ([["resp", 200, echo, "Second-300"]], [["resp", 200, fresh, None]],
                       [["resp", 200, None, "Second-infinite"]], [conn], [tout],
                       [["resp", 412, None, None], ["resp", 200, fresh2, "Second-300"]],
                       [["resp", 412, None, None], ["resp", 500, None, None]],
                       [["resp", 412, None, None], conn],
                       [["resp", 500, None, None], ["resp", 200, None, None]]):
                opts.append([[kind, t, None], rs])
        per_sid = lambda s, n: ([["resp", 200, s, None]], [["resp", 412, None, None], ["resp", 200, f"u{j}{n}", None]], [conn])  # noqa: E731
        sids = list(live)
        if len(sids) <= 2:
            for combo in itertools.product(*[per_sid(s, "abc"[n]) for n, s in enumerate(sids)]):
                opts.append([["renew_all"], [r for part in combo for r in part]])
        else:
            opts.append([["renew_all"], [["resp", 200, None, None] for _ in sids]])
            opts.append([["renew_all"], [["resp", 412, None, None], ["resp", 200, fresh, None], conn]])
        for kind, t in (("unsub_svc", 0), ("unsub_sid", first if first is not None else "u9")):
            sid = t if kind == "unsub_sid" else next((s for s, w in live.items() if w == t), None)
            for r in (["resp", 200, None, None], ["resp", 412, None, None], conn):
                opts.append([[kind, t], [r]])
                if sid not in live:
                    break
        opts.append([["unsub_all"], []])
        if live:
            opts.append([["unsub_all"], [["resp", 200, None, None], ["resp", 500, None, None], ["resp", 200, None, None]]])
        return opts

    def _exhaustive(self, depth):
        def rec(prefix, live, j):
            if j == depth:
                yield prefix
                return
            for step in self._small_options(live, j):
                l2 = dict(live)
                self._sim_step(l2, step)
                yield from rec(prefix + [step], l2, j + 1)
        yield from rec([], {}, 0)

    def generate(self, rng, tier):
        cases = []
        if tier == "thorough":
            for d in (1, 2, 3, 4):                      # every history up to depth 4 over the small alphabet
                cases += list(self._exhaustive(d))
            self.last_exhaustive = True
            n_rand, depth, n_mal = 8000, 40, 2000
        else:
            cases += list(self._exhaustive(2))
            cases += rng.sample(list(self._exhaustive(3)), 1000)
            cases += rng.sample(list(self._exhaustive(4)), 2000)
            n_rand, depth, n_mal = 1200, 30, 400
        for _ in range(n_rand):
            cases.append(self._random_case(rng, rng.randint(2, depth), False))
        for _ in range(n_mal):
            cases.append(self._random_case(rng, rng.randint(2, min(depth, 15)), True))
        return cases

    # ------------------------------------------------------------------ implementation
    def _exn_name(self, e):
        if self._names is None:
            self._names = _exn_names()
        for k in type(e).__mro__:
            if k.__name__ in self._names:
                return k.__name__
        return "RuntimeError"

    def _encode_result(self, kind, val):
        from datetime import timedelta
        if kind == "pair":
            if not (isinstance(val, tuple) and len(val) == 2 and isinstance(val[0], str)
                    and isinstance(val[1], timedelta) and val[1].microseconds == 0):
                raise TypeError(f"unexpected return value {val!r}")
            return ["ok_sid_tmo", val[0], val[1].days * 86400 + val[1].seconds]
        if kind == "sid":
            if not isinstance(val, str):
                raise TypeError(f"unexpected return value {val!r}")
            return ["ok_sid", val]
        if val is not None:
            raise TypeError(f"unexpected return value {val!r}")
        return ["ok_none"]

    def run_impl(self, case):
        from datetime import timedelta

        if self._loop is None:
            self._loop = asyncio.new_event_loop()
        env = _Env()
        h, X = env.handler, env.X
        universe = ["uuid:never"]
        for call, reactions in case:
            if call[0] in ("renew_sid", "unsub_sid") and call[1] not in universe:
                universe.append(call[1])
            for r in reactions:
                if r[0] == "resp" and r[2] is not None and r[2] not in universe:
                    universe.append(r[2])
        obs = []
        for call, reactions in case:
            env.script = [list(r) for r in reactions]
            env.log = []
            k = call[0]
            td = (lambda t: {} if t is None else {"timeout": timedelta(seconds=t)})
            if k == "sub":
                coro, rk = h.async_subscribe(env.services[call[1]], **td(call[2])), "pair"
            elif k == "renew_svc":
                coro, rk = h.async_resubscribe(env.services[call[1]], **td(call[2])), "pair"
            elif k == "renew_sid":
                coro, rk = h.async_resubscribe(call[1], **td(call[2])), "pair"
            elif k == "renew_all":
                coro, rk = h.async_resubscribe_all(), "none"
            elif k == "unsub_svc":
                coro, rk = h.async_unsubscribe(env.services[call[1]]), "sid"
            elif k == "unsub_sid":
                coro, rk = h.async_unsubscribe(call[1]), "sid"
            elif k == "unsub_all":
                coro, rk = h.async_unsubscribe_all(), "none"
            else:
                raise AssertionError(call)
            try:
                res = self._encode_result(rk, self._loop.run_until_complete(coro))
            except Exception as e:  # noqa: BLE001 - exception classes are observations
                st = getattr(e, "status", None) if isinstance(e, X.UpnpResponseError) else None
                res = ["err", self._exn_name(e), st if isinstance(st, int) and st >= 0 else None]
            # let anything the call left behind finish (nothing does when the requester never suspends)
            pending = [t for t in asyncio.all_tasks(self._loop) if not t.done()]
            if pending:
                self._loop.run_until_complete(asyncio.gather(*pending, return_exceptions=True))
            reqs = []
            in_flight_routed = [bool(e[3]) for e in env.log]
            for method, url, hdrs, _still in env.log:
                up = {}
                for name, val in hdrs.items():
                    up[str(name).upper()] = val if isinstance(val, str) else repr(val)
                others = sorted(n for n in up if n not in ("HOST", "NT", "CALLBACK", "SID", "TIMEOUT"))
                reqs.append([method if method in ("SUBSCRIBE", "UNSUBSCRIBE") else "OTHER", env.urls.get(url, 99),
                             up.get("NT"), up.get("CALLBACK"), up.get("SID"), up.get("TIMEOUT"), others])
            try:
                keys = [s for s in list(h._subscriptions.keys()) if isinstance(s, str)]  # noqa: SLF001
            except Exception:  # noqa: BLE001
                keys = []
            routed = []
            for s in universe + [s for s in keys if s not in universe]:
                svc = h.service_for_sid(s)
                if svc is not None:
                    routed.append([s, env.services.index(svc) if svc in env.services else 99])
            sfs = [h.sid_for_service(s) for s in env.services]
            obs.append({"res": res, "reqs": reqs, "routed": sorted(routed), "sfs": sfs, "routed_in_flight": in_flight_routed})
        return obs

    # ------------------------------------------------------------------ printers
    def _ostr(self, s):
        return "nS" if s is None else f"(Some {self._s(s)})"

    @staticmethod
    def _oN(n):
        return "nN" if n is None else f"(Some {C.c_N(n)})"

    def _call(self, c):
        k = c[0]
        if k == "sub":
            return f"CSubscribe {c[1]} {self._oN(c[2])}"
        if k == "renew_svc":
            return f"CRenew (TSvc {c[1]}) {self._oN(c[2])}"
        if k == "renew_sid":
            return f"CRenew (TSid {self._s(c[1])}) {self._oN(c[2])}"
        if k == "renew_all":
            return "CRenewAll"
        if k == "unsub_svc":
            return f"CUnsub (TSvc {c[1]})"
        if k == "unsub_sid":
            return f"CUnsub (TSid {self._s(c[1])})"
        return "CUnsubAll"

    def _reaction(self, r):
        if r[0] == "resp":
            return f"RResp {C.c_N(r[1])} {self._ostr(r[2])} {self._ostr(r[3])}"
        return f"RRaise E_{r[1]} {self._oN(r[2])}"

    def _tmo(self, t):
        return self._ostr(t)

    def _request(self, q):
        method, svc, nt, cbh, sid, tmo, others = q
        if not others:
            if method == "SUBSCRIBE" and nt == "upnp:event" and cbh == f"<{CALLBACK_URL}>" and sid is None:
                return f"q_initial {svc} {self._tmo(tmo)}"
            if method == "SUBSCRIBE" and nt is None and cbh is None and sid is not None:
                return f"q_renewal {svc} {self._s(sid)} {self._tmo(tmo)}"
            if method == "UNSUBSCRIBE" and nt is None and cbh is None and sid is not None and tmo is None:
                return f"q_unsub {svc} {self._s(sid)}"
        m = {"SUBSCRIBE": "MSubscribe", "UNSUBSCRIBE": "MUnsubscribe"}.get(method, "MOther")
        return (f"mkReq {m} {svc} {self._ostr(nt)} {self._ostr(cbh)} {self._ostr(sid)} {self._ostr(tmo)} "
                f"{C.c_list((self._s(x) for x in others), 'pystr')}")

    def _result(self, r):
        if r[0] == "ok_sid_tmo":
            return f"ROkSidTmo {self._s(r[1])} {C.c_Z(r[2])}"
        if r[0] == "ok_sid":
            return f"ROkSid {self._s(r[1])}"
        if r[0] == "ok_none":
            return "ROkNone"
        return f"RErr E_{r[1]} {self._oN(r[2])}"

    def _obs(self, o):
        reqs = C.c_list((f"({self._request(q)})" for q in o["reqs"]), "request")
        routed = C.c_list((f"({self._s(s)}, {v})" for s, v in o["routed"]), "(sid * nat)")
        sfs = C.c_list((self._ostr(s) for s in o["sfs"]), "(option sid)")
        return f"mkObs ({self._result(o['res'])}) {reqs} {routed} {sfs}"

    def to_coq(self, case, obs):
        steps = C.c_list((f"({self._call(c)}, {C.c_list((f'({self._reaction(r)})' for r in rs), 'reaction')})"
                          for c, rs in case), "step_in")
        ob = C.c_list((f"({self._obs(o)})" for o in obs), "step_obs")
        return f"({steps} : input, {ob} : observation)"

    # ------------------------------------------------------------------ implementation-only volume search
    def impl_search(self, rng, tier):
        """Clauses whose failure is directly visible on the implementation: every request is valid GENA (5) and a
        SID for which an UNSUBSCRIBE was issued is not routed after the call (4).  Search only, never a proof."""
        n = 10000 if tier == "thorough" else 1500
        found = []
        for _ in range(n):
            case = self._random_case(rng, rng.randint(2, 20 if tier == "thorough" else 12), False)
            obs = self.run_impl(case)
            bad = self._direct_violation(case, obs)
            if bad and not found:
                found.append((bad[0], case, obs, f"impl-search step={bad[1]}"))
        return found, n

    @staticmethod
    def _direct_violation(case, obs):
        for i, ((call, _), o) in enumerate(zip(case, obs)):
            routed = {s for s, _ in o["routed"]}
            for method, svc, nt, cbh, sid, tmo, others in o["reqs"]:
                tmo_ok = tmo is not None and SECOND_INT.match(tmo)
                if method == "SUBSCRIBE" and sid is None:
                    ok = nt == "upnp:event" and cbh == f"<{CALLBACK_URL}>" and tmo_ok
                elif method == "SUBSCRIBE":
                    ok = bool(sid) and nt is None and cbh is None and tmo_ok
                elif method == "UNSUBSCRIBE":
                    ok = bool(sid) and nt is None and cbh is None
                else:
                    ok = False
                if not ok:
                    return ("requests_valid", i)
                if method == "UNSUBSCRIBE" and call[0].startswith("unsub") and sid in routed:
                    return ("unsubscribe_immediate", i)
            if call[0].startswith("unsub") and any(o.get("routed_in_flight", [])):
                # "once an unsubscribe has been issued its SID is no longer routed": also while the request is in flight
                return ("unsubscribe_immediate", i)
        return None

    # ------------------------------------------------------------------ evidence helpers
    def nontrivial(self, case, obs):
        granted = False
        changed = False
        prev = None
        for o in obs:
            cur = tuple(map(tuple, o["routed"]))
            if granted and prev is not None and cur != prev:
                changed = True
            if cur:
                granted = True
            prev = cur
        return C.case_hash([case, obs]) if granted and changed else None

    def describe(self, case, obs):
        return {"history": case, "impl_observations": obs}

    def summarize(self, cases, obss):
        calls, reactions, results = {}, {}, {}
        lens = []
        for c, o in zip(cases, obss):
            lens.append(len(c))
            for call, rs in c:
                calls[call[0]] = calls.get(call[0], 0) + 1
                for r in rs:
                    key = f"{r[1]}" if r[0] == "resp" else r[1]
                    reactions[key] = reactions.get(key, 0) + 1
            if isinstance(o, list):
                for so in o:
                    key = so["res"][0] if so["res"][0] != "err" else so["res"][1]
                    results[key] = results.get(key, 0) + 1
        return {"calls_by_kind": calls, "reactions_by_status_or_class": reactions, "results": results,
                "history_length_min_max": [min(lens), max(lens)] if lens else []}

    def shrink(self, case):
        n = len(case)
        for k in range(1, n):                       # shortest failing prefix first
            yield case[:k]
        if n > 3:
            for a in range(0, n - 1, max(1, n // 4)):   # drop a quarter
                yield case[:a] + case[a + max(1, n // 4):]
        for i in range(n):
            if n > 1:
                yield case[:i] + case[i + 1:]
        for i, (call, rs) in enumerate(case):
            for j in range(len(rs)):
                yield case[:i] + [[call, rs[:j] + rs[j + 1:]]] + case[i + 1:]
            if len(call) == 3 and call[2] is not None:
                yield case[:i] + [[call[:2] + [None], rs]] + case[i + 1:]
            for j, r in enumerate(rs):
                if r[0] == "resp" and r[3] is not None:
                    yield case[:i] + [[call, rs[:j] + [[r[0], r[1], r[2], None]] + rs[j + 1:]]] + case[i + 1:]
