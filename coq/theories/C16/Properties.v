From AUC Require Import C16.Proofs.
