(* C16 — The case-insensitive header map behaves as a map.  Property theorems only. *)
From Coq Require Import List Bool NArith.
From AUC Require Import Prelude.PyDict Prelude.PyStr C16.Model C16.Spec C16.Sim C16.Proofs
  C16.Indep C16.Equivb.
Import ListNotations.

(* For every key type with decidable equality, every case-folding function, every value type and
   every operation sequence whose constructor arguments are dicts (and whose combine_lower_dict
   arguments are pre-lowered, the documented premise): every observation of the two-dict
   implementation model equals (iteration orders: is a permutation of) the observation of a
   finite map keyed by the folded name in which the latest write wins and keeps its spelling. *)
Theorem C16_refines :
  forall (K : Type) (keqb : K -> K -> bool) (keqb_spec : forall a b, reflect (a = b) (keqb a b))
         (lower : K -> K) (V : Type) (veqb : V -> V -> bool)
         (veqb_spec : forall a b, reflect (a = b) (veqb a b)) (ops : list (op K V)),
    in_domain keqb lower ops = true ->
    Forall2 (@obs_equiv K V)
            (run (body_iface keqb lower veqb) ops) (run (spec_iface keqb lower veqb) ops).
Proof. exact refines. Qed.
Print Assumptions C16_refines.

(* The same statement through the boolean comparison the correspondence check evaluates. *)
Theorem C16_refines_bool :
  forall (K : Type) (keqb : K -> K -> bool) (keqb_spec : forall a b, reflect (a = b) (keqb a b))
         (lower : K -> K) (V : Type) (veqb : V -> V -> bool)
         (veqb_spec : forall a b, reflect (a = b) (veqb a b)) (ops : list (op K V)),
    in_domain keqb lower ops = true ->
    all_equivb keqb veqb (run (body_iface keqb lower veqb) ops)
                         (run (spec_iface keqb lower veqb) ops) = true.
Proof.
  intros. apply all_equivb_complete; [assumption | assumption |]. now apply refines.
Qed.
Print Assumptions C16_refines_bool.

(* Copies and combinations are independent of their sources: in-place mutation through one
   variable never changes what a non-aliased variable holds (any body implementation) ... *)
Theorem C16_independent :
  forall (K V B : Type) (I : iface K V B) (s : store B) (v w i j : nat) (muts : list (op K V)),
    lookup_var (env s) v = Some j -> lookup_var (env s) w = Some i -> i <> j ->
    forallb (mutates v) muts = true ->
    body_of (exec I s muts) w = body_of s w.
Proof. exact independent. Qed.
Print Assumptions C16_independent.

(* ... and construction, copy(), combine(), combine_lower_dict() and replace(plain mapping) bind
   their target to a body no other variable refers to. *)
Theorem C16_fresh :
  forall (K V B : Type) (I : iface K V B) (s : store B) (o : op K V) (v : nat),
    wf s -> allocates o = Some v -> snd (step I s o) = ObDone ->
    lookup_var (env (fst (step I s o))) v = Some (length (bodies s)) /\
    forall w i, w <> v -> lookup_var (env (fst (step I s o))) w = Some i -> i < length (bodies s).
Proof. exact fresh. Qed.
Print Assumptions C16_fresh.

(* Non-vacuity: a concrete sequence inside the domain with case-colliding keys. *)
Example C16_domain_inhabited :
  let lower := lower_with (fun c => c) in
  let ops := [ONew 0 [([75; 101; 121], 1); ([75; 69; 89], 2)]%N;   (* {'Key':1,'KEY':2} *)
              OLen 0; OGet 0 [107; 101; 121]%N; OIter 0] in
  in_domain str_eqb lower ops = true /\
  run (body_iface str_eqb lower N.eqb) ops =
    [ObDone; ObNat 1; ObVal 2%N; ObKeys [[75; 69; 89]%N]].
Proof. vm_compute. split; reflexivity. Qed.
