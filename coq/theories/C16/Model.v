(* C16 — executable model of async_upnp_client.utils.CaseInsensitiveDict (utils.py).
   Definitions only.  A header map object is a reference to a *body* (the pair
   _data/_case_map); `replace(other_header_map)` aliases the body, everything else
   allocates a fresh one.  The store machinery is generic in the body type so the very
   same machine runs the abstract specification (Spec.v). *)
From Coq Require Import List Bool Arith.
From AUC Require Import Prelude.PyDict.
Import ListNotations.
Set Implicit Arguments.

Section Machine.
  Variables K V : Type.

  (* ---- operations of the public API, over variables (nat) holding header maps ---- *)
  Inductive op :=
  | ONew (v : nat) (items : list (K * V))      (* v = CaseInsensitiveDict(dict(items), **kw) *)
  | ONewFrom (v w : nat)                        (* v = CaseInsensitiveDict(w), w a header map *)
  | OCopy (v w : nat)                           (* v = w.copy() *)
  | OCombine (v a b : nat)                      (* v = a.combine(b) *)
  | OCombineLower (v a : nat) (items : list (K * V)) (* v = a.combine_lower_dict(dict(items)) *)
  | OReplace (v w : nat)                        (* v.replace(w), w a header map: aliases *)
  | OReplacePlain (v : nat) (items : list (K * V))   (* v.replace(dict(items)) *)
  | OSet (v : nat) (k : K) (x : V)
  | ODel (v : nat) (k : K)
  | ODelLower (v : nat) (lk : K)
  | OPop (v : nat) (k : K)
  | OGet (v : nat) (k : K)
  | OGetLower (v : nat) (lk : K)
  | OContains (v : nat) (k : K)
  | OLen (v : nat)
  | OIter (v : nat)
  | OAsLower (v : nat)
  | OEq (v w : nat)
  | OEqPlain (v : nat) (items : list (K * V)).

  Inductive obs :=
  | ObDone                    (* statement completed, nothing to see *)
  | ObKeyError
  | ObVal (x : V)
  | ObDefault                 (* get_lower returned the default *)
  | ObBool (b : bool)
  | ObNat (n : nat)
  | ObKeys (l : list K)       (* compared as a permutation *)
  | ObItems (l : list (K * V)) (* compared as a permutation *)
  | ObUnbound.                (* a variable was not bound: generators never do this *)

  (* ---- what a body implementation must provide ---- *)
  Record iface (B : Type) := {
    i_init : list (K * V) -> option B;
    i_from : B -> option B;                   (* CaseInsensitiveDict(other_header_map) *)
    i_combine : B -> B -> option B;
    i_combine_lower : B -> list (K * V) -> option B;
    i_set : B -> K -> V -> option B;
    i_del : B -> K -> option B;
    i_del_lower : B -> K -> option B;
    i_get : B -> K -> option V;
    i_get_lower : B -> K -> option V;
    i_len : B -> nat;
    i_iter : B -> list K;
    i_as_lower : B -> list (K * V);
    i_eq : B -> B -> bool;                    (* header map == header map *)
    i_eq_plain : B -> list (K * V) -> bool    (* header map == plain dict *)
  }.

  Section Run.
    Variable B : Type.
    Variable I : iface B.

    Record store := { bodies : list B; env : list (nat * nat) }.
    Definition empty_store : store := {| bodies := []; env := [] |}.

    Fixpoint lookup_var (e : list (nat * nat)) (v : nat) : option nat :=
      match e with
      | [] => None
      | (v', i) :: r => if Nat.eqb v' v then Some i else lookup_var r v
      end.

    Definition body_of (s : store) (v : nat) : option (nat * B) :=
      match lookup_var (env s) v with
      | Some i => match nth_error (bodies s) i with Some b => Some (i, b) | None => None end
      | None => None
      end.

    Fixpoint set_nth (l : list B) (i : nat) (b : B) : list B :=
      match l, i with
      | [], _ => []
      | _ :: r, O => b :: r
      | x :: r, S j => x :: set_nth r j b
      end.

    (* bind variable v to a freshly allocated body *)
    Definition alloc (s : store) (v : nat) (b : B) : store :=
      {| bodies := bodies s ++ [b]; env := (v, length (bodies s)) :: env s |}.
    Definition update (s : store) (i : nat) (b : B) : store :=
      {| bodies := set_nth (bodies s) i b; env := env s |}.
    Definition rebind (s : store) (v i : nat) : store :=
      {| bodies := bodies s; env := (v, i) :: env s |}.

    Definition new_from (s : store) (v : nat) (ob : option B) : store * obs :=
      match ob with
      | Some b => (alloc s v b, ObDone)
      | None => (s, ObKeyError)
      end.

    Definition mutate (s : store) (i : nat) (ob : option B) : store * obs :=
      match ob with
      | Some b => (update s i b, ObDone)
      | None => (s, ObKeyError)
      end.

    Definition step (s : store) (o : op) : store * obs :=
      match o with
      | ONew v items => new_from s v (i_init I items)
      | ONewFrom v w =>
          match body_of s w with
          | Some (_, b) => new_from s v (i_from I b)
          | None => (s, ObUnbound)
          end
      | OCopy v w =>
          match body_of s w with
          | Some (_, b) => (alloc s v b, ObDone)
          | None => (s, ObUnbound)
          end
      | OCombine v a b =>
          match body_of s a, body_of s b with
          | Some (_, ba), Some (_, bb) => new_from s v (i_combine I ba bb)
          | _, _ => (s, ObUnbound)
          end
      | OCombineLower v a items =>
          match body_of s a with
          | Some (_, ba) => new_from s v (i_combine_lower I ba items)
          | None => (s, ObUnbound)
          end
      | OReplace v w =>
          match body_of s v, body_of s w with
          | Some _, Some (j, _) => (rebind s v j, ObDone)
          | _, _ => (s, ObUnbound)
          end
      | OReplacePlain v items =>
          match body_of s v with
          | Some _ => new_from s v (i_init I items)
          | None => (s, ObUnbound)
          end
      | OSet v k x =>
          match body_of s v with
          | Some (i, b) => mutate s i (i_set I b k x)
          | None => (s, ObUnbound)
          end
      | ODel v k =>
          match body_of s v with
          | Some (i, b) => mutate s i (i_del I b k)
          | None => (s, ObUnbound)
          end
      | ODelLower v lk =>
          match body_of s v with
          | Some (i, b) => mutate s i (i_del_lower I b lk)
          | None => (s, ObUnbound)
          end
      | OPop v k =>
          match body_of s v with
          | Some (i, b) =>
              match i_get I b k with
              | Some x =>
                  match i_del I b k with
                  | Some b' => (update s i b', ObVal x)
                  | None => (s, ObKeyError)
                  end
              | None => (s, ObKeyError)
              end
          | None => (s, ObUnbound)
          end
      | OGet v k =>
          match body_of s v with
          | Some (_, b) =>
              (s, match i_get I b k with Some x => ObVal x | None => ObKeyError end)
          | None => (s, ObUnbound)
          end
      | OGetLower v lk =>
          match body_of s v with
          | Some (_, b) =>
              (s, match i_get_lower I b lk with Some x => ObVal x | None => ObDefault end)
          | None => (s, ObUnbound)
          end
      | OContains v k =>
          match body_of s v with
          | Some (_, b) =>
              (s, ObBool match i_get I b k with Some _ => true | None => false end)
          | None => (s, ObUnbound)
          end
      | OLen v =>
          match body_of s v with
          | Some (_, b) => (s, ObNat (i_len I b))
          | None => (s, ObUnbound)
          end
      | OIter v =>
          match body_of s v with
          | Some (_, b) => (s, ObKeys (i_iter I b))
          | None => (s, ObUnbound)
          end
      | OAsLower v =>
          match body_of s v with
          | Some (_, b) => (s, ObItems (i_as_lower I b))
          | None => (s, ObUnbound)
          end
      | OEq v w =>
          match body_of s v, body_of s w with
          | Some (_, bv), Some (_, bw) => (s, ObBool (i_eq I bv bw))
          | _, _ => (s, ObUnbound)
          end
      | OEqPlain v items =>
          match body_of s v with
          | Some (_, b) => (s, ObBool (i_eq_plain I b items))
          | None => (s, ObUnbound)
          end
      end.

    Fixpoint run_from (s : store) (ops : list op) : list obs :=
      match ops with
      | [] => []
      | o :: r => let '(s', ob) := step s o in ob :: run_from s' r
      end.
    Definition run (ops : list op) : list obs := run_from empty_store ops.
  End Run.
End Machine.

Arguments ONew {K V}. Arguments ONewFrom {K V}. Arguments OCopy {K V}.
Arguments OCombine {K V}. Arguments OCombineLower {K V}. Arguments OReplace {K V}.
Arguments OReplacePlain {K V}. Arguments OSet {K V}. Arguments ODel {K V}.
Arguments ODelLower {K V}. Arguments OPop {K V}. Arguments OGet {K V}.
Arguments OGetLower {K V}. Arguments OContains {K V}. Arguments OLen {K V}.
Arguments OIter {K V}. Arguments OAsLower {K V}. Arguments OEq {K V}.
Arguments OEqPlain {K V}.
Arguments ObDone {K V}. Arguments ObKeyError {K V}. Arguments ObVal {K V}.
Arguments ObDefault {K V}. Arguments ObBool {K V}. Arguments ObNat {K V}.
Arguments ObKeys {K V}. Arguments ObItems {K V}. Arguments ObUnbound {K V}.

(* ------------------------------------------------------------------------------------ *)
(* The concrete body: the two Python dicts of utils.py. *)
Section Body.
  Variable K : Type.
  Variable keqb : K -> K -> bool.
  Variable lower : K -> K.          (* str.lower() *)
  Variable V : Type.
  Variable veqb : V -> V -> bool.

  Record body := { bdata : dict K V; bcmap : dict K K }.

  (* {k.lower(): k for k in data}  (the `type(k) is lowerstr` branch yields the same key
     under the documented premise that lowerstr keys are already lower case) *)
  Definition build_cmap (d : dict K V) : dict K K :=
    fold_left (fun cm k => dset keqb cm (lower k) k) (dkeys d) [].

  (* utils.py:_unique_case_data *)
  Fixpoint rebuild (d : dict K V) (ks : list K) (acc : dict K V) : option (dict K V) :=
    match ks with
    | [] => Some acc
    | k :: r =>
        match dget keqb d k with
        | Some v => rebuild d r (dset keqb acc k v)
        | None => None                       (* KeyError *)
        end
    end.
  Definition unique_case (d : dict K V) (cm : dict K K) : option (dict K V) :=
    if Nat.eqb (length cm) (length d) then Some d else rebuild d (map snd cm) [].

  Definition mk (d : dict K V) (cm : dict K K) : option body :=
    match unique_case d cm with
    | Some d' => Some {| bdata := d'; bcmap := cm |}
    | None => None
    end.

  Definition b_init (items : list (K * V)) : option body :=
    let d := dmerge keqb [] items in mk d (build_cmap d).

  (* {**w} for a header map w: keys by iteration, values by __getitem__ *)
  Fixpoint items_via_getitem (get : K -> option V) (ks : list K) : option (list (K * V)) :=
    match ks with
    | [] => Some []
    | k :: r =>
        match get k, items_via_getitem get r with
        | Some v, Some l => Some ((k, v) :: l)
        | _, _ => None
        end
    end.

  Definition b_combine (a b : body) : option body :=
    mk (dmerge keqb (bdata a) (bdata b)) (dmerge keqb (bcmap a) (bcmap b)).

  Definition b_combine_lower (a : body) (items : list (K * V)) : option body :=
    let ld := dmerge keqb [] items in
    mk (dmerge keqb (bdata a) ld)
       (dmerge keqb (bcmap a) (map (fun kv => (fst kv, fst kv)) ld)).

  Definition del_key (d : dict K V) (k : K) : option (dict K V) :=
    if dhas keqb d k then Some (ddel keqb d k) else None.

  Definition b_set (b : body) (k : K) (v : V) : option body :=
    let lk := lower k in
    let od :=
      match dget keqb (bcmap b) lk with
      | Some k0 => if keqb k0 k then Some (bdata b) else del_key (bdata b) k0
      | None => Some (bdata b)
      end in
    match od with
    | Some d => Some {| bdata := dset keqb d k v; bcmap := dset keqb (bcmap b) lk k |}
    | None => None
    end.

  Definition b_del_lower (b : body) (lk : K) : option body :=
    match dget keqb (bcmap b) lk with
    | Some k0 =>
        match del_key (bdata b) k0 with
        | Some d => Some {| bdata := d; bcmap := ddel keqb (bcmap b) lk |}
        | None => None
        end
    | None => None
    end.
  Definition b_del (b : body) (k : K) : option body := b_del_lower b (lower k).

  Definition b_get_lower (b : body) (lk : K) : option V :=
    match dget keqb (bcmap b) lk with
    | Some k0 => dget keqb (bdata b) k0
    | None => None
    end.
  Definition b_get (b : body) (k : K) : option V := b_get_lower b (lower k).

  Definition b_from (b : body) : option body :=
    match items_via_getitem (b_get b) (dkeys (bdata b)) with
    | Some items => b_init items
    | None => None
    end.

  Definition b_len (b : body) : nat := length (bdata b).
  Definition b_iter (b : body) : list K := dkeys (bdata b).
  (* {k.lower(): v for k, v in data.items()} *)
  Definition lower_items (items : list (K * V)) : dict K V :=
    dmerge keqb [] (map (fun kv => (lower (fst kv), snd kv)) items).
  Definition b_as_lower (b : body) : list (K * V) := lower_items (bdata b).

  Definition b_eq (a b : body) : bool := deqb keqb veqb (b_as_lower a) (b_as_lower b).
  Definition b_eq_plain (b : body) (items : list (K * V)) : bool :=
    deqb keqb veqb (b_as_lower b) (lower_items (dmerge keqb [] items)).

  Definition body_iface : iface K V body := {|
    i_init := b_init; i_from := b_from; i_combine := b_combine; i_combine_lower := b_combine_lower;
    i_set := b_set; i_del := b_del; i_del_lower := b_del_lower;
    i_get := b_get; i_get_lower := b_get_lower; i_len := b_len; i_iter := b_iter;
    i_as_lower := b_as_lower; i_eq := b_eq; i_eq_plain := b_eq_plain |}.
End Body.
