(* C16 — the boolean observation comparison used by the correspondence check decides the
   Prop-level equivalence the refinement theorem speaks of. *)
From Coq Require Import List Bool Arith Lia Permutation.
From AUC Require Import Prelude.PyDict C16.Model C16.Spec.
Import ListNotations.
Set Implicit Arguments.

Section PermB.
  Variable A : Type.
  Variable aeqb : A -> A -> bool.
  Hypothesis aeqb_spec : forall a b, reflect (a = b) (aeqb a b).

  Lemma remove1_perm x l l' : remove1 aeqb x l = Some l' -> Permutation l (x :: l').
  Proof.
    revert l'. induction l as [|y r IH]; cbn; intros l'; [discriminate|].
    destruct (aeqb_spec x y) as [->|Hne].
    - intros H; inversion H; subst. reflexivity.
    - destruct (remove1 aeqb x r) as [r'|]; [|discriminate].
      intros H; inversion H; subst. rewrite (IH r' eq_refl). apply perm_swap.
  Qed.

  Lemma remove1_in x l : In x l -> exists l', remove1 aeqb x l = Some l'.
  Proof.
    induction l as [|y r IH]; cbn; [tauto|]. intros [->|Hin].
    - destruct (aeqb_spec x x); [eauto | congruence].
    - destruct (aeqb_spec x y); [eauto|]. destruct (IH Hin) as [l' ->]. eauto.
  Qed.

  Lemma perm_eqb_sound l1 : forall l2, perm_eqb aeqb l1 l2 = true -> Permutation l1 l2.
  Proof.
    induction l1 as [|x r IH]; intros l2; cbn.
    - destruct l2; [constructor | discriminate].
    - destruct (remove1 aeqb x l2) as [l2'|] eqn:E; [|discriminate]. intros H.
      apply remove1_perm in E. rewrite E. constructor. now apply IH.
  Qed.

  Lemma perm_eqb_complete l1 : forall l2, Permutation l1 l2 -> perm_eqb aeqb l1 l2 = true.
  Proof.
    induction l1 as [|x r IH]; intros l2 P; cbn.
    - apply Permutation_nil in P. now subst.
    - assert (Hin : In x l2) by (eapply Permutation_in; [exact P | now left]).
      destruct (remove1_in _ _ Hin) as [l2' E]. rewrite E. apply IH.
      apply remove1_perm in E. apply Permutation_cons_inv with (a := x).
      now rewrite P, E.
  Qed.
End PermB.

Section ObsB.
  Variables K V : Type.
  Variable keqb : K -> K -> bool.
  Hypothesis keqb_spec : forall a b, reflect (a = b) (keqb a b).
  Variable veqb : V -> V -> bool.
  Hypothesis veqb_spec : forall a b, reflect (a = b) (veqb a b).

  Lemma kv_eqb_spec a b : reflect (a = b) (kv_eqb keqb veqb a b).
  Proof.
    destruct a as [k v], b as [k' v']. unfold kv_eqb. cbn.
    destruct (keqb_spec k k'), (veqb_spec v v'); cbn; constructor; congruence.
  Qed.

  Lemma obs_equivb_complete (a b : obs K V) : obs_equiv a b -> obs_equivb keqb veqb a b = true.
  Proof.
    intros [o|x y P|x y P]; cbn.
    - destruct o; cbn; auto.
      + destruct (veqb_spec x x); congruence.
      + apply eqb_reflx.
      + apply Nat.eqb_refl.
      + apply (perm_eqb_complete keqb keqb_spec). reflexivity.
      + apply (perm_eqb_complete _ kv_eqb_spec). reflexivity.
    - now apply (perm_eqb_complete keqb keqb_spec).
    - now apply (perm_eqb_complete _ kv_eqb_spec).
  Qed.

  Lemma obs_equivb_sound (a b : obs K V) : obs_equivb keqb veqb a b = true -> obs_equiv a b.
  Proof.
    destruct a, b; cbn; try discriminate; intros H; try constructor.
    - destruct (veqb_spec x x0); [subst; constructor | discriminate].
    - apply eqb_prop in H. subst. constructor.
    - apply Nat.eqb_eq in H. subst. constructor.
    - now apply (perm_eqb_sound keqb keqb_spec).
    - now apply (perm_eqb_sound _ kv_eqb_spec).
  Qed.

  Fixpoint all_equivb (a b : list (obs K V)) : bool :=
    match a, b with
    | [], [] => true
    | x :: a', y :: b' => obs_equivb keqb veqb x y && all_equivb a' b'
    | _, _ => false
    end.

  Lemma all_equivb_complete a b : Forall2 (@obs_equiv K V) a b -> all_equivb a b = true.
  Proof.
    induction 1 as [|x y a b Hxy H IH]; cbn; [reflexivity|].
    now rewrite (obs_equivb_complete Hxy), IH.
  Qed.
End ObsB.
