(* C16 — the abstract specification: a finite map keyed by the case-folded name, holding
   the spelling and value of the most recent write.  Short on purpose. *)
From Coq Require Import List Bool Arith.
From AUC Require Import Prelude.PyDict C16.Model.
Import ListNotations.
Set Implicit Arguments.

Section Spec.
  Variable K : Type.
  Variable keqb : K -> K -> bool.
  Variable lower : K -> K.
  Variable V : Type.
  Variable veqb : V -> V -> bool.

  Definition smap := dict K (K * V).   (* folded name |-> (spelling, value) *)

  Definition s_write (s : smap) (k : K) (v : V) : smap := dset keqb s (lower k) (k, v).
  Definition s_writes (s : smap) (items : list (K * V)) : smap :=
    fold_left (fun s kv => s_write s (fst kv) (snd kv)) items s.

  Definition s_get_lower (s : smap) (lk : K) : option V :=
    match dget keqb s lk with Some e => Some (snd e) | None => None end.
  Definition s_del_lower (s : smap) (lk : K) : option smap :=
    if dhas keqb s lk then Some (ddel keqb s lk) else None.
  Definition s_as_lower (s : smap) : list (K * V) := map (fun e => (fst e, snd (snd e))) s.

  Definition spec_iface : iface K V smap := {|
    i_init := fun items => Some (s_writes [] items);
    i_from := fun s => Some s;
    i_combine := fun a b => Some (s_writes a (map snd b));
    i_combine_lower := fun a items => Some (s_writes a items);
    i_set := fun s k v => Some (s_write s k v);
    i_del := fun s k => s_del_lower s (lower k);
    i_del_lower := s_del_lower;
    i_get := fun s k => s_get_lower s (lower k);
    i_get_lower := s_get_lower;
    i_len := fun s => length s;
    i_iter := fun s => map (fun e => fst (snd e)) s;
    i_as_lower := s_as_lower;
    i_eq := fun a b => deqb keqb veqb (s_as_lower a) (s_as_lower b);
    i_eq_plain := fun a items => deqb keqb veqb (s_as_lower a) (s_as_lower (s_writes [] items))
  |}.
End Spec.

(* ------------------------------------------------------------------------------------ *)
(* Observational equivalence (iteration orders are compared as permutations) and the
   domain of the refinement theorem. *)
Section Equiv.
  Variable K : Type.
  Variable keqb : K -> K -> bool.
  Variable lower : K -> K.
  Variable V : Type.
  Variable veqb : V -> V -> bool.

  Section Perm.
    Variable A : Type.
    Variable aeqb : A -> A -> bool.
    Fixpoint remove1 (x : A) (l : list A) : option (list A) :=
      match l with
      | [] => None
      | y :: r => if aeqb x y then Some r
                  else match remove1 x r with Some r' => Some (y :: r') | None => None end
      end.
    Fixpoint perm_eqb (l1 l2 : list A) : bool :=
      match l1 with
      | [] => match l2 with [] => true | _ => false end
      | x :: r => match remove1 x l2 with Some l2' => perm_eqb r l2' | None => false end
      end.
  End Perm.

  Definition kv_eqb (a b : K * V) : bool := keqb (fst a) (fst b) && veqb (snd a) (snd b).

  Definition obs_equivb (a b : obs K V) : bool :=
    match a, b with
    | ObDone, ObDone | ObKeyError, ObKeyError | ObDefault, ObDefault
    | ObUnbound, ObUnbound => true
    | ObVal x, ObVal y => veqb x y
    | ObBool x, ObBool y => Bool.eqb x y
    | ObNat x, ObNat y => Nat.eqb x y
    | ObKeys x, ObKeys y => perm_eqb keqb x y
    | ObItems x, ObItems y => perm_eqb kv_eqb x y
    | _, _ => false
    end.

  Inductive obs_equiv : obs K V -> obs K V -> Prop :=
  | EqSame o : obs_equiv o o
  | EqKeys x y : Permutation.Permutation x y -> obs_equiv (ObKeys x) (ObKeys y)
  | EqItems x y : Permutation.Permutation x y -> obs_equiv (ObItems x) (ObItems y).

  Fixpoint nodupb (l : list K) : bool :=
    match l with
    | [] => true
    | x :: r => negb (existsb (keqb x) r) && nodupb r
    end.
  (* a Python dict literal: distinct keys *)
  Definition is_dict (items : list (K * V)) : bool := nodupb (map fst items).
  (* documented premise of combine_lower_dict: keys are already lower case *)
  Definition all_lower (items : list (K * V)) : bool :=
    forallb (fun kv => keqb (lower (fst kv)) (fst kv)) items.

  Definition op_in_domain (o : op K V) : bool :=
    match o with
    | ONew _ items | OReplacePlain _ items | OEqPlain _ items => is_dict items
    | OCombineLower _ _ items => is_dict items && all_lower items
    | _ => true
    end.
  Definition in_domain (ops : list (op K V)) : bool := forallb op_in_domain ops.
End Equiv.
