(* C16 — lockstep simulation between two instances of the header-map machine, proved once
   for any two body implementations related by [Rel]. *)
From Coq Require Import List Bool Arith Lia Permutation.
From AUC Require Import Prelude.PyDict C16.Model C16.Spec.
Import ListNotations.
Set Implicit Arguments.

Section Sim.
  Variables K V : Type.
  Variable keqb : K -> K -> bool.
  Variable lower : K -> K.
  Variables B1 B2 : Type.
  Variable I1 : iface K V B1.
  Variable I2 : iface K V B2.
  Variable Rel : B1 -> B2 -> Prop.

  Definition opt_rel (o1 : option B1) (o2 : option B2) : Prop :=
    match o1, o2 with
    | Some b1, Some b2 => Rel b1 b2
    | None, None => True
    | _, _ => False
    end.

  Hypothesis H_init : forall items, is_dict keqb items = true ->
    opt_rel (i_init I1 items) (i_init I2 items).
  Hypothesis H_from : forall a1 a2, Rel a1 a2 -> opt_rel (i_from I1 a1) (i_from I2 a2).
  Hypothesis H_combine : forall a1 a2 b1 b2, Rel a1 a2 -> Rel b1 b2 ->
    opt_rel (i_combine I1 a1 b1) (i_combine I2 a2 b2).
  Hypothesis H_combine_lower : forall a1 a2 items, Rel a1 a2 ->
    is_dict keqb items = true -> all_lower keqb lower items = true ->
    opt_rel (i_combine_lower I1 a1 items) (i_combine_lower I2 a2 items).
  Hypothesis H_set : forall a1 a2 k v, Rel a1 a2 -> opt_rel (i_set I1 a1 k v) (i_set I2 a2 k v).
  Hypothesis H_del : forall a1 a2 k, Rel a1 a2 -> opt_rel (i_del I1 a1 k) (i_del I2 a2 k).
  Hypothesis H_del_lower : forall a1 a2 k, Rel a1 a2 ->
    opt_rel (i_del_lower I1 a1 k) (i_del_lower I2 a2 k).
  Hypothesis H_get : forall a1 a2 k, Rel a1 a2 -> i_get I1 a1 k = i_get I2 a2 k.
  Hypothesis H_get_lower : forall a1 a2 k, Rel a1 a2 -> i_get_lower I1 a1 k = i_get_lower I2 a2 k.
  Hypothesis H_len : forall a1 a2, Rel a1 a2 -> i_len I1 a1 = i_len I2 a2.
  Hypothesis H_iter : forall a1 a2, Rel a1 a2 -> Permutation (i_iter I1 a1) (i_iter I2 a2).
  Hypothesis H_as_lower : forall a1 a2, Rel a1 a2 ->
    Permutation (i_as_lower I1 a1) (i_as_lower I2 a2).
  Hypothesis H_eq : forall a1 a2 b1 b2, Rel a1 a2 -> Rel b1 b2 -> i_eq I1 a1 b1 = i_eq I2 a2 b2.
  Hypothesis H_eq_plain : forall a1 a2 items, Rel a1 a2 -> is_dict keqb items = true ->
    i_eq_plain I1 a1 items = i_eq_plain I2 a2 items.

  Definition SR (s1 : store B1) (s2 : store B2) : Prop :=
    env s1 = env s2 /\ Forall2 Rel (bodies s1) (bodies s2).

  Lemma Forall2_len (l1 : list B1) (l2 : list B2) : Forall2 Rel l1 l2 -> length l1 = length l2.
  Proof. induction 1; cbn; congruence. Qed.

  Lemma Forall2_nth (l1 : list B1) (l2 : list B2) i :
    Forall2 Rel l1 l2 ->
    match nth_error l1 i, nth_error l2 i with
    | Some b1, Some b2 => Rel b1 b2
    | None, None => True
    | _, _ => False
    end.
  Proof.
    intros H. revert i. induction H as [|x y l1 l2 Hxy H IH]; intros [|i]; cbn; auto.
    apply IH.
  Qed.

  Lemma Forall2_set_nth (l1 : list B1) (l2 : list B2) i b1 b2 :
    Forall2 Rel l1 l2 -> Rel b1 b2 -> Forall2 Rel (set_nth l1 i b1) (set_nth l2 i b2).
  Proof.
    intros H Hb. revert i. induction H as [|x y l1 l2 Hxy H IH]; intros [|i]; cbn;
      constructor; auto.
  Qed.

  Lemma body_of_rel s1 s2 v :
    SR s1 s2 ->
    match body_of s1 v, body_of s2 v with
    | Some (i, b1), Some (j, b2) => i = j /\ Rel b1 b2
    | None, None => True
    | _, _ => False
    end.
  Proof.
    intros [He Hb]. unfold body_of. rewrite He.
    destruct (lookup_var (env s2) v) as [i|]; [|exact I].
    pose proof (Forall2_nth i Hb) as Hn.
    destruct (nth_error (bodies s1) i), (nth_error (bodies s2) i); auto.
  Qed.

  Lemma SR_alloc s1 s2 v b1 b2 : SR s1 s2 -> Rel b1 b2 -> SR (alloc s1 v b1) (alloc s2 v b2).
  Proof.
    intros [He Hb] Hr. split; cbn.
    - rewrite He, (Forall2_len Hb). reflexivity.
    - apply Forall2_app; [exact Hb | constructor; [exact Hr | constructor]].
  Qed.

  Lemma SR_update s1 s2 i b1 b2 : SR s1 s2 -> Rel b1 b2 -> SR (update s1 i b1) (update s2 i b2).
  Proof.
    intros [He Hb] Hr. split; cbn; [exact He | now apply Forall2_set_nth].
  Qed.

  Lemma SR_rebind s1 s2 v i : SR s1 s2 -> SR (rebind s1 v i) (rebind s2 v i).
  Proof. intros [He Hb]. split; cbn; [now rewrite He | exact Hb]. Qed.

  Definition step_rel (r1 : store B1 * obs K V) (r2 : store B2 * obs K V) : Prop :=
    SR (fst r1) (fst r2) /\ obs_equiv (snd r1) (snd r2).

  Lemma new_from_rel s1 s2 v o1 o2 :
    SR s1 s2 -> opt_rel o1 o2 -> step_rel (new_from K V s1 v o1) (new_from K V s2 v o2).
  Proof.
    intros Hs Ho. destruct o1, o2; cbn in *; try contradiction; split; cbn;
      auto using SR_alloc; constructor.
  Qed.

  Lemma mutate_rel s1 s2 i o1 o2 :
    SR s1 s2 -> opt_rel o1 o2 -> step_rel (mutate K V s1 i o1) (mutate K V s2 i o2).
  Proof.
    intros Hs Ho. destruct o1, o2; cbn in *; try contradiction; split; cbn;
      auto using SR_update; constructor.
  Qed.

  Ltac with_body s1 s2 v Hs :=
    let H := fresh "Hbo" in
    pose proof (@body_of_rel s1 s2 v Hs) as H;
    destruct (body_of s1 v) as [[? ?]|], (body_of s2 v) as [[? ?]|];
    try contradiction; [destruct H as [? H]; subst | ].

  Lemma step_sim s1 s2 o :
    SR s1 s2 -> op_in_domain keqb lower o = true ->
    step_rel (step I1 s1 o) (step I2 s2 o).
  Proof.
    intros Hs Hdom.
    assert (Hunb : step_rel (s1, ObUnbound) (s2, ObUnbound)) by (split; [exact Hs | constructor]).
    destruct o; cbn [step op_in_domain] in *.
    - (* ONew *) apply new_from_rel; auto.
    - (* ONewFrom *) with_body s1 s2 w Hs; [|exact Hunb]. apply new_from_rel; auto.
    - (* OCopy *) with_body s1 s2 w Hs; [|exact Hunb].
      split; cbn; [now apply SR_alloc | constructor].
    - (* OCombine *) with_body s1 s2 a Hs; [|exact Hunb].
      with_body s1 s2 b Hs; [|exact Hunb]. apply new_from_rel; auto.
    - (* OCombineLower *) apply andb_true_iff in Hdom as [Hd Hl].
      with_body s1 s2 a Hs; [|exact Hunb]. apply new_from_rel; auto.
    - (* OReplace *) with_body s1 s2 v Hs; [|exact Hunb].
      with_body s1 s2 w Hs; [|exact Hunb].
      split; cbn; [now apply SR_rebind | constructor].
    - (* OReplacePlain *) with_body s1 s2 v Hs; [|exact Hunb]. apply new_from_rel; auto.
    - (* OSet *) with_body s1 s2 v Hs; [|exact Hunb]. apply mutate_rel; auto.
    - (* ODel *) with_body s1 s2 v Hs; [|exact Hunb]. apply mutate_rel; auto.
    - (* ODelLower *) with_body s1 s2 v Hs; [|exact Hunb]. apply mutate_rel; auto.
    - (* OPop *) with_body s1 s2 v Hs; [|exact Hunb].
      rewrite (H_get k Hbo).
      destruct (i_get I2 b0 k); [|split; [exact Hs | constructor]].
      pose proof (H_del k Hbo) as Hd.
      destruct (i_del I1 b k), (i_del I2 b0 k); cbn in Hd; try contradiction;
        split; cbn; auto using SR_update; constructor.
    - (* OGet *) with_body s1 s2 v Hs; [|exact Hunb].
      rewrite (H_get k Hbo). split; [exact Hs | constructor].
    - (* OGetLower *) with_body s1 s2 v Hs; [|exact Hunb].
      rewrite (H_get_lower lk Hbo). split; [exact Hs | constructor].
    - (* OContains *) with_body s1 s2 v Hs; [|exact Hunb].
      rewrite (H_get k Hbo). split; [exact Hs | constructor].
    - (* OLen *) with_body s1 s2 v Hs; [|exact Hunb].
      rewrite (H_len Hbo). split; [exact Hs | constructor].
    - (* OIter *) with_body s1 s2 v Hs; [|exact Hunb].
      split; [exact Hs | constructor; now apply H_iter].
    - (* OAsLower *) with_body s1 s2 v Hs; [|exact Hunb].
      split; [exact Hs | constructor; now apply H_as_lower].
    - (* OEq *) with_body s1 s2 v Hs; [|exact Hunb].
      with_body s1 s2 w Hs; [|exact Hunb].
      rewrite (H_eq Hbo Hbo0). split; [exact Hs | constructor].
    - (* OEqPlain *) with_body s1 s2 v Hs; [|exact Hunb].
      rewrite (H_eq_plain _ Hbo Hdom). split; [exact Hs | constructor].
  Qed.

  Lemma run_from_sim ops : forall s1 s2,
    SR s1 s2 -> in_domain keqb lower ops = true ->
    Forall2 (@obs_equiv K V) (run_from I1 s1 ops) (run_from I2 s2 ops).
  Proof.
    induction ops as [|o ops IH]; intros s1 s2 Hs Hdom; cbn; [constructor|].
    cbn in Hdom. apply andb_true_iff in Hdom as [Ho Hr].
    pose proof (@step_sim s1 s2 o Hs Ho) as [Hs' Hobs].
    destruct (step I1 s1 o) as [s1' o1], (step I2 s2 o) as [s2' o2]. cbn in *.
    constructor; [exact Hobs | now apply IH].
  Qed.

  Theorem run_sim ops :
    in_domain keqb lower ops = true ->
    Forall2 (@obs_equiv K V) (run I1 ops) (run I2 ops).
  Proof.
    intros Hdom. apply run_from_sim; [|exact Hdom]. split; cbn; [reflexivity | constructor].
  Qed.
End Sim.
