(* C16 — independence of copies and combinations: a frame property of the header-map
   machine, valid for every body implementation (so for the model and for the spec). *)
From Coq Require Import List Bool Arith Lia.
From AUC Require Import Prelude.PyDict C16.Model.
Import ListNotations.
Set Implicit Arguments.

Section Indep.
  Variables K V B : Type.
  Variable I : iface K V B.

  (* operations that mutate the header map held by variable v in place *)
  Definition mutates (v : nat) (o : op K V) : bool :=
    match o with
    | OSet v' _ _ | ODel v' _ | ODelLower v' _ | OPop v' _ => Nat.eqb v' v
    | _ => false
    end.

  (* operations that bind v to a brand new header map *)
  Definition allocates (o : op K V) : option nat :=
    match o with
    | ONew v _ | ONewFrom v _ | OCopy v _ | OCombine v _ _ | OCombineLower v _ _
    | OReplacePlain v _ => Some v
    | _ => None
    end.

  Definition wf (s : store B) : Prop :=
    forall w i, lookup_var (env s) w = Some i -> i < length (bodies s).

  Fixpoint exec (s : store B) (ops : list (op K V)) : store B :=
    match ops with [] => s | o :: r => exec (fst (step I s o)) r end.

  Lemma set_nth_other (l : list B) i j b : i <> j -> nth_error (set_nth l j b) i = nth_error l i.
  Proof.
    revert i j. induction l as [|x l IH]; intros [|i] [|j] H; cbn; try reflexivity; try congruence.
    apply IH. congruence.
  Qed.

  Lemma set_nth_length (l : list B) j b : length (set_nth l j b) = length l.
  Proof. revert j. induction l as [|x l IH]; intros [|j]; cbn; auto. Qed.

  Lemma mutate_frame (s : store B) j ob w i :
    lookup_var (env s) w = Some i -> i <> j ->
    body_of (fst (mutate K V s j ob)) w = body_of s w /\ env (fst (mutate K V s j ob)) = env s.
  Proof.
    intros Hw Hne. destruct ob; cbn; [|auto]. unfold body_of. cbn. rewrite Hw.
    now rewrite set_nth_other.
  Qed.

  Lemma body_of_eq (s : store B) v j :
    lookup_var (env s) v = Some j ->
    body_of s v = match nth_error (bodies s) j with Some b => Some (j, b) | None => None end.
  Proof. intros H. unfold body_of. now rewrite H. Qed.

  Lemma step_mutates_frame (s : store B) o v w i j :
    mutates v o = true ->
    lookup_var (env s) v = Some j -> lookup_var (env s) w = Some i -> i <> j ->
    body_of (fst (step I s o)) w = body_of s w /\ env (fst (step I s o)) = env s.
  Proof.
    intros Hm Hv Hw Hne.
    destruct o; cbn in Hm; try discriminate; apply Nat.eqb_eq in Hm; subst; cbn [step];
      rewrite (@body_of_eq s v j Hv); destruct (nth_error (bodies s) j); cbn [fst]; auto;
      try (now apply (@mutate_frame s j _ w i Hw Hne)).
    destruct (i_get I b k); cbn [fst]; auto. destruct (i_del I b k); cbn [fst]; auto.
    split; [|reflexivity]. unfold body_of, update. cbn [env bodies]. rewrite Hw.
    now rewrite set_nth_other.
  Qed.

  (* Mutating one header map never changes what another (non-aliased) one holds. *)
  Theorem independent (s : store B) v w i j muts :
    lookup_var (env s) v = Some j -> lookup_var (env s) w = Some i -> i <> j ->
    forallb (mutates v) muts = true ->
    body_of (exec s muts) w = body_of s w.
  Proof.
    revert s. induction muts as [|o r IH]; intros s Hv Hw Hne Hall; cbn; [reflexivity|].
    cbn in Hall. apply andb_true_iff in Hall as [Ho Hr].
    destruct (@step_mutates_frame s o v w i j Ho Hv Hw Hne) as [Hb He].
    rewrite IH; auto; now rewrite He.
  Qed.

  Lemma lookup_alloc (s : store B) v b w :
    lookup_var (env (alloc s v b)) w =
    if Nat.eqb v w then Some (length (bodies s)) else lookup_var (env s) w.
  Proof. reflexivity. Qed.

  (* copy / combine / combine_lower_dict / construction bind the target to a fresh body that no
     other variable refers to. *)
  Theorem fresh (s : store B) o v :
    wf s -> allocates o = Some v -> snd (step I s o) = ObDone ->
    lookup_var (env (fst (step I s o))) v = Some (length (bodies s)) /\
    forall w i, w <> v -> lookup_var (env (fst (step I s o))) w = Some i -> i < length (bodies s).
  Proof.
    intros Hwf Ha Hdone.
    assert (G : forall ob, snd (new_from K V s v ob) = ObDone ->
      lookup_var (env (fst (new_from K V s v ob))) v = Some (length (bodies s)) /\
      forall w i, w <> v -> lookup_var (env (fst (new_from K V s v ob))) w = Some i ->
                  i < length (bodies s)).
    { intros [b|]; cbn; [|discriminate]. intros _. rewrite Nat.eqb_refl. split; [reflexivity|].
      intros w i Hne. destruct (Nat.eqb_spec v w); [congruence|]. apply Hwf. }
    destruct o; cbn in Ha; inversion Ha; subst; cbn [step] in *.
    - now apply G.
    - destruct (body_of s w) as [[? ?]|]; [now apply G | discriminate].
    - destruct (body_of s w) as [[? ?]|]; [|discriminate]. cbn. rewrite Nat.eqb_refl.
      split; [reflexivity|]. intros w' i Hne. destruct (Nat.eqb_spec v w'); [congruence|]. apply Hwf.
    - destruct (body_of s a) as [[? ?]|]; [|discriminate].
      destruct (body_of s b) as [[? ?]|]; [now apply G | discriminate].
    - destruct (body_of s a) as [[? ?]|]; [now apply G | discriminate].
    - destruct (body_of s v) as [[? ?]|]; [now apply G | discriminate].
  Qed.
End Indep.
