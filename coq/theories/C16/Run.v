(* C16 — instantiation used by the correspondence check (never by a theorem). *)
From Coq Require Import List Bool NArith Arith.
From AUC Require Export Prelude.PyDict Prelude.PyStr C16.Model C16.Spec.
Import ListNotations.

(* str.lower() on the non-ASCII code points the generators use *)
Definition lower_ext (c : N) : N :=
  match c with
  | 201 => 233 | 214 => 246 | 1046 => 1078 | 913 => 945
  | _ => c
  end%N.
Definition lower := lower_with lower_ext.
Definition K := pystr.
Definition V := N.
Definition input := list (op K V).
Definition observation := list (obs K V).

Definition model_run (i : input) : observation := run (body_iface str_eqb lower N.eqb) i.
Definition spec_run (i : input) : observation := run (spec_iface str_eqb lower N.eqb) i.
Definition dom (i : input) : bool := in_domain str_eqb lower i.

Fixpoint first_diff (n : N) (a b : observation) : option N :=
  match a, b with
  | [], [] => None
  | x :: a', y :: b' => if obs_equivb str_eqb N.eqb x y then first_diff (N.succ n) a' b' else Some n
  | _, _ => Some n
  end.

(* (case index, kind, position): kind 0 = model differs from the implementation,
   kind 1 = the implementation's observation violates the specification (clause refines) *)
Fixpoint report (base : N) (cases : list (input * observation)) : list (N * N * N) :=
  match cases with
  | [] => []
  | (i, o) :: r =>
      (match first_diff 0 (model_run i) o with Some p => [(base, 0%N, p)] | None => [] end) ++
      (if dom i then match first_diff 0 (spec_run i) o with Some p => [(base, 1%N, p)] | None => [] end
       else []) ++
      report (N.succ base) r
  end.

Definition replay (c : input * observation) :=
  (model_run (fst c), spec_run (fst c), dom (fst c)).
