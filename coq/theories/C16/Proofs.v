(* C16 — the concrete two-dict body refines the folded-key map. *)
From Coq Require Import List Bool Arith Lia Permutation.
From AUC Require Import Prelude.PyDict C16.Model C16.Spec C16.Sim.
Import ListNotations.
Set Implicit Arguments.

Section BodyProofs.
  Variable K : Type.
  Variable keqb : K -> K -> bool.
  Hypothesis keqb_spec : forall a b, reflect (a = b) (keqb a b).
  Variable lower : K -> K.
  Variable V : Type.
  Variable veqb : V -> V -> bool.
  Hypothesis veqb_spec : forall a b, reflect (a = b) (veqb a b).

  Local Notation get := (dget keqb).
  Local Notation KS := (keqb_spec).

  (* lookup through the case map, then the data dict *)
  Definition plookup (d : dict K V) (cm : dict K K) (lk : K) : option (K * V) :=
    match get cm lk with
    | Some k => match get d k with Some v => Some (k, v) | None => None end
    | None => None
    end.
  Definition blookup (b : body K V) := plookup (bdata b) (bcmap b).

  (* later-wins by folded key over an item list *)
  Definition LW (items : list (K * V)) (lk : K) : option (K * V) :=
    dlast keqb (map (fun kv => (lower (fst kv), kv)) items) lk.

  Record Inv (b : body K V) : Prop := {
    inv_nd_d : NoDup (dkeys (bdata b));
    inv_nd_c : NoDup (dkeys (bcmap b));
    inv_c : forall lk k, get (bcmap b) lk = Some k -> lower k = lk /\ In k (dkeys (bdata b));
    inv_d : forall k, In k (dkeys (bdata b)) -> get (bcmap b) (lower k) = Some k
  }.
  Record SInv (s : smap K V) : Prop := {
    sinv_nd : NoDup (dkeys s);
    sinv_k : forall lk e, get s lk = Some e -> lower (fst e) = lk
  }.
  Definition Rel (b : body K V) (s : smap K V) : Prop :=
    Inv b /\ SInv s /\ forall lk, blookup b lk = get s lk.

  (* ---------------------------------------------------------------- boolean reflection *)
  Lemma existsb_keqb x l : existsb (keqb x) l = true <-> In x l.
  Proof.
    rewrite existsb_exists. split.
    - intros [y [Hy He]]. destruct (KS x y); congruence.
    - intros H. exists x. split; [exact H|]. destruct (KS x x); congruence.
  Qed.

  Lemma nodupb_NoDup l : nodupb keqb l = true -> NoDup l.
  Proof.
    induction l as [|x l IH]; cbn; [constructor|].
    rewrite andb_true_iff, negb_true_iff. intros [Hn Hr]. constructor; [|auto].
    intros Hin. apply existsb_keqb in Hin. congruence.
  Qed.

  Lemma NoDup_nodupb l : NoDup l -> nodupb keqb l = true.
  Proof.
    induction 1 as [|x l Hn Hnd IH]; cbn; [reflexivity|].
    rewrite IH, andb_true_r, negb_true_iff.
    destruct (existsb (keqb x) l) eqn:E; [|reflexivity]. apply existsb_keqb in E. contradiction.
  Qed.

  (* ---------------------------------------------------------------- _unique_case_data *)
  Lemma rebuild_ok (d : dict K V) : forall ks (acc : dict K V),
    NoDup (dkeys acc ++ ks) -> (forall k, In k ks -> In k (dkeys d)) ->
    exists d', rebuild keqb d ks acc = Some d' /\ dkeys d' = dkeys acc ++ ks /\
      (forall k, In k ks -> get d' k = get d k) /\
      (forall k, ~ In k ks -> get d' k = get acc k).
  Proof.
    induction ks as [|k r IH]; intros acc Hnd Hin; cbn.
    - exists acc. rewrite app_nil_r. repeat split; auto. intros k [].
    - assert (Hk : In k (dkeys d)) by (apply Hin; now left).
      apply (In_dkeys_dget keqb KS) in Hk. destruct (get d k) as [v|] eqn:Ed; [|congruence].
      assert (Hnk : get acc k = None).
      { apply (dget_None_notin keqb KS). intros Hi. apply NoDup_remove_2 in Hnd. apply Hnd.
        apply in_app_iff. now left. }
      rewrite (dset_absent keqb acc k v Hnk).
      destruct (IH (acc ++ [(k, v)])) as [d' [Hr [Hkeys [Hin' Hout]]]].
      + unfold dkeys. rewrite map_app, <- app_assoc. exact Hnd.
      + intros k0 Hk0. apply Hin. now right.
      + exists d'. split; [exact Hr|]. split.
        { rewrite Hkeys. unfold dkeys. rewrite map_app, <- app_assoc. reflexivity. }
        assert (Hkr : ~ In k r).
        { intros Hi. apply NoDup_remove_2 in Hnd. apply Hnd. apply in_app_iff. now right. }
        split.
        * intros k0 [<-|Hk0]; [|now apply Hin'].
          rewrite (Hout _ Hkr), (dget_app keqb), Hnk. cbn.
          destruct (KS k k); congruence.
        * intros k0 Hk0. rewrite Hout by (intros Hi; apply Hk0; now right).
          rewrite (dget_app keqb). destruct (get acc k0); [reflexivity|]. cbn.
          destruct (KS k k0) as [->|Hne]; [|reflexivity]. exfalso. apply Hk0. now left.
  Qed.

  Lemma cm_vals_nodup (cm : dict K K) :
    NoDup (dkeys cm) -> (forall lk k, get cm lk = Some k -> lower k = lk) ->
    NoDup (map snd cm).
  Proof.
    intros Hnd Hc. apply NoDup_map_inj_on; [|now apply NoDup_pairs].
    intros [lk1 k1] [lk2 k2] H1 H2. cbn. intros ->.
    apply (In_dget keqb KS _ _ _ Hnd) in H1. apply (In_dget keqb KS _ _ _ Hnd) in H2.
    apply Hc in H1. apply Hc in H2. congruence.
  Qed.

  Lemma cm_val_in (cm : dict K K) k :
    NoDup (dkeys cm) -> (In k (map snd cm) <-> exists lk, get cm lk = Some k).
  Proof.
    intros Hnd. rewrite in_map_iff. split.
    - intros [[lk k'] [Hs Hi]]. cbn in Hs. subst. exists lk. now apply (In_dget keqb KS).
    - intros [lk Hg]. exists (lk, k). split; [reflexivity | now apply (dget_In keqb KS)].
  Qed.

  Lemma mk_ok (d : dict K V) (cm : dict K K) :
    NoDup (dkeys d) -> NoDup (dkeys cm) ->
    (forall lk k, get cm lk = Some k -> lower k = lk /\ In k (dkeys d)) ->
    exists b, mk keqb d cm = Some b /\ Inv b /\ bcmap b = cm /\
              (forall lk, blookup b lk = plookup d cm lk).
  Proof.
    intros Hd Hc Hcm.
    assert (Hvn : NoDup (map snd cm)) by (apply cm_vals_nodup; [exact Hc | intros; now apply Hcm]).
    assert (Hvi : incl (map snd cm) (dkeys d)).
    { intros k Hk. apply cm_val_in in Hk; [|exact Hc]. destruct Hk as [lk Hk]. now apply Hcm in Hk. }
    unfold mk, unique_case. destruct (Nat.eqb (length cm) (length d)) eqn:El.
    - apply Nat.eqb_eq in El. eexists. split; [reflexivity|]. split; [|split; [reflexivity|reflexivity]].
      constructor; cbn [bdata bcmap]; auto. intros k Hk.
      assert (Hrev : incl (dkeys d) (map snd cm)).
      { apply NoDup_length_incl; [exact Hvn| |exact Hvi]. unfold dkeys. rewrite !map_length. lia. }
      apply Hrev in Hk. apply cm_val_in in Hk; [|exact Hc]. destruct Hk as [lk Hk].
      destruct (Hcm _ _ Hk) as [<- _]. exact Hk.
    - destruct (@rebuild_ok d (map snd cm) []) as [d' [Hr [Hkeys [Hin Hout]]]]; [exact Hvn | exact Hvi |].
      rewrite Hr. eexists. split; [reflexivity|]. cbn [dkeys map app] in Hkeys. split; [|split; [reflexivity|]].
      + constructor; cbn [bdata bcmap]; rewrite ?Hkeys; auto.
        * intros lk k Hg. split; [now apply Hcm in Hg|]. apply cm_val_in; [exact Hc|]. now exists lk.
        * intros k Hk. apply cm_val_in in Hk; [|exact Hc]. destruct Hk as [lk Hk].
          destruct (Hcm _ _ Hk) as [<- _]. exact Hk.
      + intros lk. unfold blookup, plookup. cbn. destruct (get cm lk) as [k|] eqn:E; [|reflexivity].
        rewrite Hin; [reflexivity|]. apply cm_val_in; [exact Hc|]. now exists lk.
  Qed.

  (* ---------------------------------------------------------------- spec-side facts *)
  Lemma s_writes_get (s : smap K V) items lk :
    get (s_writes keqb lower s items) lk =
    match LW items lk with Some e => Some e | None => get s lk end.
  Proof.
    revert s. induction items as [|[k v] r IH]; intros s; [reflexivity|].
    change (s_writes keqb lower s ((k, v) :: r))
      with (s_writes keqb lower (s_write keqb lower s k v) r).
    rewrite IH. unfold LW. cbn. fold (LW r lk).
    destruct (LW r lk); [reflexivity|].
    unfold s_write. rewrite (dget_dset keqb KS). cbn. destruct (keqb (lower k) lk); reflexivity.
  Qed.

  Lemma SInv_nil : SInv [].
  Proof. constructor; [constructor | intros lk e H; discriminate]. Qed.

  Lemma SInv_write s k v : SInv s -> SInv (s_write keqb lower s k v).
  Proof.
    intros [Hn Hk]. constructor.
    - now apply (NoDup_dset keqb KS).
    - intros lk e. unfold s_write. rewrite (dget_dset keqb KS).
      destruct (KS (lower k) lk) as [<-|Hne]; [|apply Hk].
      intros H; inversion H; reflexivity.
  Qed.

  Lemma SInv_writes items : forall s, SInv s -> SInv (s_writes keqb lower s items).
  Proof.
    induction items as [|[k v] r IH]; intros s Hs; [exact Hs|].
    change (s_writes keqb lower s ((k, v) :: r))
      with (s_writes keqb lower (s_write keqb lower s k v) r).
    apply IH. now apply SInv_write.
  Qed.

  Lemma SInv_del s lk : SInv s -> SInv (ddel keqb s lk).
  Proof.
    intros [Hn Hk]. constructor.
    - now apply (NoDup_ddel keqb).
    - intros lk' e. rewrite (dget_ddel keqb KS) by exact Hn.
      destruct (keqb lk lk'); [discriminate | apply Hk].
  Qed.

  Lemma LW_Some items lk e : LW items lk = Some e -> In e items /\ lower (fst e) = lk.
  Proof.
    unfold LW. intros H. apply (dlast_In keqb KS) in H. apply in_map_iff in H as [kv [Heq Hin]].
    inversion Heq; subst. auto.
  Qed.

  Lemma LW_None items lk : LW items lk = None -> forall kv, In kv items -> lower (fst kv) <> lk.
  Proof.
    unfold LW. intros H kv Hin Hl. apply (dlast_None keqb KS) in H. apply H.
    rewrite map_map. cbn. apply in_map_iff. exists kv. auto.
  Qed.

  Lemma build_cmap_get (d : dict K V) lk :
    get (build_cmap keqb lower d) lk = match LW d lk with Some e => Some (fst e) | None => None end.
  Proof.
    unfold build_cmap. rewrite (fold_dset_dmerge keqb lower (fun k => k)).
    rewrite (dget_dmerge keqb KS). cbn. unfold dkeys. rewrite map_map.
    rewrite (dlast_map_val keqb (fun kv : K * V => lower (fst kv)) (@fst K V)).
    unfold LW. destruct (dlast keqb _ lk); reflexivity.
  Qed.

  Lemma build_cmap_nodup (d : dict K V) : NoDup (dkeys (build_cmap keqb lower d)).
  Proof.
    unfold build_cmap. rewrite (fold_dset_dmerge keqb lower (fun k => k)).
    apply (NoDup_dmerge keqb KS). constructor.
  Qed.

  Lemma init_ok items : is_dict keqb items = true ->
    exists b, b_init keqb lower items = Some b /\ Inv b /\ forall lk, blookup b lk = LW items lk.
  Proof.
    intros Hd. apply nodupb_NoDup in Hd. unfold b_init.
    rewrite (dmerge_dict keqb KS [] items) by exact Hd. cbn [app].
    destruct (@mk_ok items (build_cmap keqb lower items)) as [b [Hm [Hi [Hc Hl]]]].
    - exact Hd.
    - apply build_cmap_nodup.
    - intros lk k. rewrite build_cmap_get. destruct (LW items lk) eqn:E; [|discriminate].
      intros H; inversion H; subst. apply LW_Some in E as [Hin Hlk]. split; [exact Hlk|].
      now apply (in_map fst) in Hin.
    - exists b. split; [exact Hm|]. split; [exact Hi|]. intros lk. rewrite Hl. unfold plookup.
      rewrite build_cmap_get. destruct (LW items lk) as [[k v]|] eqn:E; [|reflexivity]. cbn.
      apply LW_Some in E as [Hin _]. now rewrite (In_dget keqb KS _ _ _ Hd Hin).
  Qed.

  Lemma H_init_body items : is_dict keqb items = true ->
    opt_rel Rel (b_init keqb lower items) (Some (s_writes keqb lower [] items)).
  Proof.
    intros Hd. destruct (init_ok items Hd) as [b [-> [Hi Hl]]]. cbn.
    split; [exact Hi|]. split; [apply SInv_writes, SInv_nil|].
    intros lk. rewrite Hl, s_writes_get. cbn. destruct (LW items lk); reflexivity.
  Qed.

  (* ---------------------------------------------------------------- __setitem__ *)
  Lemma set_core b (d1 : dict K V) k v :
    Inv b -> NoDup (dkeys d1) ->
    (forall x, In x (dkeys d1) -> In x (dkeys (bdata b))) ->
    (forall x, lower x <> lower k -> get d1 x = get (bdata b) x) ->
    (forall x, In x (dkeys d1) -> lower x = lower k -> x = k) ->
    let b' := {| bdata := dset keqb d1 k v; bcmap := dset keqb (bcmap b) (lower k) k |} in
    Inv b' /\ forall lk, blookup b' lk = if keqb (lower k) lk then Some (k, v) else blookup b lk.
  Proof.
    intros [Hnd Hnc Hc Hd] Hn1 Hsub Hsame Huniq b'. split.
    - constructor; cbn [bdata bcmap b'].
      + now apply (NoDup_dset keqb KS).
      + now apply (NoDup_dset keqb KS).
      + intros lk k'. rewrite (dget_dset keqb KS). destruct (KS (lower k) lk) as [<-|Hne].
        * intros H; inversion H; subst. split; [reflexivity|]. apply (In_dkeys_dset keqb KS). now left.
        * intros Hg. destruct (Hc _ _ Hg) as [Hl Hin]. split; [exact Hl|].
          apply (In_dkeys_dset keqb KS). right. apply (In_dkeys_dget keqb KS).
          rewrite Hsame by congruence. now apply (In_dkeys_dget keqb KS).
      + intros x Hx. apply (In_dkeys_dset keqb KS) in Hx. rewrite (dget_dset keqb KS).
        destruct Hx as [->|Hx]; [destruct (KS (lower k) (lower k)); congruence|].
        destruct (KS (lower k) (lower x)) as [He|Hne].
        * f_equal. symmetry. apply Huniq; [exact Hx | now symmetry].
        * apply Hd. now apply Hsub.
    - intros lk. unfold blookup, plookup. cbn [bdata bcmap b']. rewrite (dget_dset keqb KS).
      destruct (KS (lower k) lk) as [<-|Hne].
      + rewrite (dget_dset keqb KS). destruct (KS k k); [reflexivity | congruence].
      + destruct (get (bcmap b) lk) as [k'|] eqn:E; [|reflexivity].
        destruct (Hc _ _ E) as [Hl _]. rewrite (dget_dset keqb KS).
        destruct (KS k k') as [->|Hkk]; [congruence|].
        rewrite Hsame by congruence. reflexivity.
  Qed.

  Lemma set_ok b k v : Inv b ->
    exists b', b_set keqb lower b k v = Some b' /\ Inv b' /\
      forall lk, blookup b' lk = if keqb (lower k) lk then Some (k, v) else blookup b lk.
  Proof.
    intros Hi. pose proof Hi as [Hnd Hnc Hc Hd]. unfold b_set.
    destruct (get (bcmap b) (lower k)) as [k0|] eqn:E.
    - destruct (Hc _ _ E) as [Hl0 Hin0]. destruct (KS k0 k) as [->|Hne].
      + eexists. split; [reflexivity|]. apply set_core; auto.
        intros x Hx Hl. apply Hd in Hx. rewrite Hl in Hx. congruence.
      + unfold del_key, dhas. apply (In_dkeys_dget keqb KS) in Hin0.
        destruct (get (bdata b) k0) eqn:E0; [|congruence].
        eexists. split; [reflexivity|]. apply set_core; auto.
        * now apply (NoDup_ddel keqb).
        * intros x Hx. now apply (dkeys_ddel_incl keqb) in Hx.
        * intros x Hx. rewrite (dget_ddel keqb KS) by exact Hnd.
          destruct (KS k0 x) as [->|]; [congruence | reflexivity].
        * intros x Hx Hl. apply (In_dkeys_ddel keqb KS) in Hx; [|exact Hnd]. destruct Hx as [Hx0 Hx].
          apply Hd in Hx. rewrite Hl in Hx. congruence.
    - eexists. split; [reflexivity|]. apply set_core; auto.
      intros x Hx Hl. apply Hd in Hx. rewrite Hl in Hx. congruence.
  Qed.

  Lemma H_set_body b s k v : Rel b s ->
    opt_rel Rel (b_set keqb lower b k v) (Some (s_write keqb lower s k v)).
  Proof.
    intros [Hi [Hs Hl]]. destruct (set_ok k v Hi) as [b' [-> [Hi' Hl']]]. cbn.
    split; [exact Hi'|]. split; [now apply SInv_write|].
    intros lk. rewrite Hl'. unfold s_write. rewrite (dget_dset keqb KS), Hl. reflexivity.
  Qed.

  (* ---------------------------------------------------------------- __delitem__ / del_lower *)
  Lemma H_del_lower_body b s lk : Rel b s ->
    opt_rel Rel (b_del_lower keqb b lk) (s_del_lower keqb s lk).
  Proof.
    intros [Hi [Hs Hl]]. pose proof Hi as [Hnd Hnc Hc Hd]. pose proof Hs as [Hsn Hsk].
    unfold b_del_lower, s_del_lower, dhas. specialize (Hl lk) as Hlk.
    unfold blookup, plookup in Hlk.
    destruct (get (bcmap b) lk) as [k0|] eqn:E.
    - destruct (Hc _ _ E) as [Hl0 Hin0]. apply (In_dkeys_dget keqb KS) in Hin0.
      unfold del_key, dhas. destruct (get (bdata b) k0) as [v0|] eqn:E0; [|congruence].
      rewrite <- Hlk. cbn. split; [|split; [now apply SInv_del|]].
      + constructor; cbn [bdata bcmap].
        * now apply (NoDup_ddel keqb).
        * now apply (NoDup_ddel keqb).
        * intros lk' k'. rewrite (dget_ddel keqb KS) by exact Hnc.
          destruct (KS lk lk') as [->|Hne]; [discriminate|]. intros Hg.
          destruct (Hc _ _ Hg) as [Hl' Hin']. split; [exact Hl'|].
          apply (In_dkeys_ddel keqb KS); [exact Hnd|]. split; [congruence | exact Hin'].
        * intros x Hx. apply (In_dkeys_ddel keqb KS) in Hx; [|exact Hnd]. destruct Hx as [Hx0 Hx].
          rewrite (dget_ddel keqb KS) by exact Hnc. apply Hd in Hx.
          destruct (KS lk (lower x)) as [->|Hne]; [congruence | exact Hx].
      + intros lk'. unfold blookup, plookup. cbn [bdata bcmap].
        rewrite !(dget_ddel keqb KS) by assumption.
        destruct (KS lk lk') as [->|Hne]; [reflexivity|]. rewrite <- Hl. unfold blookup, plookup.
        destruct (get (bcmap b) lk') as [k'|] eqn:E'; [|reflexivity].
        destruct (Hc _ _ E') as [Hl' _]. rewrite (dget_ddel keqb KS) by exact Hnd.
        destruct (KS k0 k') as [->|]; [congruence | reflexivity].
    - rewrite <- Hlk. exact I.
  Qed.

  Lemma H_get_lower_body b s lk : Rel b s -> b_get_lower keqb b lk = s_get_lower keqb s lk.
  Proof.
    intros [Hi [Hs Hl]]. unfold b_get_lower, s_get_lower. rewrite <- Hl. unfold blookup, plookup.
    destruct (get (bcmap b) lk); [|reflexivity]. destruct (get (bdata b) k); reflexivity.
  Qed.

  (* ---------------------------------------------------------------- combine *)
  Lemma smap_self s : SInv s -> map (fun e => (lower (fst e), e)) (map snd s) = s.
  Proof.
    intros [Hn Hk]. rewrite map_map. rewrite <- (map_id s) at 2. apply map_ext_in.
    intros [lk e] Hin. cbn. f_equal. apply Hk. now apply (In_dget keqb KS).
  Qed.

  Lemma LW_smap s lk : SInv s -> LW (map snd s) lk = get s lk.
  Proof.
    intros Hs. unfold LW. rewrite smap_self by exact Hs. apply (dlast_dget keqb KS). apply Hs.
  Qed.

  Lemma H_combine_body a1 a2 b1 b2 : Rel a1 a2 -> Rel b1 b2 ->
    opt_rel Rel (b_combine keqb a1 b1) (Some (s_writes keqb lower a2 (map snd b2))).
  Proof.
    intros [Hia [Hsa Hla]] [Hib [Hsb Hlb]].
    pose proof Hia as [Hnda Hnca Hca Hda]. pose proof Hib as [Hndb Hncb Hcb Hdb].
    unfold b_combine.
    assert (Gd : forall k, get (dmerge keqb (bdata a1) (bdata b1)) k =
                           match get (bdata b1) k with Some v => Some v | None => get (bdata a1) k end).
    { intros k. rewrite (dget_dmerge keqb KS), (dlast_dget keqb KS) by exact Hndb. reflexivity. }
    assert (Gc : forall k, get (dmerge keqb (bcmap a1) (bcmap b1)) k =
                           match get (bcmap b1) k with Some v => Some v | None => get (bcmap a1) k end).
    { intros k. rewrite (dget_dmerge keqb KS), (dlast_dget keqb KS) by exact Hncb. reflexivity. }
    destruct (@mk_ok (dmerge keqb (bdata a1) (bdata b1)) (dmerge keqb (bcmap a1) (bcmap b1)))
      as [b [Hm [Hi [Hc Hl]]]].
    - now apply (NoDup_dmerge keqb KS).
    - now apply (NoDup_dmerge keqb KS).
    - intros lk k. rewrite Gc. destruct (get (bcmap b1) lk) eqn:E.
      + intros H; inversion H; subst. destruct (Hcb _ _ E) as [Hl' Hin]. split; [exact Hl'|].
        apply (In_dkeys_dmerge keqb KS). right. exact Hin.
      + intros Hg. destruct (Hca _ _ Hg) as [Hl' Hin]. split; [exact Hl'|].
        apply (In_dkeys_dmerge keqb KS). now left.
    - rewrite Hm. cbn. split; [exact Hi|]. split; [now apply SInv_writes|].
      intros lk. rewrite Hl, s_writes_get, LW_smap by exact Hsb. rewrite <- Hlb, <- Hla.
      unfold blookup, plookup. rewrite Gc.
      destruct (get (bcmap b1) lk) as [k|] eqn:E.
      + destruct (Hcb _ _ E) as [_ Hin]. rewrite Gd. apply (In_dkeys_dget keqb KS) in Hin.
        destruct (get (bdata b1) k); [reflexivity | congruence].
      + destruct (get (bcmap a1) lk) as [k|] eqn:Ea; [|reflexivity]. rewrite Gd.
        destruct (get (bdata b1) k) eqn:Eb; [|reflexivity]. exfalso.
        assert (Hin : In k (dkeys (bdata b1))) by (apply (In_dkeys_dget keqb KS); congruence).
        apply Hdb in Hin. destruct (Hca _ _ Ea) as [Hl' _]. rewrite Hl' in Hin. congruence.
  Qed.

  (* ---------------------------------------------------------------- combine_lower_dict *)
  Lemma H_combine_lower_body a1 a2 items : Rel a1 a2 ->
    is_dict keqb items = true -> all_lower keqb lower items = true ->
    opt_rel Rel (b_combine_lower keqb a1 items) (Some (s_writes keqb lower a2 items)).
  Proof.
    intros [Hia [Hsa Hla]] Hd Hlow. apply nodupb_NoDup in Hd.
    pose proof Hia as [Hnda Hnca Hca Hda].
    assert (Hlw : forall kv, In kv items -> lower (fst kv) = fst kv).
    { intros kv Hin. unfold all_lower in Hlow. rewrite forallb_forall in Hlow.
      specialize (Hlow _ Hin). destruct (KS (lower (fst kv)) (fst kv)); congruence. }
    unfold b_combine_lower. rewrite (dmerge_dict keqb KS [] items) by exact Hd. cbn [app].
    assert (HLW : forall lk, LW items lk = match get items lk with Some v => Some (lk, v) | None => None end).
    { intros lk. unfold LW.
      rewrite (map_ext_in _ (fun kv => (fst kv, kv))) by (intros kv Hin; now rewrite Hlw).
      rewrite (dlast_dget keqb KS).
      - apply (dget_map_self keqb KS).
      - rewrite map_map. cbn. exact Hd. }
    assert (Gd : forall k, get (dmerge keqb (bdata a1) items) k =
                           match get items k with Some v => Some v | None => get (bdata a1) k end).
    { intros k. rewrite (dget_dmerge keqb KS), (dlast_dget keqb KS) by exact Hd. reflexivity. }
    assert (Gc : forall lk, get (dmerge keqb (bcmap a1) (map (fun kv => (fst kv, fst kv)) items)) lk =
                            match get items lk with Some _ => Some lk | None => get (bcmap a1) lk end).
    { intros lk. rewrite (dget_dmerge keqb KS).
      rewrite (dlast_map_val keqb (@fst K V) (@fst K V)).
      rewrite (dlast_dget keqb KS) by (rewrite map_map; cbn; exact Hd).
      rewrite (dget_map_self keqb KS). destruct (get items lk); reflexivity. }
    destruct (@mk_ok (dmerge keqb (bdata a1) items)
                     (dmerge keqb (bcmap a1) (map (fun kv => (fst kv, fst kv)) items)))
      as [b [Hm [Hi [Hc Hl]]]].
    - now apply (NoDup_dmerge keqb KS).
    - now apply (NoDup_dmerge keqb KS).
    - intros lk k. rewrite Gc. destruct (get items lk) as [v|] eqn:E.
      + intros H; inversion H; subst. pose proof (dget_In keqb KS _ _ E) as Hin.
        split; [exact (Hlw _ Hin)|]. apply (In_dkeys_dmerge keqb KS). right.
        now apply (in_map fst) in Hin.
      + intros Hg. destruct (Hca _ _ Hg) as [Hl' Hin]. split; [exact Hl'|].
        apply (In_dkeys_dmerge keqb KS). now left.
    - rewrite Hm. cbn. split; [exact Hi|]. split; [now apply SInv_writes|].
      intros lk. rewrite Hl, s_writes_get, HLW, <- Hla. unfold blookup, plookup. rewrite Gc.
      destruct (get items lk) as [v|] eqn:E.
      + rewrite Gd, E. reflexivity.
      + destruct (get (bcmap a1) lk) as [k|] eqn:Ea; [|reflexivity]. rewrite Gd.
        destruct (get items k) as [v'|] eqn:Ek; [|reflexivity]. exfalso.
        pose proof (dget_In keqb KS _ _ Ek) as Hin. apply Hlw in Hin. cbn in Hin.
        destruct (Hca _ _ Ea) as [Hl' _]. congruence.
  Qed.

  (* ---------------------------------------------------------------- CaseInsensitiveDict(other) *)
  Lemma LW_self b lk : Inv b -> LW (bdata b) lk = blookup b lk.
  Proof.
    intros [Hnd Hnc Hc Hd]. destruct (LW (bdata b) lk) as [[k v]|] eqn:E.
    - apply LW_Some in E as [Hin Hl]. cbn in Hl. subst lk. unfold blookup, plookup.
      rewrite (Hd k) by (now apply (in_map fst) in Hin).
      now rewrite (In_dget keqb KS _ _ _ Hnd Hin).
    - unfold blookup, plookup. destruct (get (bcmap b) lk) as [k|] eqn:Ec; [|reflexivity].
      destruct (Hc _ _ Ec) as [Hl Hin]. destruct (get (bdata b) k) as [v|] eqn:Ed; [|reflexivity].
      exfalso. apply (dget_In keqb KS) in Ed. exact (@LW_None _ _ E _ Ed Hl).
  Qed.

  Lemma items_via_getitem_self b : Inv b ->
    items_via_getitem (b_get keqb lower b) (dkeys (bdata b)) = Some (bdata b).
  Proof.
    intros [Hnd Hnc Hc Hd].
    assert (G : forall l : list (K * V),
               (forall k v, In (k, v) l -> b_get keqb lower b k = Some v) ->
               items_via_getitem (b_get keqb lower b) (map fst l) = Some l).
    { induction l as [|[k v] r IH]; intros H; cbn; [reflexivity|].
      rewrite (H k v) by now left. rewrite IH; [reflexivity|]. intros k' v' Hin. apply H. now right. }
    apply G. intros k v Hin. unfold b_get, b_get_lower.
    rewrite (Hd k) by (now apply (in_map fst) in Hin). now apply (In_dget keqb KS).
  Qed.

  Lemma H_from_body b s : Rel b s -> opt_rel Rel (b_from keqb lower b) (Some s).
  Proof.
    intros [Hi [Hs Hl]]. unfold b_from. rewrite items_via_getitem_self by exact Hi.
    destruct (@init_ok (bdata b)) as [b' [-> [Hi' Hl']]].
    - apply NoDup_nodupb. apply Hi.
    - cbn. split; [exact Hi'|]. split; [exact Hs|]. intros lk. now rewrite Hl', LW_self, Hl.
  Qed.

  (* ---------------------------------------------------------------- len / iteration *)
  Lemma NoDup_lower_keys b : Inv b -> NoDup (map lower (dkeys (bdata b))).
  Proof.
    intros [Hnd Hnc Hc Hd]. apply NoDup_map_inj_on; [|exact Hnd].
    intros x y Hx Hy He. apply Hd in Hx. apply Hd in Hy. rewrite He in Hx. congruence.
  Qed.

  Lemma blookup_Some_iff b lk : Inv b -> (blookup b lk <> None <-> get (bcmap b) lk <> None).
  Proof.
    intros [Hnd Hnc Hc Hd]. unfold blookup, plookup.
    destruct (get (bcmap b) lk) as [k|] eqn:E; [|tauto].
    destruct (Hc _ _ E) as [_ Hin]. apply (In_dkeys_dget keqb KS) in Hin.
    destruct (get (bdata b) k); [split; congruence | congruence].
  Qed.

  Lemma H_len_body b s : Rel b s -> b_len b = length s.
  Proof.
    intros [Hi [Hs Hl]]. pose proof Hi as [Hnd Hnc Hc Hd]. unfold b_len.
    assert (P1 : Permutation (map lower (dkeys (bdata b))) (dkeys (bcmap b))).
    { apply NoDup_Permutation; [now apply NoDup_lower_keys | exact Hnc |]. intros lk. split.
      - intros Hin. apply in_map_iff in Hin as [x [<- Hx]]. apply (In_dkeys_dget keqb KS).
        rewrite (Hd _ Hx). congruence.
      - intros Hin. apply (In_dkeys_dget keqb KS) in Hin.
        destruct (get (bcmap b) lk) as [k|] eqn:E; [|congruence].
        destruct (Hc _ _ E) as [<- Hk]. now apply in_map. }
    assert (P2 : Permutation (dkeys (bcmap b)) (dkeys s)).
    { apply NoDup_Permutation; [exact Hnc | apply Hs |]. intros lk.
      rewrite !(In_dkeys_dget keqb KS), <- Hl. symmetry. now apply blookup_Some_iff. }
    apply Permutation_length in P1. apply Permutation_length in P2.
    unfold dkeys in *. rewrite !map_length in *. congruence.
  Qed.

  Lemma H_iter_body b s : Rel b s -> Permutation (b_iter b) (map (fun e => fst (snd e)) s).
  Proof.
    intros [Hi [Hs Hl]]. pose proof Hi as [Hnd Hnc Hc Hd]. pose proof Hs as [Hsn Hsk].
    unfold b_iter. apply NoDup_Permutation; [exact Hnd | |].
    - apply NoDup_map_inj_on; [|now apply NoDup_pairs].
      intros [lk1 e1] [lk2 e2] H1 H2. cbn. intros He.
      apply (In_dget keqb KS _ _ _ Hsn) in H1. apply (In_dget keqb KS _ _ _ Hsn) in H2.
      pose proof (Hsk _ _ H1) as L1. pose proof (Hsk _ _ H2) as L2.
      assert (lk1 = lk2) by congruence. subst. congruence.
    - intros k. split.
      + intros Hin. pose proof (Hd _ Hin) as Hcm. apply (In_dkeys_dget keqb KS) in Hin.
        destruct (get (bdata b) k) as [v|] eqn:E; [|congruence].
        assert (Hb : blookup b (lower k) = Some (k, v)) by (unfold blookup, plookup; now rewrite Hcm, E).
        rewrite Hl in Hb. apply (dget_In keqb KS) in Hb. apply in_map_iff.
        exists (lower k, (k, v)). split; [reflexivity | exact Hb].
      + intros Hin. apply in_map_iff in Hin as [[lk [k' v]] [Hk Hin]]. cbn in Hk. subst k'.
        apply (In_dget keqb KS _ _ _ Hsn) in Hin. rewrite <- Hl in Hin.
        unfold blookup, plookup in Hin. destruct (get (bcmap b) lk) as [k0|]; [|discriminate].
        destruct (get (bdata b) k0) as [v0|] eqn:E; [|discriminate]. inversion Hin; subst.
        apply (In_dkeys_dget keqb KS). congruence.
  Qed.

  (* ---------------------------------------------------------------- lower-cased views, == *)
  Lemma lower_items_get items lk :
    get (lower_items keqb lower items) lk =
    match LW items lk with Some e => Some (snd e) | None => None end.
  Proof.
    unfold lower_items. rewrite (dget_dmerge keqb KS). cbn.
    rewrite (dlast_map_val keqb (fun kv : K * V => lower (fst kv)) (@snd K V)).
    unfold LW. destruct (dlast keqb _ lk); reflexivity.
  Qed.

  Lemma lower_items_nodup (items : list (K * V)) : NoDup (dkeys (lower_items keqb lower items)).
  Proof. unfold lower_items. apply (NoDup_dmerge keqb KS). constructor. Qed.

  Lemma s_as_lower_get (s : smap K V) lk :
    get (s_as_lower s) lk = match get s lk with Some e => Some (snd e) | None => None end.
  Proof.
    induction s as [|[a e] r IH]; cbn; [reflexivity|]. destruct (keqb a lk); [reflexivity | exact IH].
  Qed.

  Lemma s_as_lower_keys (s : smap K V) : dkeys (s_as_lower s) = dkeys s.
  Proof. unfold dkeys, s_as_lower. rewrite map_map. reflexivity. Qed.

  Lemma as_lower_agree b s lk : Rel b s -> get (b_as_lower keqb lower b) lk = get (s_as_lower s) lk.
  Proof.
    intros [Hi [Hs Hl]]. unfold b_as_lower.
    now rewrite lower_items_get, s_as_lower_get, LW_self, Hl.
  Qed.

  Lemma H_as_lower_body b s : Rel b s -> Permutation (b_as_lower keqb lower b) (s_as_lower s).
  Proof.
    intros HR. pose proof HR as [Hi [Hs Hl]].
    assert (N1 : NoDup (dkeys (b_as_lower keqb lower b))) by apply lower_items_nodup.
    assert (N2 : NoDup (dkeys (s_as_lower s))) by (rewrite s_as_lower_keys; apply Hs).
    apply NoDup_Permutation; [now apply NoDup_pairs | now apply NoDup_pairs |].
    intros [lk v]. split; intros Hin.
    - apply (In_dget keqb KS _ _ _ N1) in Hin. rewrite (as_lower_agree lk HR) in Hin.
      now apply (dget_In keqb KS).
    - apply (In_dget keqb KS _ _ _ N2) in Hin. rewrite <- (as_lower_agree lk HR) in Hin.
      now apply (dget_In keqb KS).
  Qed.

  Lemma bool_eq_iff (x y : bool) : (x = true <-> y = true) -> x = y.
  Proof. destruct x, y; intuition congruence. Qed.

  Lemma H_eq_body a1 a2 b1 b2 : Rel a1 a2 -> Rel b1 b2 ->
    b_eq keqb lower veqb a1 b1 = deqb keqb veqb (s_as_lower a2) (s_as_lower b2).
  Proof.
    intros Ha Hb. unfold b_eq. apply bool_eq_iff.
    rewrite !(deqb_true_iff keqb KS veqb veqb_spec);
      try apply lower_items_nodup; try (rewrite s_as_lower_keys; first [apply Ha | apply Hb]).
    split; intros H k.
    - rewrite <- (as_lower_agree k Ha), <- (as_lower_agree k Hb). apply H.
    - rewrite (as_lower_agree k Ha), (as_lower_agree k Hb). apply H.
  Qed.

  Lemma H_eq_plain_body b s items : Rel b s -> is_dict keqb items = true ->
    b_eq_plain keqb lower veqb b items =
    deqb keqb veqb (s_as_lower s) (s_as_lower (s_writes keqb lower [] items)).
  Proof.
    intros HR Hd. apply nodupb_NoDup in Hd. unfold b_eq_plain.
    rewrite (dmerge_dict keqb KS [] items) by exact Hd. cbn [app].
    assert (Hw : SInv (s_writes keqb lower [] items)) by apply SInv_writes, SInv_nil.
    apply bool_eq_iff.
    rewrite !(deqb_true_iff keqb KS veqb veqb_spec);
      try apply lower_items_nodup; try (rewrite s_as_lower_keys; first [apply HR | apply Hw]).
    assert (G : forall k, get (lower_items keqb lower items) k =
                          get (s_as_lower (s_writes keqb lower [] items)) k).
    { intros k. rewrite lower_items_get, s_as_lower_get, s_writes_get. cbn.
      destruct (LW items k); reflexivity. }
    split; intros H k.
    - rewrite <- (as_lower_agree k HR), <- G. apply H.
    - rewrite (as_lower_agree k HR), G. apply H.
  Qed.

  (* ---------------------------------------------------------------- the refinement *)
  Theorem refines ops :
    in_domain keqb lower ops = true ->
    Forall2 (@obs_equiv K V)
            (run (body_iface keqb lower veqb) ops) (run (spec_iface keqb lower veqb) ops).
  Proof.
    apply (@run_sim K V keqb lower _ _ (body_iface keqb lower veqb) (spec_iface keqb lower veqb) Rel);
      cbn [i_init i_from i_combine i_combine_lower i_set i_del i_del_lower i_get i_get_lower i_len
           i_iter i_as_lower i_eq i_eq_plain body_iface spec_iface].
    - exact H_init_body.
    - exact H_from_body.
    - exact H_combine_body.
    - exact H_combine_lower_body.
    - intros; now apply H_set_body.
    - intros a1 a2 k HR. unfold b_del. now apply H_del_lower_body.
    - intros; now apply H_del_lower_body.
    - intros a1 a2 k HR. unfold b_get. now apply H_get_lower_body.
    - intros; now apply H_get_lower_body.
    - exact H_len_body.
    - exact H_iter_body.
    - exact H_as_lower_body.
    - exact H_eq_body.
    - exact H_eq_plain_body.
  Qed.
End BodyProofs.
