From AUC Require Import Prelude.PyDict C16.Model C16.Spec.
