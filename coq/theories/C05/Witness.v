(* C05 — concrete oracles, the witnesses of the two known findings and a non-trivial well-formed
   definition, for the refutation theorems and the non-vacuity examples.  The definitions are printed by
   harness/c05.py from corpus/C05/full_strict.json and the witnesses of D32 / D33 (strings as code points). *)
From Coq Require Import List Bool NArith ZArith.
From AUC Require Import Prelude.PyStr C08.TypesDef C08.Model C05.Xml C05.Names C05.Model C05.Def C05.Spec.
Import ListNotations.
Local Open Scope N_scope.

Notation nS := (@None pystr) (only parsing).

(* a resolver: absolute URLs are themselves, anything else is appended to the base *)
Definition urljoin0 (b u : pystr) : pystr := if starts_with s_http u then u else b ++ u.
(* float(): the one spelling the example uses *)
Definition fos0 (s : pystr) : option fl := if str_eqb s [48;46;53]%N then Some (FFin 1 (-1)) else None.
Definition lext0 (c : N) : N := c.
Definition base0 : pystr := [104;116;116;112;58;47;47;104;58;49;47;100;46;120;109;108]%N.
Definition plain : rendering := {| r_perm := fun l => l; r_ctext := None; r_pad := false; r_spec := true; r_empty := false |}.
Definition fancy : rendering := rendering_of 3 (Some [10; 32; 32]) true true true.
Definition probes0 : list pyval := [VInt (-1); VInt 0; VInt 100; VInt 101; VStr [80;76;65;89;73;78;71]%N; VStr [120]%N; VBool true].

(* D32: two sibling embedded devices of type urn:x:device:E:1 *)
Definition w_dup_devices : device_def :=
(let z0 : pystr := [117;114;110;58;115;99;104;101;109;97;115;45;117;112;110;112;45;111;114;103;58;100;101;118;105;99;101;58;82;58;49]%N in
let z1 : pystr := [65;99;109;101]%N in
let z2 : pystr := [117;117;105;100;58;114]%N in
let z3 : pystr := [117;114;110;58;120;58;100;101;118;105;99;101;58;69;58;49]%N in
let z4 : pystr := [117;117;105;100;58;101;49]%N in
let z5 : pystr := [117;117;105;100;58;101;50]%N in
(DeviceDef {| h_type := z0; h_friendly := [114]%N; h_manufacturer := z1; h_manufacturer_url := nS; h_model_desc := nS; h_model_name := [77]%N; h_model_number := nS; h_model_url := nS; h_serial := nS; h_udn := z2; h_upc := nS; h_presentation := nS |} (@nil icon_def) (@nil service_def) [(DeviceDef {| h_type := z3; h_friendly := [101;49]%N; h_manufacturer := z1; h_manufacturer_url := nS; h_model_desc := nS; h_model_name := [77]%N; h_model_number := nS; h_model_url := nS; h_serial := nS; h_udn := z4; h_upc := nS; h_presentation := nS |} (@nil icon_def) (@nil service_def) (@nil device_def)); (DeviceDef {| h_type := z3; h_friendly := [101;50]%N; h_manufacturer := z1; h_manufacturer_url := nS; h_model_desc := nS; h_model_name := [77]%N; h_model_number := nS; h_model_url := nS; h_serial := nS; h_udn := z5; h_upc := nS; h_presentation := nS |} (@nil icon_def) (@nil service_def) (@nil device_def))])).

(* D33: two services of type urn:x:service:T:1 in one device *)
Definition w_dup_services : device_def :=
(let z0 : pystr := [117;114;110;58;115;99;104;101;109;97;115;45;117;112;110;112;45;111;114;103;58;100;101;118;105;99;101;58;82;58;49]%N in
let z1 : pystr := [65;99;109;101]%N in
let z2 : pystr := [117;117;105;100;58;114]%N in
let z3 : pystr := [117;114;110;58;120;58;115;101;114;118;105;99;101;58;84;58;49]%N in
let z4 : pystr := [117;114;110;58;117;112;110;112;45;111;114;103;58;115;101;114;118;105;99;101;73;100;58;83;49]%N in
let z5 : pystr := [47;115;49;46;120;109;108]%N in
let z6 : pystr := [47;99;49]%N in
let z7 : pystr := [47;101;49]%N in
let z8 : pystr := [115;116;114;105;110;103]%N in
let z9 : pystr := [117;114;110;58;117;112;110;112;45;111;114;103;58;115;101;114;118;105;99;101;73;100;58;83;50]%N in
let z10 : pystr := [47;115;50;46;120;109;108]%N in
let z11 : pystr := [47;99;50]%N in
let z12 : pystr := [47;101;50]%N in
(DeviceDef {| h_type := z0; h_friendly := [114]%N; h_manufacturer := z1; h_manufacturer_url := nS; h_model_desc := nS; h_model_name := [77]%N; h_model_number := nS; h_model_url := nS; h_serial := nS; h_udn := z2; h_upc := nS; h_presentation := nS |} (@nil icon_def) [{| s_type := z3; s_id := z4; s_scpd := z5; s_control := z6; s_event := z7; s_vars := [{| sd_name := [86]%N; sd_type := z8; sd_attr := true; sd_evented := false; sd_default := nS; sd_range := None; sd_allowed := None |}]; s_actions := (@nil action_def); s_corrupt := CNone |}; {| s_type := z3; s_id := z9; s_scpd := z10; s_control := z11; s_event := z12; s_vars := [{| sd_name := [87]%N; sd_type := z8; sd_attr := true; sd_evented := false; sd_default := nS; sd_range := None; sd_allowed := None |}]; s_actions := (@nil action_def); s_corrupt := CNone |}] (@nil device_def))).

(* a device with icons, a service with ui2 / string / boolean / r4 variables (default, range, allowed list, both sendEvents notations) and two actions, and embedded devices to depth 3 with a time variable carrying a default (D14) *)
Definition ex_full : device_def :=
(let z0 : pystr := [117;114;110;58;115;99;104;101;109;97;115;45;117;112;110;112;45;111;114;103;58;100;101;118;105;99;101;58;82;58;49]%N in
let z1 : pystr := [76;105;118;105;110;103;32;60;82;111;111;109;62;32;38;32;34;84;86;34]%N in
let z2 : pystr := [65;99;109;101]%N in
let z3 : pystr := [104;116;116;112;58;47;47;97;99;109;101;46;101;120;97;109;112;108;101;47]%N in
let z4 : pystr := [100;101;115;99]%N in
let z5 : pystr := [115;47;110]%N in
let z6 : pystr := [117;117;105;100;58;76;105;118;105;110;103;32;60;82;111;111;109;62;32;38;32;34;84;86;34]%N in
let z7 : pystr := [49;50;51;52;53;54;55;56;57;48;49;50]%N in
let z8 : pystr := [47;117;105]%N in
let z9 : pystr := [105;109;97;103;101;47;112;110;103]%N in
let z10 : pystr := [47;105;99;111;110;46;112;110;103]%N in
let z11 : pystr := [105;109;97;103;101;47;106;112;101;103]%N in
let z12 : pystr := [104;116;116;112;58;47;47;111;116;104;101;114;46;101;120;97;109;112;108;101;47;105;46;106;112;103]%N in
let z13 : pystr := [117;114;110;58;115;99;104;101;109;97;115;45;117;112;110;112;45;111;114;103;58;115;101;114;118;105;99;101;58;83;49;58;49]%N in
let z14 : pystr := [117;114;110;58;117;112;110;112;45;111;114;103;58;115;101;114;118;105;99;101;73;100;58;83;49]%N in
let z15 : pystr := [47;115;49;46;120;109;108]%N in
let z16 : pystr := [104;116;116;112;58;47;47;104;58;49;47;97;98;115;47;99;116;108]%N in
let z17 : pystr := [47;101;49]%N in
let z18 : pystr := [49;48;48]%N in
let z19 : pystr := [117;105;50]%N in
let z20 : pystr := [80;76;65;89;73;78;71]%N in
let z21 : pystr := [83;84;79;80;80;69;68]%N in
let z22 : pystr := [115;116;114;105;110;103]%N in
let z23 : pystr := [98;111;111;108;101;97;110]%N in
let z24 : pystr := [48;46;53]%N in
let z25 : pystr := [78;101;119;65]%N in
let z26 : pystr := [83;101;116;65]%N in
let z27 : pystr := [67;117;114]%N in
let z28 : pystr := [70;108;97;103]%N in
let z29 : pystr := [71;101;116;66]%N in
let z30 : pystr := [117;114;110;58;120;58;100;101;118;105;99;101;58;69;58;49]%N in
let z31 : pystr := [117;117;105;100;58;101;49]%N in
let z32 : pystr := [117;114;110;58;115;99;104;101;109;97;115;45;117;112;110;112;45;111;114;103;58;115;101;114;118;105;99;101;58;83;50;58;49]%N in
let z33 : pystr := [117;114;110;58;117;112;110;112;45;111;114;103;58;115;101;114;118;105;99;101;73;100;58;83;50]%N in
let z34 : pystr := [47;115;50;46;120;109;108]%N in
let z35 : pystr := [47;99;50]%N in
let z36 : pystr := [47;101;50]%N in
let z37 : pystr := [116;105;109;101]%N in
let z38 : pystr := [48;51;58;48;52;58;48;53]%N in
let z39 : pystr := [117;114;110;58;120;58;100;101;118;105;99;101;58;70;58;49]%N in
let z40 : pystr := [117;117;105;100;58;102;49]%N in
let z41 : pystr := [117;114;110;58;120;58;100;101;118;105;99;101;58;71;58;49]%N in
let z42 : pystr := [117;117;105;100;58;103;49]%N in
let z43 : pystr := [117;114;110;58;115;99;104;101;109;97;115;45;117;112;110;112;45;111;114;103;58;115;101;114;118;105;99;101;58;83;51;58;49]%N in
let z44 : pystr := [117;114;110;58;117;112;110;112;45;111;114;103;58;115;101;114;118;105;99;101;73;100;58;83;51]%N in
let z45 : pystr := [47;115;51;46;120;109;108]%N in
let z46 : pystr := [47;99;51]%N in
let z47 : pystr := [47;101;51]%N in
(DeviceDef {| h_type := z0; h_friendly := z1; h_manufacturer := z2; h_manufacturer_url := (Some z3); h_model_desc := (Some z4); h_model_name := [77]%N; h_model_number := (Some [49]%N); h_model_url := (Some [47;109]%N); h_serial := (Some z5); h_udn := z6; h_upc := (Some z7); h_presentation := (Some z8) |} [{| ic_mime := z9; ic_w := (48)%Z; ic_h := (48)%Z; ic_d := (24)%Z; ic_url := z10 |}; {| ic_mime := z11; ic_w := (120)%Z; ic_h := (120)%Z; ic_d := (32)%Z; ic_url := z12 |}] [{| s_type := z13; s_id := z14; s_scpd := z15; s_control := z16; s_event := z17; s_vars := [{| sd_name := [65]%N; sd_type := z19; sd_attr := false; sd_evented := true; sd_default := (Some [53]%N); sd_range := (Some ((Some [48]%N), (Some z18), (Some [49]%N))); sd_allowed := None |}; {| sd_name := [66]%N; sd_type := z22; sd_attr := true; sd_evented := false; sd_default := (Some z21); sd_range := None; sd_allowed := (Some [z20; z21]) |}; {| sd_name := [67]%N; sd_type := z23; sd_attr := true; sd_evented := false; sd_default := (Some [49]%N); sd_range := None; sd_allowed := None |}; {| sd_name := [70]%N; sd_type := [114;52]%N; sd_attr := true; sd_evented := false; sd_default := nS; sd_range := (Some ((Some z24), nS, nS)); sd_allowed := None |}]; s_actions := [{| ad_name := z26; ad_args := [{| ag_name := z25; ag_in := true; ag_retval := false; ag_rsv := [65]%N |}] |}; {| ad_name := z29; ad_args := [{| ag_name := z27; ag_in := false; ag_retval := true; ag_rsv := [66]%N |}; {| ag_name := z28; ag_in := false; ag_retval := false; ag_rsv := [67]%N |}] |}]; s_corrupt := CNone |}] [(DeviceDef {| h_type := z30; h_friendly := [101;49]%N; h_manufacturer := z2; h_manufacturer_url := nS; h_model_desc := nS; h_model_name := [77]%N; h_model_number := nS; h_model_url := nS; h_serial := nS; h_udn := z31; h_upc := nS; h_presentation := nS |} (@nil icon_def) [{| s_type := z32; s_id := z33; s_scpd := z34; s_control := z35; s_event := z36; s_vars := [{| sd_name := [84]%N; sd_type := z37; sd_attr := true; sd_evented := false; sd_default := (Some z38); sd_range := None; sd_allowed := None |}]; s_actions := (@nil action_def); s_corrupt := CNone |}] [(DeviceDef {| h_type := z39; h_friendly := [102;49]%N; h_manufacturer := z2; h_manufacturer_url := nS; h_model_desc := nS; h_model_name := [77]%N; h_model_number := nS; h_model_url := nS; h_serial := nS; h_udn := z40; h_upc := nS; h_presentation := nS |} (@nil icon_def) (@nil service_def) [(DeviceDef {| h_type := z41; h_friendly := [103;49]%N; h_manufacturer := z2; h_manufacturer_url := nS; h_model_desc := nS; h_model_name := [77]%N; h_model_number := nS; h_model_url := nS; h_serial := nS; h_udn := z42; h_upc := nS; h_presentation := nS |} (@nil icon_def) [{| s_type := z43; s_id := z44; s_scpd := z45; s_control := z46; s_event := z47; s_vars := (@nil sv_def); s_actions := (@nil action_def); s_corrupt := CNone |}] (@nil device_def))])])])).

(* ex_full with the SCPD of the embedded device's service lacking its state table *)
Definition ex_corrupt : device_def :=
(let z0 : pystr := [117;114;110;58;115;99;104;101;109;97;115;45;117;112;110;112;45;111;114;103;58;100;101;118;105;99;101;58;82;58;49]%N in
let z1 : pystr := [76;105;118;105;110;103;32;60;82;111;111;109;62;32;38;32;34;84;86;34]%N in
let z2 : pystr := [65;99;109;101]%N in
let z3 : pystr := [104;116;116;112;58;47;47;97;99;109;101;46;101;120;97;109;112;108;101;47]%N in
let z4 : pystr := [100;101;115;99]%N in
let z5 : pystr := [115;47;110]%N in
let z6 : pystr := [117;117;105;100;58;76;105;118;105;110;103;32;60;82;111;111;109;62;32;38;32;34;84;86;34]%N in
let z7 : pystr := [49;50;51;52;53;54;55;56;57;48;49;50]%N in
let z8 : pystr := [47;117;105]%N in
let z9 : pystr := [105;109;97;103;101;47;112;110;103]%N in
let z10 : pystr := [47;105;99;111;110;46;112;110;103]%N in
let z11 : pystr := [105;109;97;103;101;47;106;112;101;103]%N in
let z12 : pystr := [104;116;116;112;58;47;47;111;116;104;101;114;46;101;120;97;109;112;108;101;47;105;46;106;112;103]%N in
let z13 : pystr := [117;114;110;58;115;99;104;101;109;97;115;45;117;112;110;112;45;111;114;103;58;115;101;114;118;105;99;101;58;83;49;58;49]%N in
let z14 : pystr := [117;114;110;58;117;112;110;112;45;111;114;103;58;115;101;114;118;105;99;101;73;100;58;83;49]%N in
let z15 : pystr := [47;115;49;46;120;109;108]%N in
let z16 : pystr := [104;116;116;112;58;47;47;104;58;49;47;97;98;115;47;99;116;108]%N in
let z17 : pystr := [47;101;49]%N in
let z18 : pystr := [49;48;48]%N in
let z19 : pystr := [117;105;50]%N in
let z20 : pystr := [80;76;65;89;73;78;71]%N in
let z21 : pystr := [83;84;79;80;80;69;68]%N in
let z22 : pystr := [115;116;114;105;110;103]%N in
let z23 : pystr := [98;111;111;108;101;97;110]%N in
let z24 : pystr := [48;46;53]%N in
let z25 : pystr := [78;101;119;65]%N in
let z26 : pystr := [83;101;116;65]%N in
let z27 : pystr := [67;117;114]%N in
let z28 : pystr := [70;108;97;103]%N in
let z29 : pystr := [71;101;116;66]%N in
let z30 : pystr := [117;114;110;58;120;58;100;101;118;105;99;101;58;69;58;49]%N in
let z31 : pystr := [117;117;105;100;58;101;49]%N in
let z32 : pystr := [117;114;110;58;115;99;104;101;109;97;115;45;117;112;110;112;45;111;114;103;58;115;101;114;118;105;99;101;58;83;50;58;49]%N in
let z33 : pystr := [117;114;110;58;117;112;110;112;45;111;114;103;58;115;101;114;118;105;99;101;73;100;58;83;50]%N in
let z34 : pystr := [47;115;50;46;120;109;108]%N in
let z35 : pystr := [47;99;50]%N in
let z36 : pystr := [47;101;50]%N in
let z37 : pystr := [116;105;109;101]%N in
let z38 : pystr := [48;51;58;48;52;58;48;53]%N in
let z39 : pystr := [117;114;110;58;120;58;100;101;118;105;99;101;58;70;58;49]%N in
let z40 : pystr := [117;117;105;100;58;102;49]%N in
let z41 : pystr := [117;114;110;58;120;58;100;101;118;105;99;101;58;71;58;49]%N in
let z42 : pystr := [117;117;105;100;58;103;49]%N in
let z43 : pystr := [117;114;110;58;115;99;104;101;109;97;115;45;117;112;110;112;45;111;114;103;58;115;101;114;118;105;99;101;58;83;51;58;49]%N in
let z44 : pystr := [117;114;110;58;117;112;110;112;45;111;114;103;58;115;101;114;118;105;99;101;73;100;58;83;51]%N in
let z45 : pystr := [47;115;51;46;120;109;108]%N in
let z46 : pystr := [47;99;51]%N in
let z47 : pystr := [47;101;51]%N in
(DeviceDef {| h_type := z0; h_friendly := z1; h_manufacturer := z2; h_manufacturer_url := (Some z3); h_model_desc := (Some z4); h_model_name := [77]%N; h_model_number := (Some [49]%N); h_model_url := (Some [47;109]%N); h_serial := (Some z5); h_udn := z6; h_upc := (Some z7); h_presentation := (Some z8) |} [{| ic_mime := z9; ic_w := (48)%Z; ic_h := (48)%Z; ic_d := (24)%Z; ic_url := z10 |}; {| ic_mime := z11; ic_w := (120)%Z; ic_h := (120)%Z; ic_d := (32)%Z; ic_url := z12 |}] [{| s_type := z13; s_id := z14; s_scpd := z15; s_control := z16; s_event := z17; s_vars := [{| sd_name := [65]%N; sd_type := z19; sd_attr := false; sd_evented := true; sd_default := (Some [53]%N); sd_range := (Some ((Some [48]%N), (Some z18), (Some [49]%N))); sd_allowed := None |}; {| sd_name := [66]%N; sd_type := z22; sd_attr := true; sd_evented := false; sd_default := (Some z21); sd_range := None; sd_allowed := (Some [z20; z21]) |}; {| sd_name := [67]%N; sd_type := z23; sd_attr := true; sd_evented := false; sd_default := (Some [49]%N); sd_range := None; sd_allowed := None |}; {| sd_name := [70]%N; sd_type := [114;52]%N; sd_attr := true; sd_evented := false; sd_default := nS; sd_range := (Some ((Some z24), nS, nS)); sd_allowed := None |}]; s_actions := [{| ad_name := z26; ad_args := [{| ag_name := z25; ag_in := true; ag_retval := false; ag_rsv := [65]%N |}] |}; {| ad_name := z29; ad_args := [{| ag_name := z27; ag_in := false; ag_retval := true; ag_rsv := [66]%N |}; {| ag_name := z28; ag_in := false; ag_retval := false; ag_rsv := [67]%N |}] |}]; s_corrupt := CNone |}] [(DeviceDef {| h_type := z30; h_friendly := [101;49]%N; h_manufacturer := z2; h_manufacturer_url := nS; h_model_desc := nS; h_model_name := [77]%N; h_model_number := nS; h_model_url := nS; h_serial := nS; h_udn := z31; h_upc := nS; h_presentation := nS |} (@nil icon_def) [{| s_type := z32; s_id := z33; s_scpd := z34; s_control := z35; s_event := z36; s_vars := [{| sd_name := [84]%N; sd_type := z37; sd_attr := true; sd_evented := false; sd_default := (Some z38); sd_range := None; sd_allowed := None |}]; s_actions := (@nil action_def); s_corrupt := CNoTable |}] [(DeviceDef {| h_type := z39; h_friendly := [102;49]%N; h_manufacturer := z2; h_manufacturer_url := nS; h_model_desc := nS; h_model_name := [77]%N; h_model_number := nS; h_model_url := nS; h_serial := nS; h_udn := z40; h_upc := nS; h_presentation := nS |} (@nil icon_def) (@nil service_def) [(DeviceDef {| h_type := z41; h_friendly := [103;49]%N; h_manufacturer := z2; h_manufacturer_url := nS; h_model_desc := nS; h_model_name := [77]%N; h_model_number := nS; h_model_url := nS; h_serial := nS; h_udn := z42; h_upc := nS; h_presentation := nS |} (@nil icon_def) [{| s_type := z43; s_id := z44; s_scpd := z45; s_control := z46; s_event := z47; s_vars := (@nil sv_def); s_actions := (@nil action_def); s_corrupt := CNone |}] (@nil device_def))])])])).

(* a gateway: WANIPConnection and WANPPPConnection of the root device share ONE service description at one
   URL (written relative), and the service of the embedded device names the same URL in absolute form; the
   document declares an evented ui2 variable with a range, a string variable with an allowed list and an
   action with an in and an out argument.  [c] = what the server does with that one document. *)
Definition wan_vars : list sv_def :=
  [{| sd_name := [80;111;114;116]%N; sd_type := [117;105;50]%N; sd_attr := true; sd_evented := true; sd_default := (Some [56;48]%N); sd_range := (Some ((Some [49]%N), (Some [54;53;53;51;53]%N), nS)); sd_allowed := None |};
   {| sd_name := [83;116;97;116;117;115]%N; sd_type := [115;116;114;105;110;103]%N; sd_attr := false; sd_evented := false; sd_default := nS; sd_range := None; sd_allowed := (Some [[85;112]%N; [68;111;119;110]%N]) |}].
Definition wan_actions : list action_def :=
  [{| ad_name := [83;101;116;80;111;114;116]%N; ad_args := [{| ag_name := [78;101;119;80;111;114;116]%N; ag_in := true; ag_retval := false; ag_rsv := [80;111;114;116]%N |}; {| ag_name := [67;117;114]%N; ag_in := false; ag_retval := true; ag_rsv := [83;116;97;116;117;115]%N |}] |}].
Definition ex_shared_with (c : corruption) : device_def :=
  DeviceDef {| h_type := [117;114;110;58;115;99;104;101;109;97;115;45;117;112;110;112;45;111;114;103;58;100;101;118;105;99;101;58;73;110;116;101;114;110;101;116;71;97;116;101;119;97;121;68;101;118;105;99;101;58;49]%N; h_friendly := [103;119]%N; h_manufacturer := [65;99;109;101]%N; h_manufacturer_url := nS; h_model_desc := nS; h_model_name := [77]%N; h_model_number := nS; h_model_url := nS; h_serial := nS; h_udn := [117;117;105;100;58;103;119]%N; h_upc := nS; h_presentation := nS |} (@nil icon_def)
    [{| s_type := [117;114;110;58;115;99;104;101;109;97;115;45;117;112;110;112;45;111;114;103;58;115;101;114;118;105;99;101;58;87;65;78;73;80;67;111;110;110;101;99;116;105;111;110;58;49]%N; s_id := [117;114;110;58;117;112;110;112;45;111;114;103;58;115;101;114;118;105;99;101;73;100;58;87;65;78;73;80;67;111;110;110;49]%N; s_scpd := [47;119;97;110;46;120;109;108]%N; s_control := [47;99;47;105;112]%N; s_event := [47;101;47;105;112]%N; s_vars := wan_vars; s_actions := wan_actions; s_corrupt := c |};
     {| s_type := [117;114;110;58;115;99;104;101;109;97;115;45;117;112;110;112;45;111;114;103;58;115;101;114;118;105;99;101;58;87;65;78;80;80;80;67;111;110;110;101;99;116;105;111;110;58;49]%N; s_id := [117;114;110;58;117;112;110;112;45;111;114;103;58;115;101;114;118;105;99;101;73;100;58;87;65;78;80;80;80;67;111;110;110;49]%N; s_scpd := [47;119;97;110;46;120;109;108]%N; s_control := [47;99;47;112;112;112]%N; s_event := [47;101;47;112;112;112]%N; s_vars := wan_vars; s_actions := wan_actions; s_corrupt := c |}]
    [DeviceDef {| h_type := [117;114;110;58;115;99;104;101;109;97;115;45;117;112;110;112;45;111;114;103;58;100;101;118;105;99;101;58;87;65;78;67;111;110;110;101;99;116;105;111;110;68;101;118;105;99;101;58;49]%N; h_friendly := [119;97;110]%N; h_manufacturer := [65;99;109;101]%N; h_manufacturer_url := nS; h_model_desc := nS; h_model_name := [77]%N; h_model_number := nS; h_model_url := nS; h_serial := nS; h_udn := [117;117;105;100;58;119;97;110]%N; h_upc := nS; h_presentation := nS |} (@nil icon_def)
       [{| s_type := [117;114;110;58;115;99;104;101;109;97;115;45;117;112;110;112;45;111;114;103;58;115;101;114;118;105;99;101;58;87;65;78;73;80;67;111;110;110;101;99;116;105;111;110;58;49]%N; s_id := [117;114;110;58;117;112;110;112;45;111;114;103;58;115;101;114;118;105;99;101;73;100;58;87;65;78;73;80;67;111;110;110;49]%N; s_scpd := [104;116;116;112;58;47;47;104;58;49;47;100;46;120;109;108;47;119;97;110;46;120;109;108]%N; s_control := [47;99;47;105;112;50]%N; s_event := [47;101;47;105;112;50]%N; s_vars := wan_vars; s_actions := wan_actions; s_corrupt := c |}]
       (@nil device_def)].
Definition ex_shared : device_def := ex_shared_with CNone.
(* the same, but the second service claims different actions for the shared document: outside the domain *)
Definition ex_shared_bad : device_def :=
  match ex_shared with
  | DeviceDef h i (s1 :: s2 :: _) subs =>
      DeviceDef h i [s1; {| s_type := s_type s2; s_id := s_id s2; s_scpd := s_scpd s2; s_control := s_control s2; s_event := s_event s2;
                            s_vars := s_vars s2; s_actions := []; s_corrupt := s_corrupt s2 |}] subs
  | d => d
  end.

(* the data type names the statement counts: all 26 of UDA / STATE_VARIABLE_TYPE_MAPPING on the unchanged tree *)
Definition uda_types : list pystr := [
  [117;105;49]%N (* ui1 *);
  [117;105;50]%N (* ui2 *);
  [117;105;52]%N (* ui4 *);
  [117;105;56]%N (* ui8 *);
  [105;49]%N (* i1 *);
  [105;50]%N (* i2 *);
  [105;52]%N (* i4 *);
  [105;56]%N (* i8 *);
  [105;110;116]%N (* int *);
  [114;52]%N (* r4 *);
  [114;56]%N (* r8 *);
  [110;117;109;98;101;114]%N (* number *);
  [102;105;120;101;100;46;49;52;46;52]%N (* fixed.14.4 *);
  [102;108;111;97;116]%N (* float *);
  [99;104;97;114]%N (* char *);
  [115;116;114;105;110;103]%N (* string *);
  [98;105;110;46;98;97;115;101;54;52]%N (* bin.base64 *);
  [98;105;110;46;104;101;120]%N (* bin.hex *);
  [117;114;105]%N (* uri *);
  [117;117;105;100]%N (* uuid *);
  [98;111;111;108;101;97;110]%N (* boolean *);
  [100;97;116;101]%N (* date *);
  [100;97;116;101;84;105;109;101]%N (* dateTime *);
  [100;97;116;101;84;105;109;101;46;116;122]%N (* dateTime.tz *);
  [116;105;109;101]%N (* time *);
  [116;105;109;101;46;116;122]%N (* time.tz *)
].
