(* C05 — Description documents produce a faithful device model.  Property theorems only.

   Vocabulary: device_def = abstract syntax of a well-formed description (tree of devices, services with
   their SCPD: state variables of any of the generated data types with default / range / allowed list /
   either sendEvents notation, actions with directed arguments, icons, URLs of either style, and per
   service what its SCPD URL serves: the document, or one of four corruptions).  run_def = the factory
   model (Model.v: parse stage = the ElementTree queries, build stage = everything that can fail or
   constructs) run on the XML trees Def.to_tree renders for the definition, served by Def.world.
   mirror_dev = "the object graph mirrors the definition one-to-one" (Spec.v).  The oracles (urljoin,
   float(), non-ASCII lower()) are universally quantified: no law is assumed beyond what wf_desc checks on
   the URLs of the input itself.  Domain (wf_desc): conformant services, URLs of either style, and one
   document per SCPD URL - services may share an SCPD URL (WANIPConnection / WANPPPConnection on real
   gateways) provided they have the same state variables, actions and corruption marker, so that the one
   document served there describes each of them; no SCPD URL is the description URL. *)
From Coq Require Import List Bool NArith ZArith Permutation.
From AUC Require Import Prelude.PyStr C08.TypesDef C08.Model Gen.Types
  C05.Xml C05.Names C05.Model C05.Def C05.Spec C05.Lemmas C05.Parse C05.Expected C05.Main C05.Witness C05.Collapse.
Import ListNotations.

(* Sentence 1, at the strength the code has (known findings D32, D33 excluded by their guards): for
   every well-formed definition whose service documents are all intact, every rendering (any
   permutation of the children of record-like elements, any indentation, padded names, optional
   elements and empty lists present or absent), either mode, any probe values and any oracle answers:
   device creation succeeds and the object graph mirrors the definition: same devices / services /
   actions / arguments bound by name / state variables with type, range, allowed list, default, evented
   flag and validation behaviour / icons, all URLs resolved against the description URL. *)
Theorem C05_faithful_partial :
  forall (urljoin : pystr -> pystr -> pystr) (float_of_str : pystr -> option fl) (lower_ext : N -> N)
         (r : rendering), (forall l, Permutation (r_perm r l) l) ->
  forall (strict : bool) (probes : list pyval) (base : pystr) (d : device_def),
    wf_desc urljoin float_of_str lower_ext base d = true -> any_corrupt d = false ->
    kf_dup_device_types d = false -> kf_dup_service_types d = false ->
    exists o, run_def urljoin float_of_str lower_ext r strict probes base d = FOk o /\
              mirror_dev urljoin float_of_str lower_ext strict probes base d o = true.
Proof. exact faithful_partial. Qed.
Print Assumptions C05_faithful_partial.

(* The full-strength sentence 1 is refuted by the model (and by the code: known findings): two sibling
   embedded devices of one type ... *)
Theorem C05_faithful_refuted_devices :
  exists (urljoin : pystr -> pystr -> pystr) (float_of_str : pystr -> option fl) (lower_ext : N -> N)
         (r : rendering) (strict : bool) (probes : list pyval) (base : pystr) (d : device_def),
    (forall l, Permutation (r_perm r l) l) /\
    wf_desc urljoin float_of_str lower_ext base d = true /\ any_corrupt d = false /\
    kf_dup_service_types d = false /\
    c_mirrors urljoin float_of_str lower_ext strict probes base d
              (run_def urljoin float_of_str lower_ext r strict probes base d) = false.
Proof.
  exists urljoin0, fos0, lext0, plain, true, probes0, base0, w_dup_devices.
  split; [intros l; apply Permutation_refl|]. vm_compute. repeat split; reflexivity.
Qed.
Print Assumptions C05_faithful_refuted_devices.

(* ... or two services of one type in a device. *)
Theorem C05_faithful_refuted_services :
  exists (urljoin : pystr -> pystr -> pystr) (float_of_str : pystr -> option fl) (lower_ext : N -> N)
         (r : rendering) (strict : bool) (probes : list pyval) (base : pystr) (d : device_def),
    (forall l, Permutation (r_perm r l) l) /\
    wf_desc urljoin float_of_str lower_ext base d = true /\ any_corrupt d = false /\
    kf_dup_device_types d = false /\
    c_mirrors urljoin float_of_str lower_ext strict probes base d
              (run_def urljoin float_of_str lower_ext r strict probes base d) = false.
Proof.
  exists urljoin0, fos0, lext0, plain, true, probes0, base0, w_dup_services.
  split; [intros l; apply Permutation_refl|]. vm_compute. repeat split; reflexivity.
Qed.
Print Assumptions C05_faithful_refuted_services.

(* Sentence 2, first half (full strength): in strict mode, if any service document of the tree is
   unparseable, has a foreign root (tag or namespace) or lacks its state table, device creation is
   refused with an exception of the library's UpnpError family. *)
Theorem C05_strict_refuses :
  forall (urljoin : pystr -> pystr -> pystr) (float_of_str : pystr -> option fl) (lower_ext : N -> N)
         (r : rendering), (forall l, Permutation (r_perm r l) l) ->
  forall (strict : bool) (probes : list pyval) (base : pystr) (d : device_def),
    wf_desc urljoin float_of_str lower_ext base d = true -> strict = true -> any_corrupt d = true ->
    exists e, run_def urljoin float_of_str lower_ext r strict probes base d = FRaise e /\ lib_error e = true.
Proof. exact strict_refuses. Qed.
Print Assumptions C05_strict_refuses.

(* Sentence 2, second half (same guards as sentence 1): in non-strict mode, whatever subset of service
   documents is corrupted, device creation succeeds; corrupted services are present with their identity
   and URLs and degrade to a service without state variables and without anything bound to one; every
   other service, and the rest of the tree, mirrors the definition. *)
Theorem C05_nonstrict_degrades_partial :
  forall (urljoin : pystr -> pystr -> pystr) (float_of_str : pystr -> option fl) (lower_ext : N -> N)
         (r : rendering), (forall l, Permutation (r_perm r l) l) ->
  forall (probes : list pyval) (base : pystr) (d : device_def),
    wf_desc urljoin float_of_str lower_ext base d = true ->
    kf_dup_device_types d = false -> kf_dup_service_types d = false ->
    exists o, run_def urljoin float_of_str lower_ext r false probes base d = FOk o /\
              mirror_dev urljoin float_of_str lower_ext false probes base d o = true.
Proof. exact nonstrict_degrades_partial. Qed.
Print Assumptions C05_nonstrict_degrades_partial.

(* The two clauses exactly as the correspondence check evaluates them on observations (Run.report):
   clause 1 under the guards, clause 2 unconditionally, for every input of the domain. *)
Theorem C05_clause_mirrors_partial :
  forall (urljoin : pystr -> pystr -> pystr) (float_of_str : pystr -> option fl) (lower_ext : N -> N)
         (r : rendering), (forall l, Permutation (r_perm r l) l) ->
  forall (strict : bool) (probes : list pyval) (base : pystr) (d : device_def),
    wf_desc urljoin float_of_str lower_ext base d = true ->
    kf_dup_device_types d = false -> kf_dup_service_types d = false ->
    c_mirrors urljoin float_of_str lower_ext strict probes base d
              (run_def urljoin float_of_str lower_ext r strict probes base d) = true.
Proof. exact c_mirrors_partial. Qed.
Print Assumptions C05_clause_mirrors_partial.

(* The known findings D32 / D33 identified by their OUTCOME, without the guards: on EVERY description of the domain -
   same-type sibling devices / services allowed - the model's object graph is the mirror of the COLLAPSED description
   (Spec.collapse: `embedded_devices` / `services` taken as what they are, dicts keyed by type: the first occurrence
   of a type keeps its place, the last sibling of the type stays).  The run is the run on the description's own
   documents and server: the SCPD of a service that the collapse drops is still fetched.  Hence the one hypothesis
   beyond the domain, which only speaks about strict mode: if some service document is corrupted, then one of a
   service that SURVIVES the collapse is (otherwise strict creation is refused because of a dropped service's
   document - clause 2 holds, C05_clause_strict_refuses - while the collapsed description has no corrupted service:
   C05_collapsed_hypothesis_needed).  In non-strict mode, and whenever no service document is corrupted, the
   hypothesis is void.  C05_clause_mirrors_partial is the special case collapse d = d (C05_collapse_normal_form). *)
Theorem C05_mirrors_collapsed :
  forall (urljoin : pystr -> pystr -> pystr) (float_of_str : pystr -> option fl) (lower_ext : N -> N)
         (r : rendering), (forall l, Permutation (r_perm r l) l) ->
  forall (strict : bool) (probes : list pyval) (base : pystr) (d : device_def),
    wf_desc urljoin float_of_str lower_ext base d = true ->
    (strict = true -> any_corrupt d = true -> any_corrupt (collapse d) = true) ->
    c_mirrors urljoin float_of_str lower_ext strict probes base (collapse d)
              (run_def urljoin float_of_str lower_ext r strict probes base d) = true.
Proof. exact c_mirrors_collapsed. Qed.
Print Assumptions C05_mirrors_collapsed.

(* The same as sentences 1 / 2b without guards: creation succeeds and the graph mirrors the collapsed description,
   for every description of the domain whose service documents are all intact (either mode) and for every
   description of the domain in non-strict mode. *)
Theorem C05_faithful_collapsed :
  forall (urljoin : pystr -> pystr -> pystr) (float_of_str : pystr -> option fl) (lower_ext : N -> N)
         (r : rendering), (forall l, Permutation (r_perm r l) l) ->
  forall (strict : bool) (probes : list pyval) (base : pystr) (d : device_def),
    wf_desc urljoin float_of_str lower_ext base d = true -> strict && any_corrupt d = false ->
    exists o, run_def urljoin float_of_str lower_ext r strict probes base d = FOk o /\
              mirror_dev urljoin float_of_str lower_ext strict probes base (collapse d) o = true.
Proof. exact mirrors_collapsed. Qed.
Print Assumptions C05_faithful_collapsed.

(* With no hypothesis beyond the domain: clause 1 holds against the description or against its collapsed form - the
   decision Run.report_one takes under the guards (nothing, or clause 3 `mirrors_collapsed`; never clause 1). *)
Theorem C05_clause_mirrors_or_collapsed :
  forall (urljoin : pystr -> pystr -> pystr) (float_of_str : pystr -> option fl) (lower_ext : N -> N)
         (r : rendering), (forall l, Permutation (r_perm r l) l) ->
  forall (strict : bool) (probes : list pyval) (base : pystr) (d : device_def),
    wf_desc urljoin float_of_str lower_ext base d = true ->
    c_mirrors urljoin float_of_str lower_ext strict probes base d
              (run_def urljoin float_of_str lower_ext r strict probes base d) ||
    c_mirrors urljoin float_of_str lower_ext strict probes base (collapse d)
              (run_def urljoin float_of_str lower_ext r strict probes base d) = true.
Proof. exact c_mirrors_or_collapsed. Qed.
Print Assumptions C05_clause_mirrors_or_collapsed.

(* collapse is a normal form: the identity outside the guards, its result is outside both guards (so it is
   idempotent), it keeps the per-element conformance, and it only drops services (none is invented). *)
Theorem C05_collapse_normal_form :
  forall d : device_def,
    (kf_dup_device_types d = false -> kf_dup_service_types d = false -> collapse d = d) /\
    kf_dup_device_types (collapse d) = false /\ kf_dup_service_types (collapse d) = false /\
    collapse (collapse d) = collapse d /\
    (forall s, In s (all_services (collapse d)) -> In s (all_services d)) /\
    (forall urljoin float_of_str lower_ext base,
       wf_tree urljoin float_of_str lower_ext base d = true ->
       wf_tree urljoin float_of_str lower_ext base (collapse d) = true).
Proof. exact collapse_normal_form. Qed.
Print Assumptions C05_collapse_normal_form.

Theorem C05_clause_strict_refuses :
  forall (urljoin : pystr -> pystr -> pystr) (float_of_str : pystr -> option fl) (lower_ext : N -> N)
         (r : rendering), (forall l, Permutation (r_perm r l) l) ->
  forall (strict : bool) (probes : list pyval) (base : pystr) (d : device_def),
    wf_desc urljoin float_of_str lower_ext base d = true ->
    c_strict_refuses strict d (run_def urljoin float_of_str lower_ext r strict probes base d) = true.
Proof. exact c_strict_refuses_holds. Qed.
Print Assumptions C05_clause_strict_refuses.

(* The domain is a widening of "every service has its own SCPD URL": with pairwise distinct SCPD URLs the
   sharing condition is void, and wf_dev (the sub-domain C14 uses) is inside wf_desc. *)
Theorem C05_domain_contains_distinct_urls :
  forall (urljoin : pystr -> pystr -> pystr) (float_of_str : pystr -> option fl) (lower_ext : N -> N)
         (base : pystr) (d : device_def),
    (nodupb (map (scpd_url urljoin base) (all_services d)) = true ->
     wf_desc urljoin float_of_str lower_ext base d =
     wf_tree urljoin float_of_str lower_ext base d &&
     negb (existsb (str_eqb base) (map (scpd_url urljoin base) (all_services d)))) /\
    (wf_dev urljoin float_of_str lower_ext base d = true -> wf_desc urljoin float_of_str lower_ext base d = true).
Proof.
  intros uj fs le base d. split; [|apply wf_dev_desc].
  intros H. unfold wf_desc. now rewrite distinct_urls_wf_world.
Qed.
Print Assumptions C05_domain_contains_distinct_urls.

(* Every rendering the harness can name (identity, reversal, rotations of the child order) satisfies the
   premise of the theorems above: the model_run of the correspondence check is an instance. *)
Theorem C05_harness_renderings :
  forall k ct pad spec empty l, Permutation (r_perm (rendering_of k ct pad spec empty) l) l.
Proof. exact harness_renderings. Qed.
Print Assumptions C05_harness_renderings.

(* The factory's queries read back what the renderer wrote, for every permuting rendering: the parse
   stage applied to the rendered description is the definition itself. *)
Theorem C05_parse_render :
  forall (r : rendering), (forall l, Permutation (r_perm r l) l) ->
  forall d : device_def, parse_root (root_tree r d) = Some (pdev_of d).
Proof. exact parse_root_tree. Qed.
Print Assumptions C05_parse_render.

(* Non-vacuity: a definition with icons of both URL styles, state variables with default / range /
   allowed list in both notations, actions with in and out arguments, and embedded devices to depth 3
   (one of them with a time variable carrying a default value - the D14 shape) is in the domain, outside
   both guards, and is mirrored in both modes under a non-trivial rendering (rotated children,
   indentation, padded names, empty lists rendered); with one service document lacking its state table
   it is refused in strict mode and degrades in non-strict mode. *)
Example C05_domain_inhabited :
  wf_desc urljoin0 fos0 lext0 base0 ex_full = true /\
  kf_dup_device_types ex_full = false /\ kf_dup_service_types ex_full = false /\ any_corrupt ex_full = false /\
  length (all_services ex_full) = 3%nat /\
  c_mirrors urljoin0 fos0 lext0 true probes0 base0 ex_full (run_def urljoin0 fos0 lext0 fancy true probes0 base0 ex_full) = true /\
  c_mirrors urljoin0 fos0 lext0 false probes0 base0 ex_full (run_def urljoin0 fos0 lext0 fancy false probes0 base0 ex_full) = true /\
  (exists o, run_def urljoin0 fos0 lext0 fancy true probes0 base0 ex_full = FOk o).
Proof. vm_compute. repeat split; try reflexivity. eexists; reflexivity. Qed.

Example C05_corruption_inhabited :
  wf_desc urljoin0 fos0 lext0 base0 ex_corrupt = true /\ any_corrupt ex_corrupt = true /\
  run_def urljoin0 fos0 lext0 fancy true probes0 base0 ex_corrupt = FRaise XmlContentError /\
  c_mirrors urljoin0 fos0 lext0 false probes0 base0 ex_corrupt (run_def urljoin0 fos0 lext0 fancy false probes0 base0 ex_corrupt) = true /\
  (exists o, run_def urljoin0 fos0 lext0 fancy false probes0 base0 ex_corrupt = FOk o).
Proof. vm_compute. repeat split; try reflexivity. eexists; reflexivity. Qed.

(* Shared SCPD: a gateway whose WANIPConnection and WANPPPConnection (and the WANIPConnection of its embedded
   device, through the absolute spelling) name ONE service description URL is in the domain although its
   SCPD URLs are not pairwise distinct, outside both guards, and is mirrored in both modes: each of the three
   services gets the variables and the action of the one document.  When the shared document lacks its
   state table, strict mode refuses and non-strict mode degrades all three.  Two services that name one
   URL but differ in their actions are outside the domain. *)
Example C05_shared_scpd_inhabited :
  wf_desc urljoin0 fos0 lext0 base0 ex_shared = true /\
  nodupb (map (scpd_url urljoin0 base0) (all_services ex_shared)) = false /\
  wf_dev urljoin0 fos0 lext0 base0 ex_shared = false /\
  length (all_services ex_shared) = 3%nat /\
  kf_dup_device_types ex_shared = false /\ kf_dup_service_types ex_shared = false /\ any_corrupt ex_shared = false /\
  c_mirrors urljoin0 fos0 lext0 true probes0 base0 ex_shared (run_def urljoin0 fos0 lext0 fancy true probes0 base0 ex_shared) = true /\
  c_mirrors urljoin0 fos0 lext0 false probes0 base0 ex_shared (run_def urljoin0 fos0 lext0 fancy false probes0 base0 ex_shared) = true /\
  (exists o, run_def urljoin0 fos0 lext0 fancy true probes0 base0 ex_shared = FOk o) /\
  wf_desc urljoin0 fos0 lext0 base0 (ex_shared_with CNoTable) = true /\
  run_def urljoin0 fos0 lext0 fancy true probes0 base0 (ex_shared_with CNoTable) = FRaise XmlContentError /\
  c_mirrors urljoin0 fos0 lext0 false probes0 base0 (ex_shared_with CNoTable)
            (run_def urljoin0 fos0 lext0 fancy false probes0 base0 (ex_shared_with CNoTable)) = true /\
  wf_desc urljoin0 fos0 lext0 base0 ex_shared_bad = false.
Proof. vm_compute. repeat split; try reflexivity. eexists; reflexivity. Qed.

(* Non-vacuity of the collapsed theorems: the two refutation witnesses (two sibling devices of one type; two services
   of one type) are in the domain, satisfy the strict-mode hypothesis of C05_mirrors_collapsed (nothing is corrupted),
   are NOT their own collapsed form, fail clause 1 against themselves and pass it against their collapsed form.  And
   the hypothesis is needed: with the document of the DROPPED service of the D33 witness lacking its state table,
   strict creation is refused (clause 2 holds) although the collapsed description has no corrupted service, so
   clause 1 against the collapsed form fails there; in non-strict mode it holds. *)
Example C05_collapsed_inhabited :
  wf_desc urljoin0 fos0 lext0 base0 w_dup_devices = true /\ any_corrupt w_dup_devices = false /\
  collapse w_dup_devices <> w_dup_devices /\
  length (dd_subs (collapse w_dup_devices)) = 1%nat /\
  c_mirrors urljoin0 fos0 lext0 true probes0 base0 w_dup_devices (run_def urljoin0 fos0 lext0 plain true probes0 base0 w_dup_devices) = false /\
  c_mirrors urljoin0 fos0 lext0 true probes0 base0 (collapse w_dup_devices) (run_def urljoin0 fos0 lext0 plain true probes0 base0 w_dup_devices) = true /\
  wf_desc urljoin0 fos0 lext0 base0 w_dup_services = true /\ any_corrupt w_dup_services = false /\
  collapse w_dup_services <> w_dup_services /\
  length (dd_svcs (collapse w_dup_services)) = 1%nat /\
  c_mirrors urljoin0 fos0 lext0 true probes0 base0 w_dup_services (run_def urljoin0 fos0 lext0 plain true probes0 base0 w_dup_services) = false /\
  c_mirrors urljoin0 fos0 lext0 true probes0 base0 (collapse w_dup_services) (run_def urljoin0 fos0 lext0 plain true probes0 base0 w_dup_services) = true.
Proof.
  assert (N1 : collapse w_dup_devices <> w_dup_devices).
  { intros E. apply (f_equal kf_dup_device_types) in E. vm_compute in E. discriminate. }
  assert (N2 : collapse w_dup_services <> w_dup_services).
  { intros E. apply (f_equal kf_dup_service_types) in E. vm_compute in E. discriminate. }
  repeat split; try assumption; vm_compute; reflexivity.
Qed.

Example C05_collapsed_hypothesis_needed :
  wf_desc urljoin0 fos0 lext0 base0 w_dropped_corrupt = true /\
  any_corrupt w_dropped_corrupt = true /\ any_corrupt (collapse w_dropped_corrupt) = false /\
  c_mirrors urljoin0 fos0 lext0 true probes0 base0 (collapse w_dropped_corrupt)
            (run_def urljoin0 fos0 lext0 plain true probes0 base0 w_dropped_corrupt) = false /\
  c_strict_refuses true w_dropped_corrupt (run_def urljoin0 fos0 lext0 plain true probes0 base0 w_dropped_corrupt) = true /\
  c_mirrors urljoin0 fos0 lext0 false probes0 base0 (collapse w_dropped_corrupt)
            (run_def urljoin0 fos0 lext0 plain false probes0 base0 w_dropped_corrupt) = true.
Proof. vm_compute. repeat split; reflexivity. Qed.

(* The generated type table still supports every one of the 26 data types the statement counts, so
   "state variables of every supported data type" has not silently shrunk. *)
Example C05_all_26_types_supported :
  length uda_types = 26%nat /\
  forallb (fun n => match find_row n type_table with Some _ => true | None => false end) uda_types = true.
Proof. vm_compute. split; reflexivity. Qed.
