(* C05 — generic lemmas: the error monad, lists, permutations, reflexivity of the comparisons,
   the dict comprehension over distinct keys, str.strip on padded names. *)
From Coq Require Import List Bool NArith ZArith Lia Permutation.
From AUC Require Import Prelude.PyStr Prelude.PyDict C08.TypesDef C08.Model C05.Xml C05.Names C05.Model C05.Def C05.Spec.
Import ListNotations.

(* ------------------------------------------------------------------ strings *)
Lemma str_eqb_refl s : str_eqb s s = true.
Proof. destruct (str_eqb_spec s s); congruence. Qed.
Lemma str_eqb_eq a b : str_eqb a b = true -> a = b.
Proof. destruct (str_eqb_spec a b); congruence. Qed.
Lemma str_eqb_neq a b : a <> b -> str_eqb a b = false.
Proof. destruct (str_eqb_spec a b); congruence. Qed.
Lemma str_eqb_sym a b : str_eqb a b = str_eqb b a.
Proof. destruct (str_eqb_spec a b), (str_eqb_spec b a); congruence. Qed.

Lemma starts_with_app a b s : starts_with (a ++ b) s = true -> starts_with a s = true.
Proof.
  revert s. induction a as [|x a IH]; intros s; cbn; [reflexivity|].
  destruct s as [|y s]; [discriminate|]. intros H. apply andb_true_iff in H as [H1 H2].
  rewrite H1. cbn. now apply IH.
Qed.

(* ------------------------------------------------------------------ error monad *)
Lemma mapM_ok {A B} (f : A -> fres B) (g : A -> B) l :
  (forall x, In x l -> f x = FOk (g x)) -> mapM f l = FOk (map g l).
Proof.
  induction l as [|x l IH]; intros H; cbn; [reflexivity|].
  rewrite (H x (or_introl eq_refl)). cbn. rewrite IH by (intros; apply H; now right). reflexivity.
Qed.

Lemma mapM_map {A B C} (f : B -> fres C) (h : A -> B) l : mapM f (map h l) = mapM (fun x => f (h x)) l.
Proof. induction l as [|x l IH]; cbn; [reflexivity|]. now rewrite IH. Qed.

Lemma mapM_raises {A B} (f : A -> fres B) (P : fexn -> Prop) l :
  (forall x, In x l -> (exists y, f x = FOk y) \/ (exists e, f x = FRaise e /\ P e)) ->
  (exists x, In x l /\ exists e, f x = FRaise e) ->
  exists e, mapM f l = FRaise e /\ P e.
Proof.
  induction l as [|x l IH]; intros Hall [x0 [Hin Hx0]]; [destruct Hin|].
  cbn. destruct (Hall x (or_introl eq_refl)) as [[y Hy]|[e [He HP]]].
  - rewrite Hy. cbn. destruct Hin as [->|Hin].
    + destruct Hx0 as [e He]. congruence.
    + destruct IH as [e [He HP]]; [intros; apply Hall; now right | exists x0; auto |].
      rewrite He. cbn. eauto.
  - rewrite He. cbn. eauto.
Qed.

(* ------------------------------------------------------------------ lists *)
Lemma forallb2_map_r {A B C} (f : A -> C -> bool) (g : B -> C) (a : list A) (b : list B) :
  forallb2 f a (map g b) = forallb2 (fun x y => f x (g y)) a b.
Proof. revert b. induction a as [|x a IH]; intros [|y b]; cbn; try reflexivity. now rewrite IH. Qed.

Lemma forallb2_same {A B} (f : A -> B -> bool) (g : A -> B) l :
  (forall x, In x l -> f x (g x) = true) -> forallb2 f l (map g l) = true.
Proof.
  induction l as [|x l IH]; intros H; cbn; [reflexivity|].
  rewrite (H x (or_introl eq_refl)), IH; [reflexivity | intros; apply H; now right].
Qed.

Lemma list_eqb_str_refl l : list_eqb str_eqb l l = true.
Proof. induction l as [|x l IH]; cbn; [reflexivity|]. now rewrite str_eqb_refl. Qed.

Lemma nodupb_NoDup l : nodupb l = true -> NoDup l.
Proof.
  induction l as [|x l IH]; cbn; intros H; [constructor|].
  apply andb_true_iff in H as [H1 H2]. constructor; [|now apply IH].
  intros Hin. apply negb_true_iff in H1.
  assert (existsb (str_eqb x) l = true) as E by (apply existsb_exists; exists x; split; [assumption | apply str_eqb_refl]).
  congruence.
Qed.

Lemma existsb_str_In x l : existsb (str_eqb x) l = true -> In x l.
Proof. intros H. apply existsb_exists in H as [y [Hy E]]. apply str_eqb_eq in E. now subst. Qed.

Lemma filter_all {A} (p : A -> bool) l : (forall x, In x l -> p x = true) -> filter p l = l.
Proof.
  induction l as [|x l IH]; intros H; cbn; [reflexivity|].
  rewrite (H x (or_introl eq_refl)), IH; [reflexivity | intros; apply H; now right].
Qed.
Lemma filter_none {A} (p : A -> bool) l : (forall x, In x l -> p x = false) -> filter p l = [].
Proof.
  induction l as [|x l IH]; intros H; cbn; [reflexivity|].
  rewrite (H x (or_introl eq_refl)), IH; [reflexivity | intros; apply H; now right].
Qed.

Lemma NoDup_app_inv {A} (a b : list A) :
  NoDup (a ++ b) -> NoDup a /\ NoDup b /\ (forall x, In x a -> ~ In x b).
Proof.
  induction a as [|x a IH]; cbn; intros H.
  - repeat split; [constructor | assumption | tauto].
  - inversion H; subst. destruct (IH H3) as [H4 [H5 H6]]. repeat split; [|assumption|].
    + constructor; [|assumption]. intros Hin. apply H2, in_or_app. now left.
    + intros y [<-|Hy]; [intros Hin; apply H2, in_or_app; now right | now apply H6].
Qed.

Lemma find_hd_filter {A} (p : A -> bool) l : find p l = hd_error (filter p l).
Proof. induction l as [|x l IH]; cbn; [reflexivity|]. destruct (p x); cbn; [reflexivity | exact IH]. Qed.

Lemma Permutation_filter {A} (p : A -> bool) (a b : list A) :
  Permutation a b -> Permutation (filter p a) (filter p b).
Proof.
  induction 1; cbn.
  - constructor.
  - destruct (p x); [now constructor | assumption].
  - destruct (p x), (p y); first [apply perm_swap | apply Permutation_refl].
  - eapply Permutation_trans; eassumption.
Qed.

(* a permutation cannot reorder what matches at most once *)
Lemma filter_perm_le1 {A} (p : A -> bool) (a b : list A) :
  Permutation a b -> (length (filter p b) <= 1)%nat -> filter p a = filter p b.
Proof.
  intros HP Hlen. apply (Permutation_filter p) in HP.
  destruct (filter p b) as [|x [|y r]] eqn:E.
  - now apply Permutation_nil, Permutation_sym.
  - now apply Permutation_length_1_inv, Permutation_sym.
  - cbn in Hlen. lia.
Qed.

(* ------------------------------------------------------------------ reflexivity of the comparisons *)
Lemma fl_eqb_refl f : fl_eqb f f = true.
Proof. destruct f as [m e|b|]; cbn; [now rewrite !Z.eqb_refl | now destruct b | reflexivity]. Qed.
Lemma val_eqb_refl v : val_eqb v v = true.
Proof.
  assert (D : forall d, date_eqb d d = true) by (intros d; unfold date_eqb; now rewrite !N.eqb_refl).
  assert (T : forall t, time_eqb t t = true).
  { intros t; unfold time_eqb, otz_eqb. rewrite !N.eqb_refl. cbn. destruct (ttz t); [apply Z.eqb_refl | reflexivity]. }
  destruct v; cbn; auto using Z.eqb_refl, fl_eqb_refl, str_eqb_refl.
  - now destruct b.
  - now rewrite D, T.
Qed.
Lemma opt_val_eqb_refl o : opt_eqb val_eqb o o = true.
Proof. destruct o; cbn; [apply val_eqb_refl | reflexivity]. Qed.
Lemma pytype_eqb_refl t : pytype_eqb t t = true.
Proof. now destruct t. Qed.
Lemma set_eqb_refl l : set_eqb l l = true.
Proof.
  unfold set_eqb. assert (H : forallb (fun x => existsb (val_eqb x) l) l = true).
  { apply forallb_forall. intros x Hx. apply existsb_exists. exists x. split; [assumption | apply val_eqb_refl]. }
  now rewrite H.
Qed.
Lemma list_eqb_bool_refl l : list_eqb Bool.eqb l l = true.
Proof. induction l as [|x l IH]; cbn; [reflexivity|]. now rewrite eqb_reflx. Qed.

(* ------------------------------------------------------------------ {key(x): x for x in l} over distinct keys *)
Lemma dict_of_nodup {A} (key : A -> pystr) (l : list A) :
  NoDup (map key l) -> dict_of key l = map (fun x => (key x, x)) l.
Proof.
  intros H. unfold dict_of.
  rewrite (fold_dset_dmerge str_eqb key (fun x => x) l []).
  rewrite (dmerge_dict str_eqb str_eqb_spec); [reflexivity|].
  cbn. now rewrite map_map.
Qed.

Lemma dget_map_key {A} (key : A -> pystr) (l : list A) k :
  dget str_eqb (map (fun x => (key x, x)) l) k = find (fun x => str_eqb (key x) k) l.
Proof. induction l as [|x l IH]; cbn; [reflexivity|]. destruct (str_eqb (key x) k); [reflexivity | exact IH]. Qed.

(* ------------------------------------------------------------------ str.strip() undoes the padding *)
Lemma lstrip_spaces a s : forallb is_space a = true -> lstrip (a ++ s) = lstrip s.
Proof.
  induction a as [|c a IH]; cbn; [reflexivity|]. intros H. apply andb_true_iff in H as [H1 H2].
  rewrite H1. now apply IH.
Qed.
Lemma strip_padded a b s :
  forallb is_space a = true -> forallb is_space b = true -> strip (a ++ s ++ b) = strip s.
Proof.
  intros Ha Hb. unfold strip. rewrite (lstrip_spaces a _ Ha).
  destruct (lstrip s) as [|c t] eqn:E.
  - (* s is all spaces: so is s ++ b *)
    assert (Hs : forall u, lstrip u = [] -> forall v, forallb is_space v = true -> lstrip (u ++ v) = []).
    { induction u as [|x u IH]; cbn; intros Hu v Hv.
      - clear -Hv. induction v as [|y v IH]; cbn; [reflexivity|]. cbn in Hv. apply andb_true_iff in Hv as [H1 H2].
        rewrite H1. now apply IH.
      - destruct (is_space x); [now apply IH | discriminate]. }
    now rewrite (Hs s E b Hb).
  - assert (Hl : lstrip (s ++ b) = (c :: t) ++ b).
    { clear -E. induction s as [|x s IH]; cbn in *; [discriminate|].
      destruct (is_space x); [now apply IH | now inversion E]. }
    rewrite Hl, rev_app_distr. rewrite lstrip_spaces; [reflexivity|].
    rewrite forallb_forall in *. intros x Hx. apply Hb. now apply in_rev.
Qed.

(* ------------------------------------------------------------------ same_scpd decides equality of the SCPD-relevant part *)
Lemma opt_eqb_eq {A} (eqb : A -> A -> bool) (a b : option A) :
  (forall x y, eqb x y = true -> x = y) -> opt_eqb eqb a b = true -> a = b.
Proof. intros H. destruct a, b; cbn; intros E; try discriminate; [f_equal; now apply H | reflexivity]. Qed.
Lemma list_eqb_eq {A} (eqb : A -> A -> bool) (a b : list A) :
  (forall x y, eqb x y = true -> x = y) -> list_eqb eqb a b = true -> a = b.
Proof.
  intros H. unfold list_eqb. revert b. induction a as [|x a IH]; intros [|y b]; cbn; intros E; try discriminate; [reflexivity|].
  apply andb_true_iff in E as [E1 E2]. f_equal; [now apply H | now apply IH].
Qed.
Lemma bool_eqb_eq a b : Bool.eqb a b = true -> a = b.
Proof. now destruct a, b. Qed.

Lemma svd_eqb_eq a b : svd_eqb a b = true -> a = b.
Proof.
  unfold svd_eqb. intros H. repeat (apply andb_true_iff in H as [H ?]).
  destruct a as [a1 a2 a3 a4 a5 a6 a7], b as [b1 b2 b3 b4 b5 b6 b7]; cbn [sd_name sd_type sd_attr sd_evented sd_default sd_range sd_allowed] in *.
  f_equal; try (now apply str_eqb_eq); try (now apply bool_eqb_eq).
  - apply (opt_eqb_eq str_eqb); [apply str_eqb_eq | assumption].
  - eapply opt_eqb_eq; [|eassumption]. intros [[x1 x2] x3] [[y1 y2] y3]. cbn [fst snd]. intros E.
    repeat (apply andb_true_iff in E as [E ?]).
    repeat f_equal; (apply (opt_eqb_eq str_eqb); [apply str_eqb_eq | assumption]).
  - eapply opt_eqb_eq; [|eassumption]. intros x y. apply list_eqb_eq, str_eqb_eq.
Qed.
Lemma argd_eqb_eq a b : argd_eqb a b = true -> a = b.
Proof.
  unfold argd_eqb. intros H. repeat (apply andb_true_iff in H as [H ?]).
  destruct a as [a1 a2 a3 a4], b as [b1 b2 b3 b4]; cbn [ag_name ag_in ag_retval ag_rsv] in *.
  f_equal; try (now apply str_eqb_eq); now apply bool_eqb_eq.
Qed.
Lemma actd_eqb_eq a b : actd_eqb a b = true -> a = b.
Proof.
  unfold actd_eqb. intros H. apply andb_true_iff in H as [H1 H2].
  destruct a as [a1 a2], b as [b1 b2]; cbn [ad_name ad_args] in *. f_equal; [now apply str_eqb_eq|].
  eapply list_eqb_eq; [|eassumption]. apply argd_eqb_eq.
Qed.
Lemma corruption_eqb_eq a b : corruption_eqb a b = true -> a = b.
Proof. destruct a, b; cbn; intros E; try discriminate; reflexivity. Qed.
Lemma same_scpd_eq a b :
  same_scpd a b = true -> s_vars a = s_vars b /\ s_actions a = s_actions b /\ s_corrupt a = s_corrupt b.
Proof.
  unfold same_scpd. intros H. apply andb_true_iff in H as [H H3]. apply andb_true_iff in H as [H1 H2].
  repeat split; [eapply list_eqb_eq; [|eassumption]; apply svd_eqb_eq
                | eapply list_eqb_eq; [|eassumption]; apply actd_eqb_eq | now apply corruption_eqb_eq].
Qed.
Lemma same_scpd_refl a : same_scpd a a = true.
Proof.
  assert (O : forall o, opt_eqb str_eqb o o = true) by (intros [x|]; cbn; [apply str_eqb_refl | reflexivity]).
  assert (L : forall {A} (e : A -> A -> bool) l, (forall x, e x x = true) -> list_eqb e l l = true).
  { intros A e l He. unfold list_eqb. induction l as [|x l IH]; cbn; [reflexivity|]. now rewrite He, IH. }
  assert (V : forall v, svd_eqb v v = true).
  { intros v. unfold svd_eqb. rewrite !str_eqb_refl, !eqb_reflx, O. cbn [andb].
    assert (opt_eqb (list_eqb str_eqb) (sd_allowed v) (sd_allowed v) = true) as ->
        by (destruct (sd_allowed v); cbn; [apply L, str_eqb_refl | reflexivity]).
    rewrite andb_true_r. destruct (sd_range v) as [[[x y] z]|]; cbn; [now rewrite !O | reflexivity]. }
  assert (G : forall g, argd_eqb g g = true) by (intros g; unfold argd_eqb; now rewrite !str_eqb_refl, !eqb_reflx).
  assert (C : forall c, actd_eqb c c = true) by (intros c; unfold actd_eqb; now rewrite str_eqb_refl, L).
  unfold same_scpd. rewrite !L by assumption. now destruct (s_corrupt a).
Qed.
