(* C05 — executable model of client_factory.py:UpnpFactory (async_create_device and everything below
   it) together with the public attribute getters of client.py through which the resulting graph is
   observed (UpnpDevice.*, UpnpService.*_url, UpnpAction(.Argument).*, UpnpStateVariable.min_value /
   max_value / allowed_values / default_value / send_events / validate_value).

   Two stages, in the order in which the code can raise:
     parse_*  : the ElementTree queries of the factory (find / findall / findtext / attrib): pure,
                total, XML tree -> what was read;
     build_*  : everything that can fail or that constructs an object, over what was read: HTTP
                status, parse error, strict / non-strict switches, unsupported data type, schema
                construction (C08.mk_decl), the default-value conversion, argument -> state variable
                binding, the dict comprehensions of UpnpService / UpnpDevice (later key wins, first
                position stays), URL resolution.
   The data-type table is Gen/Types.v (regenerated from const.py).  REPAIRED behaviour is modelled for
   D14 (default value converted with the declared in-coercer) and D31 (non-strict: an argument whose
   related state variable is unknown is ignored).  Definitions only. *)
From Coq Require Import List Bool NArith ZArith.
From AUC Require Import Prelude.PyStr Prelude.PyDict C08.TypesDef C08.Model Gen.Types Gen.DateMatchers
  C05.Xml C05.Names.
Import ListNotations.

(* ------------------------------------------------------------------ exceptions *)
Inductive fexn :=
| XmlParseError | XmlContentError | ResponseError (status : Z) | UpnpErr   (* library classes (UpnpError family) *)
| KeyErr | ValueErr | TypeErr | OtherErr.
Inductive fres (A : Type) := FOk (a : A) | FRaise (e : fexn).
Arguments FOk {A}. Arguments FRaise {A}.
Definition fbind {A B} (x : fres A) (f : A -> fres B) : fres B :=
  match x with FOk a => f a | FRaise e => FRaise e end.
Definition mapM {A B} (f : A -> fres B) : list A -> fres (list B) :=
  fix go (l : list A) : fres (list B) :=
    match l with
    | [] => FOk []
    | x :: r => fbind (f x) (fun y => fbind (go r) (fun ys => FOk (y :: ys)))
    end.
Definition of_exn (e : exn) : fexn :=
  match e with ValueError => ValueErr | TypeError => TypeErr | _ => OtherErr end.
Definition of_res {A} (r : res A) : fres A :=
  match r with Ok a => FOk a | Raise e => FRaise (of_exn e) end.

(* ------------------------------------------------------------------ what the factory reads *)
Record p_icon := { pi_mimetype : option pystr; pi_width : option pystr; pi_height : option pystr;
                   pi_depth : option pystr; pi_url : option pystr }.
Record p_hdr := {
  ph_deviceType : option pystr; ph_friendlyName : option pystr; ph_manufacturer : option pystr;
  ph_manufacturerURL : option pystr; ph_modelDescription : option pystr; ph_modelName : option pystr;
  ph_modelNumber : option pystr; ph_modelURL : option pystr; ph_serialNumber : option pystr;
  ph_UDN : option pystr; ph_UPC : option pystr; ph_presentationURL : option pystr }.
Record p_service := { ps_serviceType : option pystr; ps_serviceId : option pystr; ps_SCPDURL : option pystr;
                      ps_controlURL : option pystr; ps_eventSubURL : option pystr }.
Inductive p_device := PDev (h : p_hdr) (icons : list p_icon) (services : list p_service) (subs : list p_device).

Record p_sv := {
  pv_attr : option pystr;                 (* attrib["sendEvents"] *)
  pv_child : option pystr;                (* findtext("service:sendEventsAttribute") *)
  pv_dataType : option pystr;
  pv_default : option pystr;
  pv_range : option (option pystr * option pystr * option pystr);    (* min, max, step *)
  pv_allowed : option (list pystr);
  pv_name : option pystr }.
Record p_action := { pa_name : option pystr; pa_args : list (pystr * pystr * pystr) }.   (* name, direction, related *)
Record p_scpd := { pd_root_ok : bool; pd_table : option (list p_sv); pd_actions : list p_action }.

(* ------------------------------------------------------------------ parse stage *)
Definition parse_icon (x : xml) : p_icon :=
  let cs := x_children x in
  {| pi_mimetype := findtext ns_device n_mimetype cs; pi_width := findtext ns_device n_width cs;
     pi_height := findtext ns_device n_height cs; pi_depth := findtext ns_device n_depth cs;
     pi_url := findtext ns_device n_url cs |}.

Definition parse_hdr (cs : list xml) : p_hdr :=
  {| ph_deviceType := findtext ns_device n_deviceType cs; ph_friendlyName := findtext ns_device n_friendlyName cs;
     ph_manufacturer := findtext ns_device n_manufacturer cs; ph_manufacturerURL := findtext ns_device n_manufacturerURL cs;
     ph_modelDescription := findtext ns_device n_modelDescription cs; ph_modelName := findtext ns_device n_modelName cs;
     ph_modelNumber := findtext ns_device n_modelNumber cs; ph_modelURL := findtext ns_device n_modelURL cs;
     ph_serialNumber := findtext ns_device n_serialNumber cs; ph_UDN := findtext ns_device n_UDN cs;
     ph_UPC := findtext ns_device n_UPC cs; ph_presentationURL := findtext ns_device n_presentationURL cs |}.

Definition parse_service (x : xml) : p_service :=
  let cs := x_children x in
  {| ps_serviceType := findtext ns_device n_serviceType cs; ps_serviceId := findtext ns_device n_serviceId cs;
     ps_SCPDURL := findtext ns_device n_SCPDURL cs; ps_controlURL := findtext ns_device n_controlURL cs;
     ps_eventSubURL := findtext ns_device n_eventSubURL cs |}.

(* _async_create_device: the element itself, "./device:serviceList/device:service" and, recursively,
   "./device:deviceList/device:device" (the two inner loops are findall2 written structurally) *)
Fixpoint parse_device (x : xml) : p_device :=
  match x with
  | Elem _ _ _ _ cs =>
      PDev (parse_hdr cs)
           (map parse_icon (findall2 ns_device n_iconList n_icon cs))
           (map parse_service (findall2 ns_device n_serviceList n_service cs))
           ((fix lists (l : list xml) : list p_device :=
               match l with
               | [] => []
               | c :: r =>
                   if tag_is ns_device n_deviceList c then
                     match c with
                     | Elem _ _ _ _ ds =>
                         (fix devs (l2 : list xml) : list p_device :=
                            match l2 with
                            | [] => []
                            | d :: r2 => if tag_is ns_device n_device d then parse_device d :: devs r2 else devs r2
                            end) ds ++ lists r
                     end
                   else lists r
               end) cs)
  end.

Definition parse_sv (x : xml) : p_sv :=
  let cs := x_children x in
  {| pv_attr := attr_get n_sendEvents (x_attrs x);
     pv_child := findtext ns_service n_sendEventsAttribute cs;
     pv_dataType := findtext ns_service n_dataType cs;
     pv_default := findtext ns_service n_defaultValue cs;
     pv_range := match find1 ns_service n_allowedValueRange cs with
                 | Some r => let rc := x_children r in
                             Some (findtext ns_service n_minimum rc, findtext ns_service n_maximum rc,
                                   findtext ns_service n_step rc)
                 | None => None
                 end;
     pv_allowed := match find1 ns_service n_allowedValueList cs with
                   | Some l => Some (flat_map (fun v => match x_text v with Some t => [t] | None => [] end)
                                              (findall1 ns_service n_allowedValue (x_children l)))
                   | None => None
                   end;
     pv_name := findtext ns_service n_name cs |}.

(* _parse_action_el: arguments lacking a name, a direction or a related state variable are ignored *)
Definition parse_argument (x : xml) : list (pystr * pystr * pystr) :=
  let cs := x_children x in
  match findtext ns_service n_name cs, findtext ns_service n_direction cs,
        findtext ns_service n_relatedStateVariable cs with
  | Some n, Some d, Some r => [(n, d, r)]
  | _, _, _ => []
  end.
Definition parse_action (x : xml) : p_action :=
  let cs := x_children x in
  {| pa_name := findtext ns_service n_name cs;
     pa_args := flat_map parse_argument (findall2 ns_service n_argumentList n_argument cs) |}.

Definition parse_scpd (x : xml) : p_scpd :=
  let cs := x_children x in
  {| pd_root_ok := tag_is ns_service n_scpd x;
     pd_table := match find1 ns_service n_serviceStateTable cs with
                 | Some t => Some (map parse_sv (findall1 ns_service n_stateVariable (x_children t)))
                 | None => None
                 end;
     pd_actions := match find1 ns_service n_actionList cs with
                   | Some a => map parse_action (findall1 ns_service n_action (x_children a))
                   | None => []
                   end |}.

(* async_create_device: root_el.find("./device:device") *)
Definition parse_root (x : xml) : option p_device :=
  match find1 ns_device n_device (x_children x) with Some d => Some (parse_device d) | None => None end.

(* ------------------------------------------------------------------ the object graph, as observed *)
Record icon_o := { io_mimetype : pystr; io_width : Z; io_height : Z; io_depth : Z; io_url : pystr }.
Record dev_info := {
  di_type : pystr; di_friendly : pystr; di_manufacturer : pystr; di_manufacturer_url : option pystr;
  di_model_desc : option pystr; di_model_name : pystr; di_model_number : option pystr;
  di_model_url : option pystr; di_serial : option pystr; di_udn : pystr; di_upc : option pystr;
  di_presentation : option pystr; di_url : pystr }.
Record sv_o := {
  vo_name : pystr; vo_dtype : pystr; vo_pytype : pytype; vo_events : bool;
  vo_min : res (option pyval); vo_max : res (option pyval);
  vo_allowed : res (list pyval);             (* a Python set: compared as a set *)
  vo_default : res (option pyval);
  vo_probes : list bool;                     (* validate_value(v) accepted?  for the probe values *)
  vo_bound : bool }.                         (* .service is the owning UpnpService *)
Record arg_o := { ao_name : pystr; ao_direction : pystr; ao_rsv : pystr;   (* related_state_variable.name *)
                  ao_bound : bool }.         (* related_state_variable is service.state_variables[ao_rsv] *)
Record action_o := { co_name : pystr; co_args : list arg_o; co_bound : bool }.
Record service_o := {
  so_type : pystr; so_id : pystr; so_scpd : pystr; so_control : pystr; so_event : pystr;   (* resolved *)
  so_vars : list (pystr * sv_o);             (* state_variables.items() *)
  so_actions : list (pystr * action_o);      (* actions.items() *)
  so_bound : bool }.                         (* .device is the owning UpnpDevice *)
Inductive dev_o :=
  DevO (info : dev_info) (icons : list icon_o) (services : list (pystr * service_o))
       (embedded : list (pystr * dev_o))      (* embedded_devices.items() *)
       (bound : bool).                        (* parent_device is the containing device (None for the root) *)

Definition do_info (d : dev_o) := match d with DevO i _ _ _ _ => i end.
Definition do_icons (d : dev_o) := match d with DevO _ i _ _ _ => i end.
Definition do_services (d : dev_o) := match d with DevO _ _ s _ _ => s end.
Definition do_embedded (d : dev_o) := match d with DevO _ _ _ e _ => e end.
Definition do_bound (d : dev_o) := match d with DevO _ _ _ _ b => b end.

(* {key(x): x for x in l} *)
Definition dict_of {A} (key : A -> pystr) (l : list A) : list (pystr * A) :=
  fold_left (fun d x => dset str_eqb d (key x) x) l [].

Inductive fetched := FStatus (code : Z) | FParseError | FDoc (d : p_scpd).

(* ------------------------------------------------------------------ build stage *)
Section Build.
  Variable urljoin : pystr -> pystr -> pystr.          (* urllib.parse.urljoin: oracle *)
  Variable float_of_str : pystr -> option fl.          (* float(): oracle *)
  Variable lower_ext : N -> N.                         (* str.lower() beyond ASCII: oracle *)
  Variable fetch : pystr -> fetched.                   (* requester + text -> tree + parse_scpd *)
  Variable strict : bool.                              (* not self._non_strict *)
  Variable probes : list pyval.
  Variable base : pystr.                               (* description_url *)

  (* utils.absolute_url *)
  Definition absolute_url (url : pystr) : pystr :=
    if starts_with s_http url || starts_with s_https url then url else urljoin base url.

  (* int(icon_el.findtext(".../width", 0, NS)) *)
  Definition int_field (o : option pystr) : fres Z :=
    match o with None => FOk 0%Z | Some t => of_res (int_of_str t) end.

  Definition build_icon (p : p_icon) : fres icon_o :=
    fbind (int_field (pi_width p)) (fun w =>
    fbind (int_field (pi_height p)) (fun h =>
    fbind (int_field (pi_depth p)) (fun d =>
    FOk {| io_mimetype := or_empty (pi_mimetype p); io_width := w; io_height := h; io_depth := d;
           io_url := absolute_url (or_empty (pi_url p)) |}))).

  Definition build_info (h : p_hdr) : dev_info :=
    {| di_type := or_empty (ph_deviceType h); di_friendly := or_empty (ph_friendlyName h);
       di_manufacturer := or_empty (ph_manufacturer h);
       di_manufacturer_url := Some (or_empty (ph_manufacturerURL h));
       di_model_desc := ph_modelDescription h; di_model_name := or_empty (ph_modelName h);
       di_model_number := ph_modelNumber h; di_model_url := ph_modelURL h; di_serial := ph_serialNumber h;
       di_udn := or_empty (ph_UDN h); di_upc := Some (or_empty (ph_UPC h));
       di_presentation := Some (or_empty (ph_presentationURL h)); di_url := base |}.

  (* _parse_state_variable_el: the sendEvents attribute wins over the child element; neither = False *)
  Definition send_events (p : p_sv) : bool :=
    match pv_attr p with
    | Some v => str_eqb v s_yes
    | None => match pv_child p with Some v => str_eqb v s_yes | None => false end
    end.

  Definition coerce_opt (row : type_row) (o : option pystr) : res (option pyval) :=
    match o with
    | None => Ok None
    | Some t => match apply_in float_of_str lower_ext (r_in row) t with Ok v => Ok (Some v) | Raise e => Raise e end
    end.

  (* _create_state_variable = _parse_state_variable_el (unsupported type) ; _state_variable_create_schema
     (allowed values / bounds through the in-coercer in strict mode; then the default value, in both
     modes, when present and non-empty) ; UpnpStateVariable and its lazily evaluated getters *)
  Definition build_sv (p : p_sv) : fres sv_o :=
    match pv_dataType p with
    | None => FRaise UpnpErr
    | Some dt =>
        match find_row dt type_table with
        | None => FRaise UpnpErr
        | Some row =>
            let mn := match pv_range p with Some (a, _, _) => a | None => None end in
            let mx := match pv_range p with Some (_, b, _) => b | None => None end in
            let allowed := match pv_allowed p with Some l => l | None => [] end in
            match mk_decl float_of_str lower_ext row strict allowed
                          (match pv_range p with Some _ => true | None => false end) mn mx with
            | Raise e => FRaise (of_exn e)
            | Ok decl =>
                fbind (match pv_default p with
                       | Some (c :: r) => match apply_in float_of_str lower_ext (r_in row) (c :: r) with
                                          | Ok _ => FOk tt
                                          | Raise e => FRaise (of_exn e)
                                          end
                       | _ => FOk tt
                       end) (fun _ =>
                FOk {| vo_name := strip (or_empty (pv_name p)); vo_dtype := dt; vo_pytype := r_type row;
                       vo_events := send_events p;
                       vo_min := coerce_opt row mn; vo_max := coerce_opt row mx;
                       vo_allowed := coerce_all float_of_str lower_ext (r_in row) allowed;
                       vo_default := coerce_opt row (pv_default p);
                       vo_probes := map (validate decl) probes;
                       vo_bound := true |})
            end
        end
    end.

  (* _create_state_variables *)
  Definition build_svs (d : p_scpd) : fres (list sv_o) :=
    match pd_table d with
    | None => if strict then FRaise XmlContentError else FOk []
    | Some l => mapM build_sv l
    end.

  (* _create_action: svs = {sv.name: sv}; svs[arg.state_variable_name] *)
  Definition build_arg (svs : list (pystr * sv_o)) (a : pystr * pystr * pystr) : fres (list arg_o) :=
    let '(n, d, r) := a in
    match dget str_eqb svs r with
    | Some sv => FOk [{| ao_name := n; ao_direction := d; ao_rsv := vo_name sv; ao_bound := true |}]
    | None => if strict then FRaise KeyErr else FOk []
    end.
  Definition build_action (svs : list (pystr * sv_o)) (p : p_action) : fres action_o :=
    fbind (mapM (build_arg svs) (pa_args p)) (fun args =>
    FOk {| co_name := match pa_name p with Some n => n | None => s_nameless end;
           co_args := concat args; co_bound := true |}).

  (* _async_create_service, then the getters of UpnpService (bound to a device whose URL is base) *)
  Definition build_service (p : p_service) : fres service_o :=
    fbind (match fetch (urljoin base (or_empty (ps_SCPDURL p))) with
           | FStatus c => FRaise (ResponseError c)
           | FParseError => if strict then FRaise XmlParseError
                            else FOk {| pd_root_ok := true; pd_table := None; pd_actions := [] |}
           | FDoc d => FOk d
           end) (fun d =>
    if strict && negb (pd_root_ok d) then FRaise XmlContentError else
    fbind (build_svs d) (fun svs =>
    let svd := dict_of vo_name svs in
    fbind (mapM (build_action svd) (pd_actions d)) (fun acts =>
    FOk {| so_type := or_empty (ps_serviceType p); so_id := or_empty (ps_serviceId p);
           so_scpd := urljoin base (or_empty (ps_SCPDURL p));
           so_control := urljoin base (or_empty (ps_controlURL p));
           so_event := urljoin base (or_empty (ps_eventSubURL p));
           so_vars := svd; so_actions := dict_of co_name acts; so_bound := true |}))).

  (* _async_create_device: device info (icons first), services in order, embedded devices in order *)
  Fixpoint build_device (p : p_device) : fres dev_o :=
    match p with
    | PDev h icons svcs subs =>
        fbind (mapM build_icon icons) (fun ics =>
        fbind (mapM build_service svcs) (fun ss =>
        fbind (mapM build_device subs) (fun es =>
        FOk (DevO (build_info h) ics (dict_of so_type ss) (dict_of (fun e => di_type (do_info e)) es) true))))
    end.
End Build.

(* async_create_device over what the description URL serves *)
Inductive fetched_root := RStatus (code : Z) | RParseError | RDoc (x : xml).

Definition create_device urljoin float_of_str lower_ext fetch strict probes base (root : fetched_root) : fres dev_o :=
  match root with
  | RStatus c => FRaise (ResponseError c)
  | RParseError => FRaise XmlParseError
  | RDoc x => match parse_root x with
              | None => FRaise XmlContentError
              | Some p => build_device urljoin float_of_str lower_ext fetch strict probes base p
              end
  end.
