(* C05 — well-formed UPnP description documents as abstract syntax (device_def), and their rendering
   to XML trees following UDA's schema (to_tree), parameterised by a rendering choice: any permutation
   of the children of record-like elements, any character data inside container elements, optional
   padding of state-variable names, specVersion present or not, empty lists rendered or omitted.
   Also: what a server described by a device_def answers to HTTP GETs (world).  Definitions only. *)
From Coq Require Import List Bool NArith ZArith.
From AUC Require Import Prelude.PyStr C08.Model C05.Xml C05.Names C05.Model.
Import ListNotations.
Local Open Scope N_scope.

(* ------------------------------------------------------------------ abstract syntax *)
Record sv_def := {
  sd_name : pystr;
  sd_type : pystr;                           (* one of the 26 data type names *)
  sd_attr : bool;                            (* notation: sendEvents="..." attribute / <sendEventsAttribute> child *)
  sd_evented : bool;
  sd_default : option pystr;
  sd_range : option (option pystr * option pystr * option pystr);    (* minimum, maximum, step *)
  sd_allowed : option (list pystr) }.
Record arg_def := { ag_name : pystr; ag_in : bool; ag_retval : bool; ag_rsv : pystr }.
Record action_def := { ad_name : pystr; ad_args : list arg_def }.
(* what is served at the service's SCPD URL *)
Inductive corruption :=
| CNone
| CUnparseable        (* not XML *)
| CForeignTag         (* root element is not scpd (namespace and body intact) *)
| CForeignRootNs      (* root element scpd of a foreign namespace around an intact body *)
| CForeignNs          (* the whole document lives in a foreign namespace *)
| CNoTable.           (* the serviceStateTable is missing (everything else intact) *)
Record service_def := {
  s_type : pystr; s_id : pystr; s_scpd : pystr; s_control : pystr; s_event : pystr;   (* URLs as written *)
  s_vars : list sv_def; s_actions : list action_def; s_corrupt : corruption }.
Record icon_def := { ic_mime : pystr; ic_w : Z; ic_h : Z; ic_d : Z; ic_url : pystr }.
Record dev_hdr := {
  h_type : pystr; h_friendly : pystr; h_manufacturer : pystr; h_manufacturer_url : option pystr;
  h_model_desc : option pystr; h_model_name : pystr; h_model_number : option pystr;
  h_model_url : option pystr; h_serial : option pystr; h_udn : pystr; h_upc : option pystr;
  h_presentation : option pystr }.
Inductive device_def :=
  DeviceDef (h : dev_hdr) (icons : list icon_def) (svcs : list service_def) (subs : list device_def).

Definition dd_hdr (d : device_def) := match d with DeviceDef h _ _ _ => h end.
Definition dd_icons (d : device_def) := match d with DeviceDef _ i _ _ => i end.
Definition dd_svcs (d : device_def) := match d with DeviceDef _ _ s _ => s end.
Definition dd_subs (d : device_def) := match d with DeviceDef _ _ _ s => s end.

(* all services of the tree, in the order the factory visits them *)
Fixpoint all_services (d : device_def) : list service_def :=
  match d with DeviceDef _ _ svcs subs => svcs ++ flat_map all_services subs end.

(* ------------------------------------------------------------------ rendering *)
Record rendering := {
  r_perm : list xml -> list xml;             (* order of the children of record-like elements *)
  r_ctext : option pystr;                    (* character data of container elements (indentation) *)
  r_pad : bool;                              (* state variable names surrounded by white space *)
  r_spec : bool;                             (* <specVersion> present *)
  r_empty : bool }.                          (* empty lists rendered as empty elements / omitted *)

Definition ns_foreign : pystr := [117;114;110;58;120]%N.    (* "urn:x" *)

Definition leaf (ns l t : pystr) : xml :=
  Elem ns l [] (match t with [] => None | _ => Some t end) [].

(* a record-like element: leaf children keyed by distinct names (absent when None) and container
   children keyed by further distinct names, in any order *)
Definition render_fields (ns : pystr) (fs : list (pystr * option pystr)) : list xml :=
  flat_map (fun f => match snd f with Some t => [leaf ns (fst f) t] | None => [] end) fs.

Section Render.
  Variable r : rendering.

  Definition cont (ns l : pystr) (attrs : list (pystr * pystr)) (cs : list xml) : xml :=
    Elem ns l attrs (r_ctext r) cs.
  Definition render_subs (ns : pystr) (ss : list (pystr * option (list xml))) : list xml :=
    flat_map (fun s => match snd s with Some cs => [cont ns (fst s) [] cs] | None => [] end) ss.
  Definition record (ns l : pystr) (attrs : list (pystr * pystr))
             (fs : list (pystr * option pystr)) (ss : list (pystr * option (list xml))) : xml :=
    cont ns l attrs (r_perm r (render_fields ns fs ++ render_subs ns ss)).

  (* a list-valued child: omitted when empty unless r_empty *)
  Definition list_sub {A} (f : A -> xml) (l : list A) : option (list xml) :=
    match l with [] => if r_empty r then Some [] else None | _ => Some (map f l) end.

  Definition yes_no (b : bool) : pystr := if b then s_yes else s_no.
  Definition pad_name (s : pystr) : pystr := if r_pad r then [32; 10] ++ s ++ [9; 32] else s.

  (* ---- service description (SCPD), in namespace ns ---- *)
  Definition sv_fields (v : sv_def) : list (pystr * option pystr) :=
    [ (n_name, Some (pad_name (sd_name v)));
      (n_dataType, Some (sd_type v));
      (n_sendEventsAttribute, if sd_attr v then None else Some (yes_no (sd_evented v)));
      (n_defaultValue, sd_default v) ].
  Definition range_tree (ns : pystr) (rg : option pystr * option pystr * option pystr) : list xml :=
    let '(mn, mx, st) := rg in
    r_perm r (render_fields ns [(n_minimum, mn); (n_maximum, mx); (n_step, st)] ++ render_subs ns []).
  Definition sv_subs (ns : pystr) (v : sv_def) : list (pystr * option (list xml)) :=
    [ (n_allowedValueRange, option_map (range_tree ns) (sd_range v));
      (n_allowedValueList, option_map (map (leaf ns n_allowedValue)) (sd_allowed v)) ].
  Definition sv_tree (ns : pystr) (v : sv_def) : xml :=
    record ns n_stateVariable (if sd_attr v then [(n_sendEvents, yes_no (sd_evented v))] else [])
           (sv_fields v) (sv_subs ns v).

  Definition arg_fields (a : arg_def) : list (pystr * option pystr) :=
    [ (n_name, Some (ag_name a)); (n_direction, Some (if ag_in a then s_in else s_out));
      (n_retval, if ag_retval a then Some [] else None);
      (n_relatedStateVariable, Some (ag_rsv a)) ].
  Definition arg_tree (ns : pystr) (a : arg_def) : xml := record ns n_argument [] (arg_fields a) [].
  Definition action_tree (ns : pystr) (a : action_def) : xml :=
    record ns n_action [] [(n_name, Some (ad_name a))]
           [(n_argumentList, list_sub (arg_tree ns) (ad_args a))].

  Definition spec_sub (ns : pystr) : option (list xml) :=
    if r_spec r then Some [leaf ns n_major [49]; leaf ns n_minor [48]] else None.

  Definition scpd_subs (ns : pystr) (with_table : bool) (s : service_def) : list (pystr * option (list xml)) :=
    [ (n_specVersion, spec_sub ns);
      (n_actionList, list_sub (action_tree ns) (s_actions s));
      (n_serviceStateTable, if with_table then Some (map (sv_tree ns) (s_vars s)) else None) ].
  Definition scpd_tree (s : service_def) : option xml :=
    match s_corrupt s with
    | CNone => Some (record ns_service n_scpd [] [] (scpd_subs ns_service true s))
    | CUnparseable => None
    | CForeignTag => Some (record ns_service n_notscpd [] [] (scpd_subs ns_service true s))
    | CForeignRootNs =>
        Some (cont ns_foreign n_scpd [] (x_children (record ns_service n_scpd [] [] (scpd_subs ns_service true s))))
    | CForeignNs => Some (record ns_foreign n_scpd [] [] (scpd_subs ns_foreign true s))
    | CNoTable => Some (record ns_service n_scpd [] [] (scpd_subs ns_service false s))
    end.

  (* ---- device description ---- *)
  Definition service_fields (s : service_def) : list (pystr * option pystr) :=
    [ (n_serviceType, Some (s_type s)); (n_serviceId, Some (s_id s)); (n_SCPDURL, Some (s_scpd s));
      (n_controlURL, Some (s_control s)); (n_eventSubURL, Some (s_event s)) ].
  Definition service_tree (s : service_def) : xml := record ns_device n_service [] (service_fields s) [].

  Definition icon_fields (i : icon_def) : list (pystr * option pystr) :=
    [ (n_mimetype, Some (ic_mime i)); (n_width, Some (str_of_int (ic_w i)));
      (n_height, Some (str_of_int (ic_h i))); (n_depth, Some (str_of_int (ic_d i)));
      (n_url, Some (ic_url i)) ].
  Definition icon_tree (i : icon_def) : xml := record ns_device n_icon [] (icon_fields i) [].

  Definition hdr_fields (h : dev_hdr) : list (pystr * option pystr) :=
    [ (n_deviceType, Some (h_type h)); (n_friendlyName, Some (h_friendly h));
      (n_manufacturer, Some (h_manufacturer h)); (n_manufacturerURL, h_manufacturer_url h);
      (n_modelDescription, h_model_desc h); (n_modelName, Some (h_model_name h));
      (n_modelNumber, h_model_number h); (n_modelURL, h_model_url h); (n_serialNumber, h_serial h);
      (n_UDN, Some (h_udn h)); (n_UPC, h_upc h); (n_presentationURL, h_presentation h) ].

  Fixpoint dev_tree (d : device_def) : xml :=
    match d with
    | DeviceDef h icons svcs subs =>
        record ns_device n_device [] (hdr_fields h)
               [ (n_iconList, list_sub icon_tree icons);
                 (n_serviceList, list_sub service_tree svcs);
                 (n_deviceList, list_sub dev_tree subs) ]
    end.

  (* <root> holds specVersion and the root <device> element (= dev_tree d) *)
  Definition root_tree (d : device_def) : xml :=
    record ns_device n_root [] []
           [ (n_specVersion, spec_sub ns_device); (n_device, Some (x_children (dev_tree d))) ].
End Render.

(* ------------------------------------------------------------------ the rendering choices the harness can name *)
Fixpoint rotl {A} (n : nat) (l : list A) : list A :=
  match n with O => l | S n' => match l with [] => [] | x :: r => rotl n' (r ++ [x]) end end.
Definition perm_of {A} (k : N) (l : list A) : list A :=
  match k with
  | 0 => l
  | 1 => rev l
  | _ => match l with [] => [] | _ => rotl (N.to_nat ((k - 1) mod N.of_nat (length l))) l end
  end.
Definition rendering_of (k : N) (ctext : option pystr) (pad spec empty : bool) : rendering :=
  {| r_perm := perm_of k; r_ctext := ctext; r_pad := pad; r_spec := spec; r_empty := empty |}.

(* ------------------------------------------------------------------ the server behind the documents *)
Section World.
  Variable urljoin : pystr -> pystr -> pystr.
  Variable r : rendering.
  Variable base : pystr.

  Definition scpd_url (s : service_def) : pystr := urljoin base (s_scpd s).
  Definition serve (s : service_def) : fetched :=
    match scpd_tree r s with Some x => FDoc (parse_scpd x) | None => FParseError end.
  (* GET url: the SCPD of the first service (in visiting order) whose SCPD URL resolves to url; 404 otherwise *)
  Definition world (d : device_def) (url : pystr) : fetched :=
    match find (fun s => str_eqb (scpd_url s) url) (all_services d) with
    | Some s => serve s
    | None => FStatus 404%Z
    end.
End World.

(* the factory run on the documents of d *)
Definition run_def urljoin float_of_str lower_ext (r : rendering) (strict : bool) (probes : list pyval)
           (base : pystr) (d : device_def) : fres dev_o :=
  create_device urljoin float_of_str lower_ext (world urljoin r base d) strict probes base
                (RDoc (root_tree r d)).
