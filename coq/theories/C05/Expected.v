(* C05 — the build stage on what a well-formed definition says: which object graph comes out
   (devo_of), when it comes out, when the factory refuses instead, and that the graph mirrors the
   definition (under the guards of the two known findings). *)
From Coq Require Import List Bool NArith ZArith Lia Permutation.
From AUC Require Import Prelude.PyStr Prelude.PyDict C08.TypesDef C08.Model C08.Spec C08.CodecInt C08.Codec Gen.Types
  C05.Xml C05.Names C05.Model C05.Def C05.Spec C05.Lemmas C05.Parse.
Import ListNotations.

Section Expected.
  Variable urljoin : pystr -> pystr -> pystr.
  Variable float_of_str : pystr -> option fl.
  Variable lower_ext : N -> N.
  Variable fetch : pystr -> fetched.
  Variable strict : bool.
  Variable probes : list pyval.
  Variable base : pystr.
  Variable r : rendering.

  Notation coerce := (coerce float_of_str lower_ext).
  Notation coercible := (coercible float_of_str lower_ext).
  Notation opt_coercible := (opt_coercible float_of_str lower_ext).
  Notation coerce_list := (coerce_list float_of_str lower_ext).
  Notation spec_decl := (spec_decl float_of_str lower_ext strict).
  Notation wf_sv := (wf_sv float_of_str lower_ext).
  Notation wf_service := (wf_service urljoin float_of_str lower_ext base).
  Notation wf_tree := (wf_tree urljoin float_of_str lower_ext base).
  Notation mirror_sv := (mirror_sv float_of_str lower_ext strict probes).
  Notation mirror_service := (mirror_service urljoin float_of_str lower_ext strict probes base).
  Notation mirror_dev := (mirror_dev urljoin float_of_str lower_ext strict probes base).
  Notation resolve := (resolve urljoin base).
  Notation url_ok := (url_ok urljoin base).
  Notation build_sv := (build_sv float_of_str lower_ext strict probes).
  Notation build_service := (build_service urljoin float_of_str lower_ext fetch strict probes base).
  Notation build_device := (build_device urljoin float_of_str lower_ext fetch strict probes base).

  (* ---------------------------------------------------------------- the expected objects *)
  Definition default_row : type_row := mkRow [] TStr InStr OutStr false.
  Definition row_of (v : sv_def) : type_row :=
    match find_row (sd_type v) type_table with Some row => row | None => default_row end.
  Definition opt_coerce (row : type_row) (o : option pystr) : option pyval :=
    match o with Some t => coerce row t | None => None end.

  Definition svo_of (v : sv_def) : sv_o :=
    let row := row_of v in
    {| vo_name := sd_name v; vo_dtype := sd_type v; vo_pytype := r_type row; vo_events := sd_evented v;
       vo_min := Ok (opt_coerce row (sd_min v)); vo_max := Ok (opt_coerce row (sd_max v));
       vo_allowed := Ok (coerce_list row (sd_allowed_list v));
       vo_default := Ok (opt_coerce row (sd_default v));
       vo_probes := map (validate (spec_decl row v)) probes;
       vo_bound := true |}.
  Definition argo_of (g : arg_def) : arg_o :=
    {| ao_name := ag_name g; ao_direction := if ag_in g then s_in else s_out; ao_rsv := ag_rsv g; ao_bound := true |}.
  Definition aco_of (with_args : bool) (a : action_def) : action_o :=
    {| co_name := ad_name a; co_args := if with_args then map argo_of (ad_args a) else []; co_bound := true |}.
  Definition vars_of (s : service_def) : list sv_o :=
    match s_corrupt s with CNone | CForeignTag | CForeignRootNs => map svo_of (s_vars s) | _ => [] end.
  Definition acts_of (s : service_def) : list action_o :=
    match s_corrupt s with
    | CNone | CForeignTag | CForeignRootNs => map (aco_of true) (s_actions s)
    | CNoTable => map (aco_of false) (s_actions s)
    | _ => []
    end.
  Definition svco_of (s : service_def) : service_o :=
    {| so_type := s_type s; so_id := s_id s; so_scpd := urljoin base (s_scpd s);
       so_control := urljoin base (s_control s); so_event := urljoin base (s_event s);
       so_vars := dict_of vo_name (vars_of s); so_actions := dict_of co_name (acts_of s); so_bound := true |}.
  Definition icono_of (c : icon_def) : icon_o :=
    {| io_mimetype := ic_mime c; io_width := ic_w c; io_height := ic_h c; io_depth := ic_d c;
       io_url := absolute_url urljoin base (ic_url c) |}.
  Fixpoint devo_of (d : device_def) : dev_o :=
    match d with
    | DeviceDef h icons svcs subs =>
        DevO (build_info base (phdr_of h)) (map icono_of icons) (dict_of so_type (map svco_of svcs))
             (dict_of (fun e => di_type (do_info e)) (map devo_of subs)) true
    end.

  (* ---------------------------------------------------------------- state variables *)
  Lemma coerce_apply row t v : coerce row t = Some v -> apply_in float_of_str lower_ext (r_in row) t = Ok v.
  Proof. unfold Spec.coerce. destruct (apply_in _ _ _ t); congruence. Qed.
  Lemma coercible_apply row t :
    coercible row t = true -> exists v, apply_in float_of_str lower_ext (r_in row) t = Ok v /\ coerce row t = Some v.
  Proof.
    unfold Spec.coercible. destruct (coerce row t) as [v|] eqn:E; [|discriminate].
    intros _. exists v. split; [now apply coerce_apply | reflexivity].
  Qed.

  Lemma coerce_opt_ok row o :
    opt_coercible row o = true -> coerce_opt float_of_str lower_ext row o = Ok (opt_coerce row o).
  Proof.
    destruct o as [t|]; cbn; [|reflexivity]. intros H. apply andb_true_iff in H as [_ H].
    destruct (coercible_apply _ _ H) as [v [E1 E2]]. now rewrite E1, E2.
  Qed.

  Lemma coerce_all_ok row l :
    forallb (fun a => nonempty a && coercible row a) l = true ->
    coerce_all float_of_str lower_ext (r_in row) l = Ok (coerce_list row l).
  Proof.
    induction l as [|t l IH]; cbn; [reflexivity|]. intros H. apply andb_true_iff in H as [H1 H2].
    apply andb_true_iff in H1 as [_ H1]. destruct (coercible_apply _ _ H1) as [v [E1 E2]].
    rewrite E1, (IH H2). unfold Spec.coerce_list. cbn. now rewrite E2.
  Qed.

  Lemma bound_ok row o :
    opt_coercible row o = true ->
    match o with
    | Some (c :: t) => match apply_in float_of_str lower_ext (r_in row) (c :: t) with
                       | Ok v => Ok (Some v) | Raise e => Raise e end
    | _ => Ok None
    end = Ok (opt_coerce row o).
  Proof.
    destruct o as [[|c t]|]; cbn; try reflexivity; [discriminate|]. intros H.
    destruct (coercible_apply _ _ H) as [v [E1 E2]]. cbn in E1. now rewrite E1, E2.
  Qed.

  Lemma wf_sv_parts v row :
    find_row (sd_type v) type_table = Some row -> wf_sv v = true ->
    str_eqb (strip (sd_name v)) (sd_name v) = true /\ opt_coercible row (sd_default v) = true /\
    opt_coercible row (sd_min v) = true /\ opt_coercible row (sd_max v) = true /\
    forallb (fun a => nonempty a && coercible row a) (sd_allowed_list v) = true.
  Proof.
    intros Hrow Hwf. unfold Spec.wf_sv in Hwf. rewrite Hrow in Hwf.
    apply andb_true_iff in Hwf as [Hwf W5]. apply andb_true_iff in Hwf as [Hwf W4].
    apply andb_true_iff in Hwf as [Hwf W3]. apply andb_true_iff in Hwf as [W1 W2]. tauto.
  Qed.

  Lemma mk_decl_ok v row :
    find_row (sd_type v) type_table = Some row -> wf_sv v = true ->
    mk_decl float_of_str lower_ext row strict (sd_allowed_list v)
            (match sd_range v with Some _ => true | None => false end) (sd_min v) (sd_max v) =
      Ok (spec_decl row v).
  Proof.
    intros Hrow Hwf. destruct (wf_sv_parts v row Hrow Hwf) as (W1 & W2 & W3 & W4 & W5).
    unfold mk_decl, Spec.spec_decl. destruct strict; cbn [negb]; [|reflexivity].
    rewrite coerce_all_ok by assumption.
    destruct (sd_range v) as [[[mn mx] st]|] eqn:E.
    - unfold sd_min, sd_max in *. rewrite E in *.
      rewrite (bound_ok row mn) by assumption. rewrite (bound_ok row mx) by assumption. reflexivity.
    - unfold sd_min, sd_max. rewrite E. reflexivity.
  Qed.

  Lemma strip_pad s : str_eqb (strip s) s = true -> strip (pad_name r s) = s.
  Proof.
    intros H. apply str_eqb_eq in H. unfold pad_name. destruct (r_pad r); [|assumption].
    rewrite strip_padded by reflexivity. assumption.
  Qed.

  Lemma build_sv_ok v : wf_sv v = true -> build_sv (psv_of r v) = FOk (svo_of v).
  Proof.
    intros Hwf. pose proof Hwf as Hwf0. unfold Spec.wf_sv in Hwf.
    destruct (find_row (sd_type v) type_table) as [row|] eqn:Hrow; [|discriminate]. clear Hwf.
    destruct (wf_sv_parts v row Hrow Hwf0) as (W1 & W2 & W3 & W4 & W5).
    unfold Model.build_sv. cbn [psv_of pv_dataType pv_range pv_allowed pv_default pv_name]. rewrite Hrow.
    match goal with |- context [mk_decl _ _ row strict ?al _ _ _] => assert (Eal : al = sd_allowed_list v) end.
    { unfold sd_allowed_list in *. destruct (sd_allowed v) as [l|]; cbn [option_map]; [|reflexivity].
      clear -W5. induction l as [|t l IH]; cbn in *; [reflexivity|]. apply andb_true_iff in W5 as [H1 H2].
      rewrite IH by assumption. destruct t; [discriminate | reflexivity]. }
    rewrite Eal.
    change (match sd_range v with Some (a, _, _) => a | None => None end) with (sd_min v).
    change (match sd_range v with Some (_, b, _) => b | None => None end) with (sd_max v).
    rewrite (mk_decl_ok v row Hrow Hwf0).
    assert (Edef : match sd_default v with
                   | Some (c :: t) => match apply_in float_of_str lower_ext (r_in row) (c :: t) with
                                      | Ok _ => FOk tt | Raise e => FRaise (of_exn e) end
                   | _ => FOk tt end = FOk tt).
    { destruct (sd_default v) as [[|c t]|]; try reflexivity. cbn in W2.
      destruct (coercible_apply _ _ W2) as [w [E1 _]]. now rewrite E1. }
    rewrite Edef. cbn [fbind]. unfold svo_of, row_of. rewrite Hrow.
    rewrite !coerce_opt_ok by assumption. rewrite coerce_all_ok by assumption.
    cbn [or_empty]. rewrite strip_pad by assumption.
    f_equal. f_equal. unfold send_events. cbn [psv_of pv_attr pv_child].
    destruct (sd_attr v), (sd_evented v); reflexivity.
  Qed.

  Lemma validate_probe row v p : validate (spec_decl row v) p = spec_probe float_of_str lower_ext strict row v p.
  Proof.
    unfold Spec.spec_probe. destruct strict eqn:E.
    - apply accepts_iff.
    - unfold validate, allowed_ok, range_ok, Spec.spec_decl. cbn.
      destruct (type_ok _ p), (tz_ok _ p); reflexivity.
  Qed.

  Lemma mirror_sv_ok v : wf_sv v = true -> mirror_sv v (svo_of v) = true.
  Proof.
    intros Hwf. unfold Spec.wf_sv in Hwf. unfold Spec.mirror_sv, svo_of, row_of.
    destruct (find_row (sd_type v) type_table) as [row|] eqn:Hrow; [|discriminate].
    cbn [vo_name vo_dtype vo_pytype vo_events vo_min vo_max vo_allowed vo_default vo_probes vo_bound res_eqb].
    rewrite !str_eqb_refl, pytype_eqb_refl, eqb_reflx, !opt_val_eqb_refl, set_eqb_refl. cbn [andb].
    rewrite andb_true_r. unfold list_eqb.
    induction probes as [|p ps IH]; cbn; [reflexivity|]. rewrite validate_probe, eqb_reflx. exact IH.
  Qed.

  (* ---------------------------------------------------------------- actions *)
  Lemma find_name_in {A} (key : A -> pystr) (l : list A) k :
    In k (map key l) -> exists x, find (fun x => str_eqb (key x) k) l = Some x /\ key x = k.
  Proof.
    induction l as [|x l IH]; cbn; [tauto|]. destruct (str_eqb_spec (key x) k) as [E|Hne].
    - intros _. now exists x.
    - intros [E|Hin]; [congruence | now apply IH].
  Qed.

  Lemma build_action_ok (vars : list sv_def) a :
    NoDup (map sd_name vars) ->
    wf_action (map sd_name vars) a = true ->
    build_action strict (dict_of vo_name (map svo_of vars)) (paction_of a) = FOk (aco_of true a).
  Proof.
    intros ND Hwf. unfold build_action, paction_of, aco_of. cbn [pa_args pa_name].
    assert (Ekeys : map vo_name (map svo_of vars) = map sd_name vars) by (rewrite map_map; reflexivity).
    rewrite dict_of_nodup by (now rewrite Ekeys).
    rewrite mapM_map.
    rewrite (mapM_ok _ (fun g => [argo_of g])).
    - cbn [fbind]. f_equal. f_equal. induction (ad_args a) as [|g l IH]; cbn; [reflexivity|]. now rewrite IH.
    - intros g Hg. unfold wf_action in Hwf. rewrite forallb_forall in Hwf. specialize (Hwf g Hg).
      apply existsb_str_In in Hwf. unfold build_arg, parg_of. rewrite dget_map_key.
      rewrite <- Ekeys in Hwf. destruct (find_name_in vo_name _ _ Hwf) as [sv [E1 E2]].
      now rewrite E1, E2.
  Qed.

  Lemma build_action_notable a :
    strict = false -> build_action strict [] (paction_of a) = FOk (aco_of false a).
  Proof.
    intros Hs. unfold build_action, paction_of, aco_of. cbn [pa_args pa_name]. rewrite mapM_map.
    rewrite (mapM_ok _ (fun _ => [])).
    - cbn [fbind]. f_equal. f_equal. induction (ad_args a) as [|g l IH]; cbn; [reflexivity | exact IH].
    - intros g _. unfold build_arg, parg_of. rewrite Hs. reflexivity.
  Qed.

  (* ---------------------------------------------------------------- services *)
  Definition refused (x : fres service_o) : Prop := exists e, x = FRaise e /\ lib_error e = true.

  Lemma wf_service_parts s :
    wf_service s = true ->
    url_ok (s_scpd s) = true /\ url_ok (s_control s) = true /\ url_ok (s_event s) = true /\
    (forall v, In v (s_vars s) -> wf_sv v = true) /\ NoDup (map sd_name (s_vars s)) /\
    NoDup (map ad_name (s_actions s)) /\
    (forall a, In a (s_actions s) -> wf_action (map sd_name (s_vars s)) a = true).
  Proof.
    unfold Spec.wf_service. intros H. repeat (apply andb_true_iff in H as [H ?]).
    repeat split; try assumption; try (now apply nodupb_NoDup); now apply forallb_forall.
  Qed.

  Lemma build_svs_ok vars :
    (forall v, In v vars -> wf_sv v = true) ->
    mapM build_sv (map (psv_of r) vars) = FOk (map svo_of vars).
  Proof. intros H. rewrite mapM_map. apply mapM_ok. intros v Hv. now apply build_sv_ok, H. Qed.

  Lemma build_actions_ok vars acts :
    NoDup (map sd_name vars) ->
    (forall a, In a acts -> wf_action (map sd_name vars) a = true) ->
    mapM (build_action strict (dict_of vo_name (map svo_of vars))) (map paction_of acts) = FOk (map (aco_of true) acts).
  Proof. intros ND H. rewrite mapM_map. apply mapM_ok. intros a Ha. now apply build_action_ok, H. Qed.

  (* the same, usable after the mode has been rewritten to a constant *)
  Lemma build_svs_ok' st vars :
    strict = st -> (forall v, In v vars -> wf_sv v = true) ->
    mapM (Model.build_sv float_of_str lower_ext st probes) (map (psv_of r) vars) = FOk (map svo_of vars).
  Proof. intros <-. apply build_svs_ok. Qed.
  Lemma build_actions_ok' st vars acts :
    strict = st -> NoDup (map sd_name vars) ->
    (forall a, In a acts -> wf_action (map sd_name vars) a = true) ->
    mapM (build_action st (dict_of vo_name (map svo_of vars))) (map paction_of acts) = FOk (map (aco_of true) acts).
  Proof. intros <-. apply build_actions_ok. Qed.

  Lemma build_service_ok s :
    wf_service s = true -> fetch (scpd_url urljoin base s) = pscpd_of r s ->
    strict && corrupt s = false ->
    build_service (pservice_of s) = FOk (svco_of s).
  Proof.
    intros Hwf Hf Hsc. destruct (wf_service_parts s Hwf) as (_ & _ & _ & Hv & ND1 & _ & Ha).
    unfold Model.build_service. cbn [pservice_of ps_SCPDURL ps_serviceType ps_serviceId ps_controlURL ps_eventSubURL or_empty].
    unfold scpd_url in Hf. rewrite Hf. unfold pscpd_of, svco_of, vars_of, acts_of, corrupt in *.
    destruct (s_corrupt s) eqn:Ec.
    - (* intact *)
      cbn [fbind pd_root_ok negb andb]. rewrite andb_false_r. unfold build_svs. cbn [pd_table pd_actions].
      rewrite build_svs_ok by assumption. cbn [fbind].
      rewrite build_actions_ok by assumption. reflexivity.
    - (* unparseable *)
      rewrite andb_true_r in Hsc. rewrite Hsc. cbn [fbind pd_root_ok negb andb]. unfold build_svs. cbn. reflexivity.
    - (* foreign root tag *)
      rewrite andb_true_r in Hsc. rewrite Hsc. cbn [fbind pd_root_ok negb andb]. unfold build_svs. cbn [pd_table pd_actions].
      rewrite build_svs_ok' by assumption. cbn [fbind].
      rewrite build_actions_ok' by assumption. reflexivity.
    - (* foreign root namespace *)
      rewrite andb_true_r in Hsc. rewrite Hsc. cbn [fbind pd_root_ok negb andb]. unfold build_svs. cbn [pd_table pd_actions].
      rewrite build_svs_ok' by assumption. cbn [fbind].
      rewrite build_actions_ok' by assumption. reflexivity.
    - (* foreign namespace *)
      rewrite andb_true_r in Hsc. rewrite Hsc. cbn. reflexivity.
    - (* no state table *)
      rewrite andb_true_r in Hsc. rewrite Hsc. cbn [fbind pd_root_ok negb andb]. unfold build_svs. cbn [pd_table pd_actions fbind].
      change (dict_of vo_name []) with (@nil (pystr * sv_o)).
      rewrite mapM_map. rewrite (mapM_ok _ (aco_of false)).
      + reflexivity.
      + intros a _. rewrite <- Hsc at 1. now apply build_action_notable.
  Qed.

  Lemma build_service_refused s :
    fetch (scpd_url urljoin base s) = pscpd_of r s -> strict = true -> corrupt s = true ->
    refused (build_service (pservice_of s)).
  Proof.
    intros Hf Hs Hc. unfold Model.build_service. cbn [pservice_of ps_SCPDURL or_empty].
    unfold scpd_url in Hf. rewrite Hf. rewrite Hs. unfold pscpd_of, corrupt, build_svs in *.
    destruct (s_corrupt s); try discriminate; cbn; rewrite ?Hs; cbn.
    - now exists XmlParseError.
    - now exists XmlContentError.
    - now exists XmlContentError.
    - now exists XmlContentError.
    - now exists XmlContentError.
  Qed.

  (* ---------------------------------------------------------------- devices *)
  Lemma int_field_ok z : int_field (Some (str_of_int z)) = FOk z.
  Proof. unfold int_field. now rewrite int_roundtrip. Qed.
  Lemma build_icon_ok c : build_icon urljoin base (picon_of c) = FOk (icono_of c).
  Proof. unfold build_icon, picon_of. cbn [pi_width pi_height pi_depth pi_mimetype pi_url]. now rewrite !int_field_ok. Qed.

  Definition fetch_ok (d : device_def) : Prop :=
    forall s, In s (all_services d) -> fetch (scpd_url urljoin base s) = pscpd_of r s.

  Lemma fetch_ok_sub h i s subs x : fetch_ok (DeviceDef h i s subs) -> In x subs -> fetch_ok x.
  Proof.
    intros H Hx s0 Hs. apply H. cbn. apply in_or_app. right. apply in_flat_map. now exists x.
  Qed.
  Lemma fetch_ok_svc h i s subs x : fetch_ok (DeviceDef h i s subs) -> In x s -> fetch (scpd_url urljoin base x) = pscpd_of r x.
  Proof. intros H Hx. apply H. cbn. apply in_or_app. now left. Qed.

  Lemma any_corrupt_node h i svcs subs :
    any_corrupt (DeviceDef h i svcs subs) = existsb corrupt svcs || existsb any_corrupt subs.
  Proof.
    unfold any_corrupt. cbn [all_services]. rewrite existsb_app. f_equal.
    induction subs as [|x l IH]; cbn; [reflexivity|]. now rewrite existsb_app, IH.
  Qed.

  Lemma wf_tree_node h i svcs subs :
    wf_tree (DeviceDef h i svcs subs) = true ->
    (forall c, In c i -> url_ok (ic_url c) = true) /\ (forall s, In s svcs -> wf_service s = true) /\
    (forall x, In x subs -> wf_tree x = true).
  Proof.
    cbn [Spec.wf_tree]. intros H. repeat (apply andb_true_iff in H as [H ?]).
    repeat split; now apply forallb_forall.
  Qed.

  Lemma build_device_ok d :
    wf_tree d = true -> fetch_ok d -> strict && any_corrupt d = false ->
    build_device (pdev_of d) = FOk (devo_of d).
  Proof.
    induction d as [h icons svcs subs IH] using device_def_ind'. intros Hwf Hf Hsc.
    destruct (wf_tree_node _ _ _ _ Hwf) as (_ & Hs & Hsub).
    rewrite any_corrupt_node in Hsc.
    cbn [pdev_of Model.build_device devo_of].
    rewrite mapM_map, (mapM_ok _ icono_of) by (intros; apply build_icon_ok). cbn [fbind].
    rewrite mapM_map, (mapM_ok _ svco_of).
    2:{ intros s Hin. apply build_service_ok; [now apply Hs | now apply (fetch_ok_svc _ _ _ _ _ Hf) |].
        destruct strict; [|reflexivity]. cbn in *. apply orb_false_iff in Hsc as [Hsc _].
        destruct (corrupt s) eqn:E; [|reflexivity].
        assert (existsb corrupt svcs = true) by (apply existsb_exists; now exists s). congruence. }
    cbn [fbind].
    rewrite mapM_map, (mapM_ok _ devo_of).
    2:{ intros x Hin. rewrite Forall_forall in IH. apply IH; [assumption | now apply Hsub | now apply (fetch_ok_sub _ _ _ _ _ Hf) |].
        destruct strict; [|reflexivity]. cbn in *. apply orb_false_iff in Hsc as [_ Hsc].
        destruct (any_corrupt x) eqn:E; [|reflexivity].
        assert (existsb any_corrupt subs = true) by (apply existsb_exists; now exists x). congruence. }
    reflexivity.
  Qed.

  Definition refused_dev (x : fres dev_o) : Prop := exists e, x = FRaise e /\ lib_error e = true.

  Lemma build_device_refused d :
    wf_tree d = true -> fetch_ok d -> strict = true -> any_corrupt d = true ->
    refused_dev (build_device (pdev_of d)).
  Proof.
    induction d as [h icons svcs subs IH] using device_def_ind'. intros Hwf Hf Hst Hc.
    destruct (wf_tree_node _ _ _ _ Hwf) as (_ & Hs & Hsub).
    rewrite any_corrupt_node in Hc.
    cbn [pdev_of Model.build_device].
    rewrite mapM_map, (mapM_ok _ icono_of) by (intros; apply build_icon_ok). cbn [fbind].
    (* every service is either built or refused with a library error *)
    assert (Hsvc : forall s, In s svcs ->
                     (exists y, build_service (pservice_of s) = FOk y) \/
                     (exists e, build_service (pservice_of s) = FRaise e /\ lib_error e = true)).
    { intros s Hin. destruct (corrupt s) eqn:E.
      - right. apply build_service_refused; [now apply (fetch_ok_svc _ _ _ _ _ Hf) | assumption | assumption].
      - left. eexists. apply build_service_ok; [now apply Hs | now apply (fetch_ok_svc _ _ _ _ _ Hf) |].
        rewrite E. apply andb_false_r. }
    destruct (existsb corrupt svcs) eqn:E1.
    - apply existsb_exists in E1 as [s [Hin Hcs]].
      destruct (mapM_raises (fun s => build_service (pservice_of s)) (fun e => lib_error e = true) svcs Hsvc) as [e [He HP]].
      { exists s. split; [assumption|].
        destruct (build_service_refused s (fetch_ok_svc _ _ _ _ _ Hf Hin) Hst Hcs) as [e [He _]]. now exists e. }
      rewrite mapM_map, He. cbn [fbind]. now exists e.
    - cbn [orb] in Hc.
      rewrite mapM_map, (mapM_ok _ svco_of).
      2:{ intros s Hin. apply build_service_ok; [now apply Hs | now apply (fetch_ok_svc _ _ _ _ _ Hf) |].
          destruct (corrupt s) eqn:E; [|apply andb_false_r].
          assert (existsb corrupt svcs = true) by (apply existsb_exists; now exists s). congruence. }
      cbn [fbind].
      assert (Hdev : forall x, In x subs ->
                       (exists y, build_device (pdev_of x) = FOk y) \/
                       (exists e, build_device (pdev_of x) = FRaise e /\ lib_error e = true)).
      { intros x Hin. destruct (any_corrupt x) eqn:E.
        - right. rewrite Forall_forall in IH. apply IH; [assumption | now apply Hsub | now apply (fetch_ok_sub _ _ _ _ _ Hf) | assumption | assumption].
        - left. eexists. apply build_device_ok; [now apply Hsub | now apply (fetch_ok_sub _ _ _ _ _ Hf) |].
          rewrite E. apply andb_false_r. }
      apply existsb_exists in Hc as [x [Hin Hcx]].
      destruct (mapM_raises (fun x => build_device (pdev_of x)) (fun e => lib_error e = true) subs Hdev) as [e [He HP]].
      { exists x. split; [assumption|]. rewrite Forall_forall in IH.
        destruct (IH x Hin (Hsub x Hin) (fetch_ok_sub _ _ _ _ _ Hf Hin) Hst Hcx) as [e [He _]]. now exists e. }
      rewrite mapM_map, He. cbn [fbind]. now exists e.
  Qed.

  (* ---------------------------------------------------------------- the expected graph mirrors the definition *)
  Lemma url_ok_resolve u : url_ok u = true -> urljoin base u = resolve u.
  Proof.
    unfold Spec.url_ok, Spec.resolve. destruct (is_abs u); [|reflexivity]. intros H. now apply str_eqb_eq in H.
  Qed.
  Lemma url_ok_absolute u : url_ok u = true -> absolute_url urljoin base u = resolve u.
  Proof.
    unfold Spec.url_ok, Spec.resolve, absolute_url, is_abs, is_rel.
    destruct (starts_with s_http2 u) eqn:E1; cbn [orb].
    - intros _. change s_http2 with (s_http ++ [47; 47]%N) in E1. now rewrite (starts_with_app _ _ _ E1).
    - destruct (starts_with s_https2 u) eqn:E2.
      + intros _. change s_https2 with (s_https ++ [47; 47]%N) in E2. rewrite (starts_with_app _ _ _ E2). now rewrite orb_true_r.
      + intros H. apply andb_true_iff in H as [H1 H2]. apply negb_true_iff in H1, H2. now rewrite H1, H2.
  Qed.

  Lemma mirror_action_ok a : mirror_action a (aco_of true a) = true.
  Proof.
    unfold mirror_action, aco_of. cbn [co_name co_args co_bound]. rewrite str_eqb_refl, andb_true_r. cbn [andb].
    rewrite forallb2_map_r. induction (ad_args a) as [|g l IH]; cbn; [reflexivity|].
    rewrite IH, andb_true_r. unfold mirror_arg, argo_of. cbn. now rewrite !str_eqb_refl.
  Qed.

  Lemma map_fst_keyed {A} (key : A -> pystr) l : map fst (map (fun x => (key x, x)) l) = map key l.
  Proof. now rewrite map_map. Qed.
  Lemma map_snd_keyed {A} (key : A -> pystr) (l : list A) : map snd (map (fun x => (key x, x)) l) = l.
  Proof. rewrite map_map. apply map_id. Qed.

  Lemma mirror_service_ok s :
    wf_service s = true -> strict && corrupt s = false -> mirror_service s (svco_of s) = true.
  Proof.
    intros Hwf Hsc. destruct (wf_service_parts s Hwf) as (U1 & U2 & U3 & Hv & ND1 & ND2 & Ha).
    unfold Spec.mirror_service, mirror_service_info, svco_of.
    cbn [so_type so_id so_scpd so_control so_event so_bound so_vars so_actions].
    rewrite !url_ok_resolve by assumption. rewrite !str_eqb_refl. cbn [andb].
    unfold vars_of, acts_of, corrupt in *. destruct (s_corrupt s); try reflexivity.
    - unfold mirror_service_body. cbn [so_vars so_actions].
      rewrite !dict_of_nodup by (rewrite map_map; assumption).
      rewrite !map_fst_keyed, !map_snd_keyed, !map_map. cbn [vo_name svo_of co_name aco_of].
      rewrite !list_eqb_str_refl. cbn [andb].
      rewrite forallb2_same by (intros; now apply mirror_sv_ok, Hv).
      rewrite forallb2_same by (intros; apply mirror_action_ok). reflexivity.
    - change (dict_of vo_name (@nil sv_o)) with (@nil (pystr * sv_o)). cbn [andb].
      rewrite dict_of_nodup by (rewrite map_map; assumption).
      rewrite forallb_forall. intros [k a] Hin. apply in_map_iff in Hin as [a0 [E Hin]]. inversion E; subst.
      apply in_map_iff in Hin as [a1 [<- _]]. reflexivity.
  Qed.

  Lemma mirror_hdr_ok h : mirror_hdr base h (build_info base (phdr_of h)) = true.
  Proof.
    unfold mirror_hdr, build_info, phdr_of. cbn. rewrite !str_eqb_refl.
    assert (O1 : forall o, opt_matches o (Some (or_empty o)) = true) by (intros [t|]; cbn; [apply str_eqb_refl | reflexivity]).
    assert (O2 : forall o, opt_matches o o = true) by (intros [t|]; cbn; [apply str_eqb_refl | reflexivity]).
    now rewrite !O1, !O2.
  Qed.

  Lemma mirror_icon_ok c : url_ok (ic_url c) = true -> mirror_icon urljoin base c (icono_of c) = true.
  Proof.
    intros H. unfold mirror_icon, icono_of. cbn. now rewrite url_ok_absolute, !str_eqb_refl, !Z.eqb_refl by assumption.
  Qed.

  Lemma kf_device_node h i svcs subs :
    kf_dup_device_types (DeviceDef h i svcs subs) = false ->
    NoDup (map (fun x => h_type (dd_hdr x)) subs) /\ forall x, In x subs -> kf_dup_device_types x = false.
  Proof.
    cbn [kf_dup_device_types]. intros H. apply orb_false_iff in H as [H1 H2]. apply negb_false_iff in H1. split.
    - now apply nodupb_NoDup.
    - intros x Hx. destruct (kf_dup_device_types x) eqn:E; [|reflexivity].
      assert (existsb kf_dup_device_types subs = true) by (apply existsb_exists; now exists x). congruence.
  Qed.
  Lemma kf_service_node h i svcs subs :
    kf_dup_service_types (DeviceDef h i svcs subs) = false ->
    NoDup (map s_type svcs) /\ forall x, In x subs -> kf_dup_service_types x = false.
  Proof.
    cbn [kf_dup_service_types]. intros H. apply orb_false_iff in H as [H1 H2]. apply negb_false_iff in H1. split.
    - now apply nodupb_NoDup.
    - intros x Hx. destruct (kf_dup_service_types x) eqn:E; [|reflexivity].
      assert (existsb kf_dup_service_types subs = true) by (apply existsb_exists; now exists x). congruence.
  Qed.

  Lemma devo_type d : di_type (do_info (devo_of d)) = h_type (dd_hdr d).
  Proof. destruct d; reflexivity. Qed.

  Lemma mirror_dev_ok d :
    wf_tree d = true -> strict && any_corrupt d = false ->
    kf_dup_device_types d = false -> kf_dup_service_types d = false ->
    mirror_dev d (devo_of d) = true.
  Proof.
    induction d as [h icons svcs subs IH] using device_def_ind'. intros Hwf Hsc K1 K2.
    destruct (wf_tree_node _ _ _ _ Hwf) as (Hi & Hs & Hsub).
    destruct (kf_device_node _ _ _ _ K1) as [ND1 K1s]. destruct (kf_service_node _ _ _ _ K2) as [ND2 K2s].
    rewrite any_corrupt_node in Hsc.
    cbn [devo_of Spec.mirror_dev]. rewrite mirror_hdr_ok. cbn [andb].
    rewrite forallb2_same by (intros; now apply mirror_icon_ok, Hi). cbn [andb].
    rewrite dict_of_nodup by (rewrite map_map; exact ND2).
    rewrite map_fst_keyed, map_snd_keyed, map_map. cbn [so_type svco_of]. rewrite list_eqb_str_refl. cbn [andb].
    rewrite forallb2_same.
    2:{ intros s Hin. apply mirror_service_ok; [now apply Hs|].
        destruct strict; [|reflexivity]. cbn in *. apply orb_false_iff in Hsc as [Hsc _].
        destruct (corrupt s) eqn:E; [|reflexivity].
        assert (existsb corrupt svcs = true) by (apply existsb_exists; now exists s). congruence. }
    cbn [andb]. rewrite andb_true_r.
    rewrite dict_of_nodup by (rewrite map_map; erewrite map_ext; [exact ND1 | intros; apply devo_type]).
    assert (Hall : forall x, In x subs -> mirror_dev x (devo_of x) = true).
    { intros x Hin. rewrite Forall_forall in IH. apply IH; [assumption | now apply Hsub | | now apply K1s | now apply K2s].
      destruct strict; [|reflexivity]. cbn in *. apply orb_false_iff in Hsc as [_ Hsc].
      destruct (any_corrupt x) eqn:E; [|reflexivity].
      assert (existsb any_corrupt subs = true) by (apply existsb_exists; now exists x). congruence. }
    clear -Hall. induction subs as [|x l IHl]; cbn; [reflexivity|].
    rewrite devo_type, str_eqb_refl, Hall by now left. cbn [andb]. apply IHl. intros; apply Hall; now right.
  Qed.
End Expected.
