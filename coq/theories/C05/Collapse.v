(* C05 — the two known findings D32 / D33 identified by their outcome, on the MODEL side: the object graph the
   factory model builds from a description with same-type sibling devices / services is the faithful mirror of
   the collapsed description (Spec.collapse: siblings of one type collapse as a dict keyed by type collapses
   them - the first occurrence keeps its place, the last sibling of the type stays).

   Route: {key(x): x for x in l} = the keyed list of (dedup_last key l) (dict_of_dedup, by induction from the
   right: appending one element is one dset / one upsert); hence the expected graph devo_of is the same for d and
   for collapse d, collapse d has no same-type siblings, is conformant when d is, and the guarded theorem
   (Expected.mirror_dev_ok) applies to it.  The RUN is the run on d's own documents and d's own server
   (Def.world d): the SCPD of a service the collapse drops is still fetched. *)
From Coq Require Import List Bool NArith ZArith Lia Permutation.
From AUC Require Import Prelude.PyStr Prelude.PyDict C08.TypesDef C08.Model Gen.Types
  C05.Xml C05.Names C05.Model C05.Def C05.Spec C05.Lemmas C05.Parse C05.Expected C05.Main C05.Witness.
Import ListNotations.

(* ------------------------------------------------------------------ dedup_last against the dict comprehension *)
Section Dedup.
  Context {A : Type}.
  Variable key : A -> pystr.

  Notation keyed := (map (fun x => (key x, x))).

  (* d[key x] = x on a list of values: replace the first element of that key, else append *)
  Fixpoint ups (x : A) (l : list A) : list A :=
    match l with
    | [] => [x]
    | y :: r => if str_eqb (key y) (key x) then x :: r else y :: ups x r
    end.

  Lemma dset_keyed l x : dset str_eqb (keyed l) (key x) x = keyed (ups x l).
  Proof.
    induction l as [|y l IH]; cbn; [reflexivity|].
    destruct (str_eqb_spec (key y) (key x)) as [e|_]; cbn; [now rewrite e | now rewrite IH].
  Qed.

  Lemma last_with_some k l y : last_with key k l = Some y -> In y l /\ key y = k.
  Proof.
    induction l as [|x l IH]; cbn; [discriminate|].
    destruct (last_with key k l) as [z|].
    - intros H. inversion H; subst. destruct (IH eq_refl) as [H1 H2]. split; [now right | assumption].
    - destruct (str_eqb_spec (key x) k) as [E|_]; [|discriminate].
      intros H. inversion H; subst. split; [now left | reflexivity].
  Qed.

  Lemma last_with_snoc k l x :
    last_with key k (l ++ [x]) = if str_eqb (key x) k then Some x else last_with key k l.
  Proof.
    induction l as [|y l IH]; cbn; [reflexivity|]. rewrite IH.
    destruct (str_eqb (key x) k); reflexivity.
  Qed.

  Lemma aux_snoc_seen all seen l x :
    existsb (str_eqb (key x)) seen = true ->
    dedup_last_aux key (all ++ [x]) seen (l ++ [x]) = dedup_last_aux key all seen l.
  Proof.
    revert seen. induction l as [|y l IH]; intros seen H; cbn.
    - now rewrite H.
    - destruct (existsb (str_eqb (key y)) seen) eqn:E; [now apply IH|].
      rewrite last_with_snoc.
      destruct (str_eqb_spec (key x) (key y)) as [e|Hne]; [rewrite e in H; congruence|].
      assert (H' : existsb (str_eqb (key x)) (key y :: seen) = true) by (cbn; rewrite H; apply orb_true_r).
      destruct (last_with key (key y) all); f_equal; now apply IH.
  Qed.

  Lemma aux_snoc all seen l x :
    existsb (str_eqb (key x)) seen = false ->
    dedup_last_aux key (all ++ [x]) seen (l ++ [x]) = ups x (dedup_last_aux key all seen l).
  Proof.
    revert seen. induction l as [|y l IH]; intros seen H; cbn.
    - rewrite H, last_with_snoc, str_eqb_refl. reflexivity.
    - destruct (existsb (str_eqb (key y)) seen) eqn:E; [now apply IH|].
      rewrite last_with_snoc.
      destruct (str_eqb_spec (key x) (key y)) as [e|Hne].
      + (* x is the last sibling of y's type: it takes y's place, the rest is unchanged *)
        rewrite aux_snoc_seen by (cbn; rewrite e, str_eqb_refl; reflexivity).
        destruct (last_with key (key y) all) as [z|] eqn:Ez; cbn.
        * apply last_with_some in Ez as [_ Ez]. rewrite Ez, <- e, str_eqb_refl. reflexivity.
        * rewrite <- e, str_eqb_refl. reflexivity.
      + assert (H' : existsb (str_eqb (key x)) (key y :: seen) = false).
        { cbn. rewrite H, orb_false_r. now apply str_eqb_neq. }
        assert (Hyx : str_eqb (key y) (key x) = false) by (apply str_eqb_neq; congruence).
        destruct (last_with key (key y) all) as [z|] eqn:Ez; cbn.
        * apply last_with_some in Ez as [_ Ez]. rewrite Ez, Hyx. f_equal. now apply IH.
        * rewrite Hyx. f_equal. now apply IH.
  Qed.

  Lemma dedup_last_snoc l x : dedup_last key (l ++ [x]) = ups x (dedup_last key l).
  Proof. unfold dedup_last. now apply aux_snoc. Qed.

  (* the dict comprehension IS dedup_last *)
  Lemma dict_of_dedup l : dict_of key l = keyed (dedup_last key l).
  Proof.
    induction l as [|x l IH] using rev_ind; [reflexivity|].
    unfold dict_of in *. rewrite fold_left_app. cbn [fold_left]. rewrite IH.
    now rewrite dset_keyed, dedup_last_snoc.
  Qed.

  Lemma keyed_keys (l : list A) : dkeys (keyed l) = map key l.
  Proof. unfold dkeys. now rewrite map_map. Qed.
  Lemma keyed_vals (l : list A) : map snd (keyed l) = l.
  Proof. rewrite map_map. apply map_id. Qed.

  (* what stays has pairwise distinct keys *)
  Lemma dedup_last_nodup l : NoDup (map key (dedup_last key l)).
  Proof.
    rewrite <- keyed_keys, <- dict_of_dedup. unfold dict_of.
    rewrite (fold_dset_dmerge str_eqb key (fun x => x) l []).
    apply NoDup_dmerge; [exact str_eqb_spec | constructor].
  Qed.

  (* ... and is a sub-list of what was there *)
  Lemma aux_in all seen l y : In y (dedup_last_aux key all seen l) -> In y all \/ In y l.
  Proof.
    revert seen. induction l as [|x l IH]; intros seen; cbn; [tauto|].
    destruct (existsb (str_eqb (key x)) seen).
    - intros H. destruct (IH _ H); tauto.
    - destruct (last_with key (key x) all) as [z|] eqn:Ez; cbn.
      + intros [<-|H]; [left; now apply last_with_some in Ez | destruct (IH _ H); tauto].
      + intros [<-|H]; [tauto | destruct (IH _ H); tauto].
  Qed.
  Lemma dedup_last_in l y : In y (dedup_last key l) -> In y l.
  Proof. unfold dedup_last. intros H. apply aux_in in H. tauto. Qed.

  (* no two siblings of one type: nothing collapses *)
  Lemma dedup_last_id l : NoDup (map key l) -> dedup_last key l = l.
  Proof.
    intros ND. rewrite <- (keyed_vals (dedup_last key l)), <- dict_of_dedup, dict_of_nodup by assumption.
    apply keyed_vals.
  Qed.
End Dedup.

(* the comprehension over images: {k(f x): f x for x in l}, when k (f x) is x's type *)
Lemma dset_mapv {A B} (f : A -> B) (acc : list (pystr * A)) k x :
  dset str_eqb (map (fun kv => (fst kv, f (snd kv))) acc) k (f x) =
  map (fun kv => (fst kv, f (snd kv))) (dset str_eqb acc k x).
Proof.
  induction acc as [|[a w] acc IH]; cbn; [reflexivity|].
  destruct (str_eqb a k); cbn; [reflexivity | now rewrite IH].
Qed.

Lemma dict_of_map {A B} (k : B -> pystr) (k' : A -> pystr) (f : A -> B) l :
  (forall x, k (f x) = k' x) ->
  dict_of k (map f l) = map (fun kv => (fst kv, f (snd kv))) (dict_of k' l).
Proof.
  intros Hk. unfold dict_of.
  change (@nil (pystr * B)) with (map (fun kv : pystr * A => (fst kv, f (snd kv))) []).
  generalize (@nil (pystr * A)) as acc.
  induction l as [|x l IH]; intros acc; cbn [map fold_left]; [reflexivity|].
  rewrite Hk, dset_mapv. apply IH.
Qed.

Lemma dict_of_map_dedup {A B} (k : B -> pystr) (k' : A -> pystr) (f : A -> B) l :
  (forall x, k (f x) = k' x) ->
  dict_of k (map f (dedup_last k' l)) = dict_of k (map f l).
Proof.
  intros Hk. rewrite (dict_of_map k k' f l Hk), (dict_of_dedup k' l).
  rewrite dict_of_nodup.
  - rewrite !map_map. apply map_ext. intros x. cbn. now rewrite Hk.
  - rewrite map_map. erewrite map_ext; [apply (dedup_last_nodup k') | exact Hk].
Qed.

Lemma NoDup_nodupb l : NoDup l -> nodupb l = true.
Proof.
  induction 1 as [|x l Hn _ IH]; cbn; [reflexivity|]. rewrite IH, andb_true_r. apply negb_true_iff.
  destruct (existsb (str_eqb x) l) eqn:E; [|reflexivity]. exfalso. apply Hn. now apply existsb_str_In.
Qed.

Lemma existsb_none {A} (p : A -> bool) l : (forall x, In x l -> p x = false) -> existsb p l = false.
Proof.
  intros H. destruct (existsb p l) eqn:E; [|reflexivity].
  apply existsb_exists in E as [x [Hx Hp]]. rewrite (H x Hx) in Hp. discriminate.
Qed.

(* ------------------------------------------------------------------ the collapsed description *)
Notation hkey := (fun x : device_def => h_type (dd_hdr x)).

(* a description without same-type siblings is its own collapsed form *)
Lemma collapse_id d :
  kf_dup_device_types d = false -> kf_dup_service_types d = false -> collapse d = d.
Proof.
  induction d as [h icons svcs subs IH] using device_def_ind'. intros K1 K2.
  destruct (kf_device_node _ _ _ _ K1) as [ND1 K1s]. destruct (kf_service_node _ _ _ _ K2) as [ND2 K2s].
  cbn [collapse]. rewrite (dedup_last_id s_type svcs ND2).
  assert (E : map collapse subs = subs).
  { rewrite <- (map_id subs) at 2. apply map_ext_in. intros x Hx. rewrite Forall_forall in IH.
    apply IH; [assumption | now apply K1s | now apply K2s]. }
  rewrite E, (dedup_last_id hkey subs ND1). reflexivity.
Qed.

(* the collapsed description has no same-type siblings *)
Lemma collapse_no_dup_devices d : kf_dup_device_types (collapse d) = false.
Proof.
  induction d as [h icons svcs subs IH] using device_def_ind'. cbn [collapse kf_dup_device_types].
  rewrite (NoDup_nodupb _ (dedup_last_nodup hkey (map collapse subs))). cbn [negb orb].
  apply existsb_none. intros x Hx. apply dedup_last_in, in_map_iff in Hx as [y [<- Hy]].
  rewrite Forall_forall in IH. now apply IH.
Qed.
Lemma collapse_no_dup_services d : kf_dup_service_types (collapse d) = false.
Proof.
  induction d as [h icons svcs subs IH] using device_def_ind'. cbn [collapse kf_dup_service_types].
  rewrite (NoDup_nodupb _ (dedup_last_nodup s_type svcs)). cbn [negb orb].
  apply existsb_none. intros x Hx. apply dedup_last_in, in_map_iff in Hx as [y [<- Hy]].
  rewrite Forall_forall in IH. now apply IH.
Qed.

Lemma collapse_idem d : collapse (collapse d) = collapse d.
Proof. apply collapse_id; [apply collapse_no_dup_devices | apply collapse_no_dup_services]. Qed.

(* every service of the collapsed description is a service of the description *)
Lemma collapse_services d s : In s (all_services (collapse d)) -> In s (all_services d).
Proof.
  revert s. induction d as [h icons svcs subs IH] using device_def_ind'. intros s.
  cbn [collapse all_services]. rewrite !in_app_iff, !in_flat_map. intros [H|[x [Hx Hs]]].
  - left. now apply dedup_last_in in H.
  - right. apply dedup_last_in, in_map_iff in Hx as [y [<- Hy]]. exists y. split; [assumption|].
    rewrite Forall_forall in IH. now apply IH.
Qed.
Lemma collapse_any_corrupt d : any_corrupt (collapse d) = true -> any_corrupt d = true.
Proof.
  unfold any_corrupt. intros H. apply existsb_exists in H as [s [Hs Hc]].
  apply existsb_exists. exists s. split; [now apply collapse_services | assumption].
Qed.

Section Collapse.
  Variable urljoin : pystr -> pystr -> pystr.
  Variable float_of_str : pystr -> option fl.
  Variable lower_ext : N -> N.
  Variable r : rendering.
  Hypothesis Hperm : forall l, Permutation (r_perm r l) l.
  Variable strict : bool.
  Variable probes : list pyval.
  Variable base : pystr.

  Notation run := (run_def urljoin float_of_str lower_ext r strict probes base).
  Notation wf_desc := (wf_desc urljoin float_of_str lower_ext base).
  Notation wf_tree := (wf_tree urljoin float_of_str lower_ext base).
  Notation mirror_dev := (mirror_dev urljoin float_of_str lower_ext strict probes base).
  Notation devo_of := (devo_of urljoin float_of_str lower_ext strict probes base).
  Notation svco_of := (svco_of urljoin float_of_str lower_ext strict probes base).
  Notation c_mirrors := (c_mirrors urljoin float_of_str lower_ext strict probes base).

  (* the collapsed description is conformant when the description is (wf_tree: per-element conditions) *)
  Lemma collapse_wf_tree d : wf_tree d = true -> wf_tree (collapse d) = true.
  Proof.
    induction d as [h icons svcs subs IH] using device_def_ind'. intros Hwf.
    destruct (wf_tree_node _ _ _ _ _ _ _ _ Hwf) as (Hi & Hs & Hsub).
    cbn [collapse Spec.wf_tree]. rewrite !andb_true_iff, !forallb_forall. repeat split.
    - intros c Hc. now apply Hi.
    - intros s Hin. now apply Hs, dedup_last_in with (key := s_type).
    - intros x Hx. apply dedup_last_in, in_map_iff in Hx as [y [<- Hy]].
      rewrite Forall_forall in IH. apply IH; [assumption | now apply Hsub].
  Qed.

  (* THE MODEL-OBJECT EQUALITY: the object graph the build stage produces for a well-formed description is the
     one it produces for the collapsed description - the dict comprehensions of UpnpDevice collapse exactly as
     Spec.collapse does *)
  Lemma devo_collapse d : devo_of (collapse d) = devo_of d.
  Proof.
    induction d as [h icons svcs subs IH] using device_def_ind'. cbn [collapse Expected.devo_of]. f_equal.
    - apply (dict_of_map_dedup so_type s_type). reflexivity.
    - rewrite (dict_of_map_dedup (fun e => di_type (do_info e)) hkey) by (intros x; apply devo_type).
      rewrite map_map. f_equal. apply map_ext_in. intros x Hx. rewrite Forall_forall in IH. now apply IH.
  Qed.

  (* the run on d's own documents (every SCPD fetched, also those of services the collapse drops) yields the
     mirror of the collapsed description *)
  Theorem mirrors_collapsed d :
    wf_desc d = true -> strict && any_corrupt d = false ->
    exists o, run d = FOk o /\ mirror_dev (collapse d) o = true.
  Proof.
    intros Hwf Hsc. exists (devo_of d). split; [now apply run_ok|].
    destruct (wf_desc_parts urljoin float_of_str lower_ext base d Hwf) as [Ht _].
    rewrite <- devo_collapse. apply mirror_dev_ok.
    - now apply collapse_wf_tree.
    - destruct strict; [|reflexivity]. cbn in *.
      destruct (any_corrupt (collapse d)) eqn:E; [|reflexivity]. apply collapse_any_corrupt in E. congruence.
    - apply collapse_no_dup_devices.
    - apply collapse_no_dup_services.
  Qed.

  (* clause 1 against the collapsed description, as the correspondence check evaluates it (Run.report_one).
     Hypothesis on strict mode: the corrupted service documents are not all those of DROPPED services - a
     corrupted SCPD of a service the collapse drops is still fetched and still makes strict creation fail
     (clause 2 holds there, C05_clause_strict_refuses), although the collapsed description has no corrupted
     service left; c_mirrors_collapsed_needs_hyp below is a witness that the hypothesis cannot be dropped *)
  Theorem c_mirrors_collapsed d :
    wf_desc d = true ->
    (strict = true -> any_corrupt d = true -> any_corrupt (collapse d) = true) ->
    c_mirrors (collapse d) (run d) = true.
  Proof.
    intros Hwf Hdrop. unfold Spec.c_mirrors. destruct (strict && any_corrupt (collapse d)) eqn:E; [reflexivity|].
    assert (Hsc : strict && any_corrupt d = false).
    { destruct strict; [|reflexivity]. cbn in *. destruct (any_corrupt d) eqn:E2; [|reflexivity].
      rewrite Hdrop in E by reflexivity. discriminate. }
    destruct (mirrors_collapsed d Hwf Hsc) as [o [-> Hm]]. exact Hm.
  Qed.

  (* with NO hypothesis beyond the domain: clause 1 holds against the description or against its collapsed form -
     the exact decision of Run.report_one under the guards (nothing / clause 3, never clause 1) *)
  Theorem c_mirrors_or_collapsed d :
    wf_desc d = true -> c_mirrors d (run d) || c_mirrors (collapse d) (run d) = true.
  Proof.
    intros Hwf. destruct (strict && any_corrupt d) eqn:E.
    - unfold Spec.c_mirrors at 1. now rewrite E.
    - rewrite c_mirrors_collapsed; [apply orb_true_r | assumption |].
      intros Hs Hc. rewrite Hs, Hc in E. discriminate.
  Qed.

  (* the guarded clause is the special case "nothing collapses" *)
  Corollary c_mirrors_partial_from_collapsed d :
    wf_desc d = true -> kf_dup_device_types d = false -> kf_dup_service_types d = false ->
    c_mirrors d (run d) = true.
  Proof.
    intros Hwf K1 K2. rewrite <- (collapse_id d K1 K2) at 1. apply c_mirrors_collapsed; [assumption|].
    now rewrite (collapse_id d K1 K2).
  Qed.
End Collapse.

(* ------------------------------------------------------------------ a witness that the strict-mode hypothesis is needed *)
(* the D33 witness with the state table of its FIRST service's document missing: the first service is the one the
   collapse drops (the last sibling of the type stays), so the collapsed description has no corrupted service, yet
   strict creation fetches the dropped service's document and is refused *)
Definition w_dropped_corrupt : device_def :=
  match w_dup_services with
  | DeviceDef h i (s1 :: rest) subs =>
      DeviceDef h i ({| s_type := s_type s1; s_id := s_id s1; s_scpd := s_scpd s1; s_control := s_control s1;
                        s_event := s_event s1; s_vars := s_vars s1; s_actions := s_actions s1;
                        s_corrupt := CNoTable |} :: rest) subs
  | d => d
  end.

Lemma collapse_normal_form d :
  (kf_dup_device_types d = false -> kf_dup_service_types d = false -> collapse d = d) /\
  kf_dup_device_types (collapse d) = false /\ kf_dup_service_types (collapse d) = false /\
  collapse (collapse d) = collapse d /\
  (forall s, In s (all_services (collapse d)) -> In s (all_services d)) /\
  (forall urljoin float_of_str lower_ext base,
     wf_tree urljoin float_of_str lower_ext base d = true ->
     wf_tree urljoin float_of_str lower_ext base (collapse d) = true).
Proof.
  repeat split.
  - apply collapse_id.
  - apply collapse_no_dup_devices.
  - apply collapse_no_dup_services.
  - apply collapse_idem.
  - apply collapse_services.
  - intros. now apply collapse_wf_tree.
Qed.
