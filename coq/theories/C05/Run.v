(* C05 — instantiation used by the correspondence check (never by a theorem). *)
From Coq Require Import List Bool NArith ZArith.
From AUC Require Export Prelude.PyStr C08.TypesDef C08.Model Gen.Types C05.Xml C05.Names C05.Model C05.Def C05.Spec.
Import ListNotations.
Local Open Scope N_scope.

Inductive fetched_x := XStatus (code : Z) | XParseError | XDoc (x : xml).

Inductive doc :=
(* a device_def, rendered inside Coq; [parsed] = what the real parser made of the harness's own
   rendering (description, then url |-> SCPD), shipped for the first cases of a run *)
| IDef (d : device_def) (perm_k : N) (ctext : option pystr) (pad spec empty : bool)
       (parsed : option (xml * list (pystr * option xml)))
(* arbitrary documents as parsed by the real parser (malformed stream) *)
| IRaw (root : fetched_root) (scpds : list (pystr * fetched_x)).

Record input := {
  i_strict : bool; i_base : pystr; i_probes : list pyval;
  i_urljoin : list (pystr * pystr);               (* url |-> urllib.parse.urljoin(base, url) *)
  i_fparse : list (pystr * option fl);            (* text |-> float(text) *)
  i_doc : doc }.
Definition observation := fres dev_o.

(* ---- oracles from the recorded tables ---- *)
Definition urljoin_of (i : input) (b u : pystr) : pystr :=
  if str_eqb b (i_base i) then
    match find (fun p => str_eqb (fst p) u) (i_urljoin i) with Some p => snd p | None => [0] end
  else [0].
Definition fparse_of (i : input) (s : pystr) : option fl :=
  match find (fun p => str_eqb (fst p) s) (i_fparse i) with Some p => snd p | None => None end.
Definition lext (c : N) : N := c.

Definition fetch_raw (tbl : list (pystr * fetched_x)) (url : pystr) : fetched :=
  match find (fun p => str_eqb (fst p) url) tbl with
  | Some (_, XStatus c) => FStatus c
  | Some (_, XParseError) => FParseError
  | Some (_, XDoc x) => FDoc (parse_scpd x)
  | None => FStatus 404%Z
  end.

Definition model_run (i : input) : observation :=
  match i_doc i with
  | IDef d k ct pad spec empty _ =>
      run_def (urljoin_of i) (fparse_of i) lext (rendering_of k ct pad spec empty)
              (i_strict i) (i_probes i) (i_base i) d
  | IRaw root scpds =>
      create_device (urljoin_of i) (fparse_of i) lext (fetch_raw scpds) (i_strict i) (i_probes i) (i_base i) root
  end.

Definition in_domain (i : input) : bool :=
  match i_doc i with
  | IDef d _ _ _ _ _ _ => wf_desc (urljoin_of i) (fparse_of i) lext (i_base i) d
  | IRaw _ _ => false
  end.

(* ---- decidable equality on observations ---- *)
Definition exn_eqb (a b : exn) : bool :=
  match a, b with
  | ValueError, ValueError | TypeError, TypeError | AttributeError, AttributeError
  | UpnpValueError, UpnpValueError | IndexError, IndexError | OtherError, OtherError => true
  | _, _ => false
  end.
Definition res_eq {A} (eqb : A -> A -> bool) (a b : res A) : bool :=
  match a, b with Ok x, Ok y => eqb x y | Raise x, Raise y => exn_eqb x y | _, _ => false end.
Definition fexn_eqb (a b : fexn) : bool :=
  match a, b with
  | XmlParseError, XmlParseError | XmlContentError, XmlContentError | UpnpErr, UpnpErr | KeyErr, KeyErr
  | ValueErr, ValueErr | TypeErr, TypeErr | OtherErr, OtherErr => true
  | ResponseError x, ResponseError y => (x =? y)%Z
  | _, _ => false
  end.
Definition oz_eqb := opt_eqb val_eqb.
Definition sv_eqb (a b : sv_o) : bool :=
  str_eqb (vo_name a) (vo_name b) && str_eqb (vo_dtype a) (vo_dtype b) && pytype_eqb (vo_pytype a) (vo_pytype b) &&
  Bool.eqb (vo_events a) (vo_events b) && res_eq oz_eqb (vo_min a) (vo_min b) && res_eq oz_eqb (vo_max a) (vo_max b) &&
  res_eq set_eqb (vo_allowed a) (vo_allowed b) && res_eq oz_eqb (vo_default a) (vo_default b) &&
  list_eqb Bool.eqb (vo_probes a) (vo_probes b) && Bool.eqb (vo_bound a) (vo_bound b).
Definition arg_eqb (a b : arg_o) : bool :=
  str_eqb (ao_name a) (ao_name b) && str_eqb (ao_direction a) (ao_direction b) && str_eqb (ao_rsv a) (ao_rsv b) &&
  Bool.eqb (ao_bound a) (ao_bound b).
Definition action_eqb (a b : action_o) : bool :=
  str_eqb (co_name a) (co_name b) && list_eqb arg_eqb (co_args a) (co_args b) && Bool.eqb (co_bound a) (co_bound b).
Definition pair_eqb {A} (eqb : A -> A -> bool) (a b : pystr * A) : bool :=
  str_eqb (fst a) (fst b) && eqb (snd a) (snd b).
Definition service_eqb (a b : service_o) : bool :=
  str_eqb (so_type a) (so_type b) && str_eqb (so_id a) (so_id b) && str_eqb (so_scpd a) (so_scpd b) &&
  str_eqb (so_control a) (so_control b) && str_eqb (so_event a) (so_event b) &&
  list_eqb (pair_eqb sv_eqb) (so_vars a) (so_vars b) && list_eqb (pair_eqb action_eqb) (so_actions a) (so_actions b) &&
  Bool.eqb (so_bound a) (so_bound b).
(* optional texts are compared up to the reading "absent = None or ''" (Spec.opt_matches), so that a
   different default for an absent optional element is not a disagreement *)
Definition ostr_eqb (a b : option pystr) : bool :=
  let norm o := match o with Some [] => None | _ => o end in
  opt_eqb str_eqb (norm a) (norm b).
Definition info_eqb (a b : dev_info) : bool :=
  str_eqb (di_type a) (di_type b) && str_eqb (di_friendly a) (di_friendly b) &&
  str_eqb (di_manufacturer a) (di_manufacturer b) && ostr_eqb (di_manufacturer_url a) (di_manufacturer_url b) &&
  ostr_eqb (di_model_desc a) (di_model_desc b) && str_eqb (di_model_name a) (di_model_name b) &&
  ostr_eqb (di_model_number a) (di_model_number b) && ostr_eqb (di_model_url a) (di_model_url b) &&
  ostr_eqb (di_serial a) (di_serial b) && str_eqb (di_udn a) (di_udn b) && ostr_eqb (di_upc a) (di_upc b) &&
  ostr_eqb (di_presentation a) (di_presentation b) && str_eqb (di_url a) (di_url b).
Definition icon_eqb (a b : icon_o) : bool :=
  str_eqb (io_mimetype a) (io_mimetype b) && (io_width a =? io_width b)%Z && (io_height a =? io_height b)%Z &&
  (io_depth a =? io_depth b)%Z && str_eqb (io_url a) (io_url b).
Fixpoint dev_eqb (a b : dev_o) : bool :=
  match a, b with
  | DevO i1 c1 s1 e1 b1, DevO i2 c2 s2 e2 b2 =>
      info_eqb i1 i2 && list_eqb icon_eqb c1 c2 && list_eqb (pair_eqb service_eqb) s1 s2 &&
      (fix go (x y : list (pystr * dev_o)) : bool :=
         match x, y with
         | [], [] => true
         | (k1, d1) :: x', (k2, d2) :: y' => str_eqb k1 k2 && dev_eqb d1 d2 && go x' y'
         | _, _ => false
         end) e1 e2 &&
      Bool.eqb b1 b2
  end.
(* a refusal is compared up to what the property says about it: "the library's error type" (which
   class of the UpnpError family is raised first depends on the order in which documents are visited) *)
Definition obs_eqb (a b : observation) : bool :=
  match a, b with
  | FOk x, FOk y => dev_eqb x y
  | FRaise x, FRaise y => fexn_eqb x y || (lib_error x && lib_error y)
  | _, _ => false
  end.

(* ---- the harness's renderer against to_tree: equal trees, up to the character data of elements
        that have children (indentation) ---- *)
Fixpoint xml_eqb (a b : xml) : bool :=
  match a, b with
  | Elem n1 l1 a1 t1 c1, Elem n2 l2 a2 t2 c2 =>
      str_eqb n1 n2 && str_eqb l1 l2 &&
      list_eqb (fun p q => str_eqb (fst p) (fst q) && str_eqb (snd p) (snd q)) a1 a2 &&
      (match c1 with [] => opt_eqb str_eqb t1 t2 | _ => true end) &&
      (fix go (x y : list xml) : bool :=
         match x, y with
         | [], [] => true
         | u :: x', v :: y' => xml_eqb u v && go x' y'
         | _, _ => false
         end) c1 c2
  end.
Definition trees_agree (i : input) : bool :=
  match i_doc i with
  | IDef d k ct pad spec empty (Some (root, scpds)) =>
      let r := rendering_of k ct pad spec empty in
      xml_eqb (root_tree r d) root &&
      forallb (fun s =>
                 match find (fun p => str_eqb (fst p) (scpd_url (urljoin_of i) (i_base i) s)) scpds with
                 | Some (_, px) => opt_eqb xml_eqb (scpd_tree r s) px
                 | None => false
                 end) (all_services d)
  | _ => true
  end.

(* ---- report ---- *)
Definition flag (b : bool) (base k d : N) : list (N * N * N) := if b then [] else [(base, k, d)].
Definition guard (b : bool) (base k : N) : list (N * N * N) := if b then [(base, k, 0)] else [].

Definition report_one (base : N) (i : input) (ob : observation) : list (N * N * N) :=
  flag (obs_eqb (model_run i) ob) base 0 0 ++ flag (trees_agree i) base 0 1 ++
  match i_doc i with
  | IDef d _ _ _ _ _ _ =>
      if in_domain i then
        (let mir := c_mirrors (urljoin_of i) (fparse_of i) lext (i_strict i) (i_probes i) (i_base i) in
         if kf_dup_device_types d || kf_dup_service_types d then
           (* known findings D32 / D33: reported as clause 3 exactly when the object model is the mirror of the collapsed
              description (Spec.collapse); any other deviation stays clause 1 and is not covered by the findings *)
           if mir d ob then []
           else if mir (collapse d) ob then [(base, 3, 0)] else [(base, 1, 0)]
         else flag (mir d ob) base 1 0) ++
        flag (c_strict_refuses (i_strict i) d ob) base 2 0 ++
        guard (kf_dup_device_types d) base 101 ++ guard (kf_dup_service_types d) base 102
      else []
  | IRaw _ _ => []
  end.

Fixpoint report (base : N) (cases : list (input * observation)) : list (N * N * N) :=
  match cases with
  | [] => []
  | (i, ob) :: r => report_one base i ob ++ report (N.succ base) r
  end.

Definition replay (c : input * observation) :=
  let '(i, ob) := c in
  (model_run i, in_domain i, obs_eqb (model_run i) ob, trees_agree i,
   match i_doc i with
   | IDef d _ _ _ _ _ _ =>
       (c_mirrors (urljoin_of i) (fparse_of i) lext (i_strict i) (i_probes i) (i_base i) d ob,
        c_strict_refuses (i_strict i) d ob, kf_dup_device_types d, kf_dup_service_types d)
   | IRaw _ _ => (true, true, false, false)
   end).
