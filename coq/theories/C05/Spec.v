(* C05 — the property restated: what it means for an observed object graph to mirror a device_def
   one-to-one (mirror_dev), which inputs the statement speaks about (wf_dev), the two clauses
   (c_mirrors, c_strict_refuses) as executable booleans over (input, observation), and the guards of
   the two known findings.  Readings (interpretive decisions) are the definitions marked "Reading". *)
From Coq Require Import List Bool NArith ZArith.
From AUC Require Import Prelude.PyStr C08.TypesDef C08.Model C08.Spec Gen.Types C05.Xml C05.Names C05.Model C05.Def.
Import ListNotations.

(* ------------------------------------------------------------------ decidable equalities *)
Definition fl_eqb (a b : fl) : bool :=
  match a, b with
  | FFin m1 e1, FFin m2 e2 => (m1 =? m2)%Z && (e1 =? e2)%Z
  | FInf x, FInf y => Bool.eqb x y
  | FNan, FNan => true
  | _, _ => false
  end.
Definition otz_eqb (a b : option Z) : bool :=
  match a, b with Some x, Some y => (x =? y)%Z | None, None => true | _, _ => false end.
Definition date_eqb (a b : pdate) := ((dy a =? dy b) && (dm a =? dm b) && (dd a =? dd b))%N.
Definition time_eqb (a b : ptime) :=
  ((th a =? th b) && (tmi a =? tmi b) && (ts a =? ts b))%N && otz_eqb (ttz a) (ttz b).
Definition val_eqb (a b : pyval) : bool :=
  match a, b with
  | VInt x, VInt y => (x =? y)%Z
  | VBool x, VBool y => Bool.eqb x y
  | VFloat x, VFloat y => fl_eqb x y
  | VStr x, VStr y => str_eqb x y
  | VDate x, VDate y => date_eqb x y
  | VTime x, VTime y => time_eqb x y
  | VDateTime d1 t1, VDateTime d2 t2 => date_eqb d1 d2 && time_eqb t1 t2
  | VNone, VNone => true
  | _, _ => false
  end.
Definition pytype_eqb (a b : pytype) : bool :=
  match a, b with
  | TInt, TInt | TFloat, TFloat | TStr, TStr | TBool, TBool | TDate, TDate | TDateTime, TDateTime
  | TTime, TTime => true
  | _, _ => false
  end.
Definition opt_eqb {A} (eqb : A -> A -> bool) (a b : option A) : bool :=
  match a, b with Some x, Some y => eqb x y | None, None => true | _, _ => false end.
Fixpoint forallb2 {A B} (f : A -> B -> bool) (a : list A) (b : list B) : bool :=
  match a, b with
  | [], [] => true
  | x :: a', y :: b' => f x y && forallb2 f a' b'
  | _, _ => false
  end.
Definition list_eqb {A} (eqb : A -> A -> bool) (a b : list A) : bool := forallb2 eqb a b.
(* a Python set of values against a list: same elements *)
Definition set_eqb (a b : list pyval) : bool :=
  forallb (fun x => existsb (val_eqb x) b) a && forallb (fun y => existsb (val_eqb y) a) b.
Fixpoint nodupb (l : list pystr) : bool :=
  match l with [] => true | x :: r => negb (existsb (str_eqb x) r) && nodupb r end.
Definition nonempty (s : pystr) : bool := match s with [] => false | _ => true end.

(* equality of the SCPD-relevant part of two service definitions: what one service description
   document says (state variables, actions) and what the server does with it (corruption) *)
Definition svd_eqb (a b : sv_def) : bool :=
  str_eqb (sd_name a) (sd_name b) && str_eqb (sd_type a) (sd_type b) &&
  Bool.eqb (sd_attr a) (sd_attr b) && Bool.eqb (sd_evented a) (sd_evented b) &&
  opt_eqb str_eqb (sd_default a) (sd_default b) &&
  opt_eqb (fun x y => opt_eqb str_eqb (fst (fst x)) (fst (fst y)) && opt_eqb str_eqb (snd (fst x)) (snd (fst y)) &&
                      opt_eqb str_eqb (snd x) (snd y)) (sd_range a) (sd_range b) &&
  opt_eqb (list_eqb str_eqb) (sd_allowed a) (sd_allowed b).
Definition argd_eqb (a b : arg_def) : bool :=
  str_eqb (ag_name a) (ag_name b) && Bool.eqb (ag_in a) (ag_in b) && Bool.eqb (ag_retval a) (ag_retval b) &&
  str_eqb (ag_rsv a) (ag_rsv b).
Definition actd_eqb (a b : action_def) : bool :=
  str_eqb (ad_name a) (ad_name b) && list_eqb argd_eqb (ad_args a) (ad_args b).
Definition corruption_eqb (a b : corruption) : bool :=
  match a, b with
  | CNone, CNone | CUnparseable, CUnparseable | CForeignTag, CForeignTag | CForeignRootNs, CForeignRootNs
  | CForeignNs, CForeignNs | CNoTable, CNoTable => true
  | _, _ => false
  end.
Definition same_scpd (a b : service_def) : bool :=
  list_eqb svd_eqb (s_vars a) (s_vars b) && list_eqb actd_eqb (s_actions a) (s_actions b) &&
  corruption_eqb (s_corrupt a) (s_corrupt b).

Section Spec.
  Variable urljoin : pystr -> pystr -> pystr.
  Variable float_of_str : pystr -> option fl.
  Variable lower_ext : N -> N.
  Variable strict : bool.
  Variable probes : list pyval.
  Variable base : pystr.

  (* -------------------------------------------------------------- URLs *)
  Definition is_abs (u : pystr) : bool := starts_with s_http2 u || starts_with s_https2 u.
  Definition is_rel (u : pystr) : bool := negb (starts_with s_http u) && negb (starts_with s_https u).
  (* "resolved against the description URL": an absolute URL is itself, a relative one is joined *)
  Definition resolve (u : pystr) : pystr := if is_abs u then u else urljoin base u.
  (* Reading (URL styles): a URL is written either absolute (http:// or https://, and such that RFC 3986
     resolution leaves it unchanged: no dot segments - a fact about the urljoin oracle at this point,
     checked per input) or relative (not starting with "http:" / "https:") *)
  Definition url_ok (u : pystr) : bool :=
    if is_abs u then str_eqb (urljoin base u) u else is_rel u.

  (* -------------------------------------------------------------- state variables *)
  Definition coerce (row : type_row) (t : pystr) : option pyval :=
    match apply_in float_of_str lower_ext (r_in row) t with Ok v => Some v | Raise _ => None end.
  Definition coercible (row : type_row) (t : pystr) : bool :=
    match coerce row t with Some _ => true | None => false end.
  Definition opt_coercible (row : type_row) (o : option pystr) : bool :=
    match o with Some t => nonempty t && coercible row t | None => true end.
  Definition coerce_list (row : type_row) (l : list pystr) : list pyval :=
    flat_map (fun t => match coerce row t with Some v => [v] | None => [] end) l.
  Definition sd_min (v : sv_def) : option pystr := match sd_range v with Some (a, _, _) => a | None => None end.
  Definition sd_max (v : sv_def) : option pystr := match sd_range v with Some (_, b, _) => b | None => None end.
  Definition sd_allowed_list (v : sv_def) : list pystr := match sd_allowed v with Some l => l | None => [] end.

  (* a conformant state variable: supported type; name without surrounding white space; default,
     bounds and allowed values are non-empty spellings of values of the type *)
  Definition wf_sv (v : sv_def) : bool :=
    match find_row (sd_type v) type_table with
    | None => false
    | Some row =>
        str_eqb (strip (sd_name v)) (sd_name v) &&
        opt_coercible row (sd_default v) && opt_coercible row (sd_min v) && opt_coercible row (sd_max v) &&
        forallb (fun a => nonempty a && coercible row a) (sd_allowed_list v)
    end.

  (* the declaration the variable's validation must implement: type, tz, and - strict mode - the
     allowed list and the range, as values of the type *)
  Definition spec_decl (row : type_row) (v : sv_def) : decl :=
    {| d_row := row; d_strict := strict;
       d_allowed := if strict then coerce_list row (sd_allowed_list v) else [];
       d_min := if strict then match sd_min v with Some t => coerce row t | None => None end else None;
       d_max := if strict then match sd_max v with Some t => coerce row t | None => None end else None |}.
  Definition spec_probe (row : type_row) (v : sv_def) (p : pyval) : bool :=
    let d := spec_decl row v in
    if strict then spec_accepts d p else type_ok d p && tz_ok d p.

  Definition res_eqb {A} (eqb : A -> A -> bool) (r : res A) (expect : A) : bool :=
    match r with Ok x => eqb x expect | Raise _ => false end.

  Definition mirror_sv (v : sv_def) (o : sv_o) : bool :=
    match find_row (sd_type v) type_table with
    | None => false
    | Some row =>
        str_eqb (vo_name o) (sd_name v) && str_eqb (vo_dtype o) (sd_type v) &&
        pytype_eqb (vo_pytype o) (r_type row) && Bool.eqb (vo_events o) (sd_evented v) &&
        res_eqb (opt_eqb val_eqb) (vo_min o) (match sd_min v with Some t => coerce row t | None => None end) &&
        res_eqb (opt_eqb val_eqb) (vo_max o) (match sd_max v with Some t => coerce row t | None => None end) &&
        res_eqb set_eqb (vo_allowed o) (coerce_list row (sd_allowed_list v)) &&
        res_eqb (opt_eqb val_eqb) (vo_default o) (match sd_default v with Some t => coerce row t | None => None end) &&
        list_eqb Bool.eqb (vo_probes o) (map (spec_probe row v) probes) &&
        vo_bound o
    end.

  (* -------------------------------------------------------------- actions *)
  Definition mirror_arg (a : arg_def) (o : arg_o) : bool :=
    str_eqb (ao_name o) (ag_name a) && str_eqb (ao_direction o) (if ag_in a then s_in else s_out) &&
    str_eqb (ao_rsv o) (ag_rsv a) && ao_bound o.
  Definition mirror_action (a : action_def) (o : action_o) : bool :=
    str_eqb (co_name o) (ad_name a) && forallb2 mirror_arg (ad_args a) (co_args o) && co_bound o.

  (* -------------------------------------------------------------- services *)
  Definition mirror_service_info (s : service_def) (o : service_o) : bool :=
    str_eqb (so_type o) (s_type s) && str_eqb (so_id o) (s_id s) &&
    str_eqb (so_scpd o) (resolve (s_scpd s)) && str_eqb (so_control o) (resolve (s_control s)) &&
    str_eqb (so_event o) (resolve (s_event s)) && so_bound o.
  Definition mirror_service_body (s : service_def) (o : service_o) : bool :=
    list_eqb str_eqb (map fst (so_vars o)) (map sd_name (s_vars s)) &&
    forallb2 mirror_sv (s_vars s) (map snd (so_vars o)) &&
    list_eqb str_eqb (map fst (so_actions o)) (map ad_name (s_actions s)) &&
    forallb2 mirror_action (s_actions s) (map snd (so_actions o)).
  (* Reading (degraded service, non-strict mode): the service is there with its identity and URLs;
     "empty" = it has no state variables and nothing is bound to one - no actions at all when the
     document was unparseable / foreign, no arguments when only the state table is missing.  For a
     foreign root element in non-strict mode the statement asks nothing about the body. *)
  Definition mirror_service (s : service_def) (o : service_o) : bool :=
    mirror_service_info s o &&
    match s_corrupt s with
    | CNone => mirror_service_body s o
    | CUnparseable | CForeignNs =>
        match so_vars o, so_actions o with [], [] => true | _, _ => false end
    | CNoTable =>
        match so_vars o with [] => true | _ => false end &&
        forallb (fun ka => match co_args (snd ka) with [] => true | _ => false end) (so_actions o)
    | CForeignTag | CForeignRootNs => true
    end.

  Definition wf_action (names : list pystr) (a : action_def) : bool :=
    forallb (fun g => existsb (str_eqb (ag_rsv g)) names) (ad_args a).
  (* a conformant service: conformant variables with distinct names, actions with distinct names whose
     arguments name existing variables, URLs of either style *)
  Definition wf_service (s : service_def) : bool :=
    url_ok (s_scpd s) && url_ok (s_control s) && url_ok (s_event s) &&
    forallb wf_sv (s_vars s) && nodupb (map sd_name (s_vars s)) &&
    nodupb (map ad_name (s_actions s)) && forallb (wf_action (map sd_name (s_vars s))) (s_actions s).

  (* -------------------------------------------------------------- devices *)
  (* Reading (optional text): an absent optional element is reported as absent - None or "" *)
  Definition opt_matches (d o : option pystr) : bool :=
    match d, o with
    | Some t, Some t' => str_eqb t t'
    | None, None => true
    | None, Some [] => true
    | _, _ => false
    end.
  Definition mirror_hdr (h : dev_hdr) (i : dev_info) : bool :=
    str_eqb (di_type i) (h_type h) && str_eqb (di_friendly i) (h_friendly h) &&
    str_eqb (di_manufacturer i) (h_manufacturer h) &&
    opt_matches (h_manufacturer_url h) (di_manufacturer_url i) &&
    opt_matches (h_model_desc h) (di_model_desc i) && str_eqb (di_model_name i) (h_model_name h) &&
    opt_matches (h_model_number h) (di_model_number i) && opt_matches (h_model_url h) (di_model_url i) &&
    opt_matches (h_serial h) (di_serial i) && str_eqb (di_udn i) (h_udn h) &&
    opt_matches (h_upc h) (di_upc i) && opt_matches (h_presentation h) (di_presentation i) &&
    str_eqb (di_url i) base.
  Definition mirror_icon (c : icon_def) (o : icon_o) : bool :=
    str_eqb (io_mimetype o) (ic_mime c) && (io_width o =? ic_w c)%Z && (io_height o =? ic_h c)%Z &&
    (io_depth o =? ic_d c)%Z && str_eqb (io_url o) (resolve (ic_url c)).

  (* one-to-one: the same devices in the same order under their types, the same services, icons *)
  Fixpoint mirror_dev (d : device_def) (o : dev_o) : bool :=
    match d, o with
    | DeviceDef h icons svcs subs, DevO info ics ss es bound =>
        mirror_hdr h info && forallb2 mirror_icon icons ics &&
        list_eqb str_eqb (map fst ss) (map s_type svcs) && forallb2 mirror_service svcs (map snd ss) &&
        (fix go (ds : list device_def) (os : list (pystr * dev_o)) : bool :=
           match ds, os with
           | [], [] => true
           | d' :: dr, (k, o') :: or' => str_eqb k (h_type (dd_hdr d')) && mirror_dev d' o' && go dr or'
           | _, _ => false
           end) subs es &&
        bound
    end.

  Fixpoint wf_tree (d : device_def) : bool :=
    match d with
    | DeviceDef h icons svcs subs =>
        forallb (fun c => url_ok (ic_url c)) icons && forallb wf_service svcs && forallb wf_tree subs
    end.
  (* the server can serve the documents: one document per SCPD URL.  Services whose SCPD URLs resolve to
     the same URL (real gateways let WANIPConnection and WANPPPConnection share one SCPD) have the same
     SCPD-relevant definition - the same state variables, actions and corruption marker - so that the
     one document served there describes each of them; no SCPD URL is the description URL *)
  Fixpoint shared_ok (l : list service_def) : bool :=
    match l with
    | [] => true
    | x :: rest =>
        forallb (fun y => implb (str_eqb (scpd_url urljoin base x) (scpd_url urljoin base y)) (same_scpd x y)) rest &&
        shared_ok rest
    end.
  Definition wf_world (d : device_def) : bool :=
    shared_ok (all_services d) &&
    negb (existsb (str_eqb base) (map (scpd_url urljoin base) (all_services d))).
  (* the domain of the statement *)
  Definition wf_desc (d : device_def) : bool := wf_tree d && wf_world d.
  (* the sub-domain "every service has its own SCPD URL" (what C14's server produces) *)
  Definition wf_dev (d : device_def) : bool :=
    wf_desc d && nodupb (map (scpd_url urljoin base) (all_services d)).

  (* -------------------------------------------------------------- corruption *)
  Definition corrupt (s : service_def) : bool := match s_corrupt s with CNone => false | _ => true end.
  Definition any_corrupt (d : device_def) : bool := existsb corrupt (all_services d).
  (* the library's error type: the UpnpError family *)
  Definition lib_error (e : fexn) : bool :=
    match e with XmlParseError | XmlContentError | ResponseError _ | UpnpErr => true | _ => false end.

  (* clause 1: the object model mirrors the documents (every service document intact, either mode),
     and in non-strict mode corrupted service documents degrade instead of failing the device *)
  Definition c_mirrors (d : device_def) (ob : fres dev_o) : bool :=
    if strict && any_corrupt d then true
    else match ob with FOk o => mirror_dev d o | FRaise _ => false end.
  (* clause 2: strict mode refuses a corrupted service document with the library's error type *)
  Definition c_strict_refuses (d : device_def) (ob : fres dev_o) : bool :=
    if strict && any_corrupt d then match ob with FRaise e => lib_error e | FOk _ => false end
    else true.
End Spec.

(* ------------------------------------------------------------------ known findings: guards *)
(* D32: UpnpDevice.embedded_devices is keyed by device type - sibling embedded devices of one type collapse *)
Fixpoint kf_dup_device_types (d : device_def) : bool :=
  match d with
  | DeviceDef _ _ _ subs =>
      negb (nodupb (map (fun s => h_type (dd_hdr s)) subs)) || existsb kf_dup_device_types subs
  end.
(* D33: UpnpDevice.services is keyed by service type - two services of one type in a device collapse *)
Fixpoint kf_dup_service_types (d : device_def) : bool :=
  match d with
  | DeviceDef _ _ svcs subs => negb (nodupb (map s_type svcs)) || existsb kf_dup_service_types subs
  end.

(* ------------------------------------------------------------------ known findings: what exactly deviates *)
(* D32 / D33 are identified by their outcome, not only by their inputs: the object model of a description with same-type
   siblings is the faithful mirror of the description one gets by treating `embedded_devices` / `services` as what they
   are, dicts keyed by type - the first occurrence of a type keeps its place, the LAST sibling of that type is the one
   that stays.  A description under the guards whose object model is the mirror of neither the description nor its
   collapsed form fails the ordinary clause. *)
Fixpoint last_with {A} (key : A -> pystr) (k : pystr) (l : list A) : option A :=
  match l with
  | [] => None
  | x :: r => match last_with key k r with
              | Some y => Some y
              | None => if str_eqb (key x) k then Some x else None
              end
  end.
Fixpoint dedup_last_aux {A} (key : A -> pystr) (all : list A) (seen : list pystr) (l : list A) : list A :=
  match l with
  | [] => []
  | x :: r =>
      if existsb (str_eqb (key x)) seen then dedup_last_aux key all seen r
      else match last_with key (key x) all with
           | Some y => y :: dedup_last_aux key all (key x :: seen) r
           | None => x :: dedup_last_aux key all (key x :: seen) r
           end
  end.
Definition dedup_last {A} (key : A -> pystr) (l : list A) : list A := dedup_last_aux key l [] l.
Fixpoint collapse (d : device_def) : device_def :=
  match d with
  | DeviceDef h icons svcs subs =>
      DeviceDef h icons (dedup_last s_type svcs) (dedup_last (fun x => h_type (dd_hdr x)) (map collapse subs))
  end.
