(* C05 — an ElementTree element as client_factory.py sees it, and exactly the queries it uses.
   XML text -> tree is the real parser (defusedxml/expat) in the harness: an oracle.
   Definitions only. *)
From Coq Require Import List Bool NArith.
From AUC Require Import Prelude.PyStr.
Import ListNotations.

(* tag = {ns}local ; attribute keys are ElementTree keys (Clark notation when namespaced);
   text = None for an element without character data before its first child *)
Inductive xml :=
  Elem (ns local : pystr) (attrs : list (pystr * pystr)) (text : option pystr) (children : list xml).

Definition x_ns (x : xml) := match x with Elem n _ _ _ _ => n end.
Definition x_local (x : xml) := match x with Elem _ l _ _ _ => l end.
Definition x_attrs (x : xml) := match x with Elem _ _ a _ _ => a end.
Definition x_text (x : xml) := match x with Elem _ _ _ t _ => t end.
Definition x_children (x : xml) := match x with Elem _ _ _ _ c => c end.

Definition tag_is (ns l : pystr) (x : xml) : bool := str_eqb (x_ns x) ns && str_eqb (x_local x) l.

(* el.find("p:l", NS) / el.findall("p:l", NS): direct children, document order *)
Definition find1 (ns l : pystr) (cs : list xml) : option xml := find (tag_is ns l) cs.
Definition findall1 (ns l : pystr) (cs : list xml) : list xml := filter (tag_is ns l) cs.
(* el.findall("./p:a/p:b", NS) *)
Definition findall2 (ns a b : pystr) (cs : list xml) : list xml :=
  flat_map (fun c => findall1 ns b (x_children c)) (findall1 ns a cs).

(* el.findtext("p:l", default, NS): None = no such child (the caller applies its default);
   a child without text yields "" *)
Definition text_or_empty (x : xml) : pystr := match x_text x with Some t => t | None => [] end.
Definition findtext (ns l : pystr) (cs : list xml) : option pystr :=
  match find1 ns l cs with Some e => Some (text_or_empty e) | None => None end.

Fixpoint attr_get (k : pystr) (attrs : list (pystr * pystr)) : option pystr :=
  match attrs with
  | [] => None
  | (k', v) :: r => if str_eqb k' k then Some v else attr_get k r
  end.

Definition or_empty (o : option pystr) : pystr := match o with Some t => t | None => [] end.
